//! C04 — a compiled table reads back as the table that was written.
//!
//! Source classes (DESIGN.md section 4, C04):
//!  * S1 (strong check): values that are consistent by construction — (a) every top-level writable table read
//!    unmutated from every corpus font, (b) hand generators (a proptest-generated "tape" of u32 words drives a builder
//!    per table kind; count fields are always derived from the arrays, nullable offsets are generated both ways).
//!    Oracle: B = dump_table(V0); V1 = read(B); V1 == V0 (debug-tree comparison on `!=`, with the implied-length-array
//!    allowance); dump_table(V1) == B.
//!  * S2 (parse-first idempotence): corpus tables under field sweep + havoc mutations, V0 = read(mutated) kept if it
//!    validates; V1 = read(dump(V0)); V2 = read(dump(V1)) must equal V1 and dump(V2) == dump(V1).
use proptest::prelude::*;
use read_fonts::types::{
    F2Dot14, FWord, Fixed, GlyphId16, LongDateTime, MajorMinor, NameId, Tag, UfWord, Uint24, Version16Dot16,
};
use read_fonts::{FontData, FontRead, FontRef, ReadError, TableProvider};
use serde::{Deserialize, Serialize};
use serde_json::json;
use std::collections::BTreeMap;
use std::fmt::Debug;
use vcore::mutate::{CorpusIndex, MutCase};
use vcore::*;
use write_fonts::from_obj::ToOwnedTable;
use write_fonts::tables as wt;
use write_fonts::validate::Validate;
use write_fonts::{dump_table, FontWrite, NullableOffsetMarker, OffsetMarker};

// =================================================================================================
// generic debug-tree (parsed from `{:?}` output) and its comparator

#[derive(Clone, Debug, PartialEq)]
enum Node {
    Leaf(String),
    /// `Name { a: x, b: y }` (also anonymous maps `{k: v}`; then name is empty and the keys are rendered)
    Struct(String, Vec<(String, Node)>),
    /// `Name(x, y)` or `(x, y)`
    Tuple(String, Vec<Node>),
    List(Vec<Node>),
}

struct P<'a> {
    s: &'a [u8],
    i: usize,
}

impl<'a> P<'a> {
    fn ws(&mut self) {
        while self.i < self.s.len() && (self.s[self.i] as char).is_whitespace() {
            self.i += 1;
        }
    }
    fn peek(&mut self) -> Option<u8> {
        self.ws();
        self.s.get(self.i).copied()
    }
    fn skip_string(&mut self, quote: u8) {
        // at opening quote
        self.i += 1;
        while self.i < self.s.len() {
            let c = self.s[self.i];
            if c == b'\\' {
                self.i += 2;
                continue;
            }
            self.i += 1;
            if c == quote {
                break;
            }
        }
    }
    fn is_delim(c: u8) -> bool {
        matches!(c, b',' | b':' | b'(' | b')' | b'{' | b'}' | b'[' | b']')
    }
    fn word(&mut self) -> String {
        self.ws();
        let st = self.i;
        while self.i < self.s.len() {
            let c = self.s[self.i];
            if Self::is_delim(c) || (c as char).is_whitespace() || c == b'"' {
                break;
            }
            // a char literal such as 'a' or '\''
            if c == b'\'' && self.i == st {
                self.skip_string(b'\'');
                break;
            }
            self.i += 1;
        }
        String::from_utf8_lossy(&self.s[st..self.i]).to_string()
    }
    /// consume raw text up to the next `,` or closing delimiter at depth 0
    fn raw_to_end(&mut self, st: usize) -> Node {
        let mut depth = 0i32;
        while self.i < self.s.len() {
            let c = self.s[self.i];
            match c {
                b'"' => {
                    self.skip_string(b'"');
                    continue;
                }
                b'(' | b'[' | b'{' => depth += 1,
                b')' | b']' | b'}' => {
                    if depth == 0 {
                        break;
                    }
                    depth -= 1;
                }
                b',' if depth == 0 => break,
                _ => {}
            }
            self.i += 1;
        }
        Node::Leaf(String::from_utf8_lossy(&self.s[st..self.i]).trim().to_string())
    }
    fn list(&mut self, close: u8) -> Vec<Node> {
        // after the opening delimiter
        let mut out = vec![];
        loop {
            match self.peek() {
                None => break,
                Some(c) if c == close => {
                    self.i += 1;
                    break;
                }
                Some(b',') => {
                    self.i += 1;
                }
                Some(_) => {
                    let before = self.i;
                    out.push(self.value());
                    if self.i == before {
                        self.i += 1; // never loop without progress
                    }
                }
            }
        }
        out
    }
    fn fields(&mut self) -> Vec<(String, Node)> {
        // after `{`
        let mut out = vec![];
        loop {
            match self.peek() {
                None => break,
                Some(b'}') => {
                    self.i += 1;
                    break;
                }
                Some(b',') => {
                    self.i += 1;
                }
                Some(_) => {
                    let before = self.i;
                    let k = self.value();
                    if self.peek() == Some(b':') {
                        self.i += 1;
                        let v = self.value();
                        let key = match k {
                            Node::Leaf(s) => s,
                            other => format!("{other:?}"),
                        };
                        out.push((key, v));
                    } else {
                        // set element or `..`
                        out.push((String::new(), k));
                    }
                    if self.i == before {
                        self.i += 1;
                    }
                }
            }
        }
        out
    }
    fn value(&mut self) -> Node {
        self.ws();
        let st = self.i;
        let node = match self.peek() {
            None => return Node::Leaf(String::new()),
            Some(b'[') => {
                self.i += 1;
                Node::List(self.list(b']'))
            }
            Some(b'(') => {
                self.i += 1;
                Node::Tuple(String::new(), self.list(b')'))
            }
            Some(b'{') => {
                self.i += 1;
                Node::Struct(String::new(), self.fields())
            }
            Some(b'"') => {
                self.skip_string(b'"');
                Node::Leaf(String::from_utf8_lossy(&self.s[st..self.i]).to_string())
            }
            Some(_) => {
                let w = self.word();
                if w.is_empty() {
                    return self.raw_to_end(st);
                }
                // `Name {` / `Name(` (Debug puts a space before `{`, none before `(`)
                let save = self.i;
                match self.peek() {
                    Some(b'{') => {
                        self.i += 1;
                        Node::Struct(w, self.fields())
                    }
                    Some(b'(') if save == self.i => {
                        self.i += 1;
                        Node::Tuple(w, self.list(b')'))
                    }
                    _ => {
                        self.i = save;
                        Node::Leaf(w)
                    }
                }
            }
        };
        // anything else before the next separator (e.g. `A | B`, `1..=2`) makes the whole thing a raw leaf
        let save = self.i;
        match self.peek() {
            None | Some(b',') | Some(b')') | Some(b']') | Some(b'}') | Some(b':') => {
                self.i = save;
                node
            }
            Some(_) => self.raw_to_end(st),
        }
    }
}

fn parse_debug(s: &str) -> Node {
    let mut p = P { s: s.as_bytes(), i: 0 };
    p.value()
}

fn tree_of<T: Debug>(v: &T) -> Node {
    parse_debug(&format!("{v:?}"))
}

/// Arrays whose length is implied by the end of the data (`#[count(..)]` in resources/codegen_inputs), by
/// (owned struct name, field): after re-reading they may be longer, the written array must be a prefix.
const IMPLIED_LEN: &[(&str, &str)] =
    &[("Cmap4", "glyph_id_array"), ("Cmap10", "glyph_id_array"), ("GlyphData", "data")];

/// Arrays with a fixed element count in the schema (`#[count(256)]` ...). A value whose array has another length is
/// inconsistent (it only arises when an unreadable subtable is replaced by `Default::default()` during conversion);
/// DESIGN C04-L puts "counts that disagree with arrays" outside the domain. Such a field is not compared (everything
/// else still is); if nothing else differs the case is counted as `inconsistent_fixed_count`, without the byte check.
const FIXED_LEN: &[(&str, &str, usize)] = &[("Cmap0", "glyph_id_array", 256), ("Cmap2", "sub_header_keys", 256), ("Cmap8", "is32", 8192)];

#[derive(Debug)]
struct Diff {
    path: Vec<String>,
    detail: String,
}

struct Cmp {
    implied_used: u32,
    inconsistent: u32,
}

fn short(n: &Node) -> String {
    let s = match n {
        Node::Leaf(s) => s.clone(),
        Node::Struct(name, f) => format!("{name} {{{} fields}}", f.len()),
        Node::Tuple(name, f) => format!("{name}({} items)", f.len()),
        Node::List(l) => format!("[{} items]", l.len()),
    };
    s.chars().take(120).collect()
}

impl Cmp {
    fn cmp_list(&mut self, a: &[Node], b: &[Node], path: &mut Vec<String>, prefix_ok: bool) -> Option<Diff> {
        if a.len() != b.len() && !(prefix_ok && b.len() > a.len()) {
            return Some(Diff { path: path.clone(), detail: format!("length {} written, {} read back", a.len(), b.len()) });
        }
        if prefix_ok && b.len() > a.len() {
            self.implied_used += 1;
        }
        for (i, (x, y)) in a.iter().zip(b.iter()).enumerate() {
            path.push(format!("[{i}]"));
            let d = self.cmp(x, y, path);
            path.pop();
            if d.is_some() {
                return d;
            }
        }
        None
    }
    fn cmp(&mut self, a: &Node, b: &Node, path: &mut Vec<String>) -> Option<Diff> {
        match (a, b) {
            (Node::Leaf(x), Node::Leaf(y)) => (x != y).then(|| Diff { path: path.clone(), detail: format!("written {x}, read back {y}") }),
            (Node::List(x), Node::List(y)) => self.cmp_list(x, y, path, false),
            (Node::Tuple(nx, x), Node::Tuple(ny, y)) => {
                if nx != ny {
                    return Some(Diff { path: path.clone(), detail: format!("written {}, read back {}", short(a), short(b)) });
                }
                let named = !nx.is_empty() && nx != "Some" && nx != "Ok";
                if named {
                    path.push(nx.clone());
                }
                let d = self.cmp_list(x, y, path, false);
                if named {
                    path.pop();
                }
                d
            }
            (Node::Struct(nx, x), Node::Struct(ny, y)) => {
                if nx != ny {
                    return Some(Diff { path: path.clone(), detail: format!("written {}, read back {}", short(a), short(b)) });
                }
                let mut j = 0;
                for (k, va) in x {
                    // fields keep their order; a field missing on one side is a difference at that field
                    let Some((kb, vb)) = y.get(j) else {
                        path.push(k.clone());
                        let d = Diff { path: path.clone(), detail: format!("field {k} written, absent after reading back") };
                        path.pop();
                        return Some(d);
                    };
                    if kb != k {
                        let present_later = y[j..].iter().any(|(k2, _)| k2 == k);
                        let (name, what) = if present_later { (kb.clone(), "absent when written, present after reading back") } else { (k.clone(), "written, absent after reading back") };
                        path.push(name.clone());
                        let d = Diff { path: path.clone(), detail: format!("field {name} {what}") };
                        path.pop();
                        return Some(d);
                    }
                    j += 1;
                    let skip_name = k == "obj" && (nx == "OffsetMarker" || nx == "NullableOffsetMarker");
                    if !skip_name {
                        path.push(k.clone());
                    }
                    let implied = IMPLIED_LEN.iter().any(|(s, f)| s == nx && f == k);
                    let fixed = FIXED_LEN.iter().find(|(s, f, _)| s == nx && f == k).map(|x| x.2);
                    let d = match (va, vb) {
                        (Node::List(la), Node::List(_)) if fixed.map(|n| la.len() != n).unwrap_or(false) => {
                            self.inconsistent += 1;
                            None
                        }
                        (Node::List(la), Node::List(lb)) if implied => self.cmp_list(la, lb, path, true),
                        _ => self.cmp(va, vb, path),
                    };
                    if !skip_name {
                        path.pop();
                    }
                    if d.is_some() {
                        return d;
                    }
                }
                if j < y.len() {
                    let k = y[j].0.clone();
                    path.push(k.clone());
                    let d = Diff { path: path.clone(), detail: format!("field {k} absent when written, present after reading back") };
                    path.pop();
                    return Some(d);
                }
                None
            }
            _ => Some(Diff { path: path.clone(), detail: format!("written {}, read back {}", short(a), short(b)) }),
        }
    }
}

/// signature component: field path without list indices
fn path_sig(path: &[String]) -> String {
    let v: Vec<&str> = path.iter().filter(|p| !p.starts_with('[')).map(|s| s.as_str()).collect();
    if v.is_empty() {
        "<root>".to_string()
    } else {
        v.join(".")
    }
}

enum Equiv {
    Equal,
    /// `!=` but no difference in the debug tree
    EqOnly,
    /// equal up to implied-length arrays (written array is a prefix)
    ImpliedPrefix,
    /// the written value has a fixed-count array of another length: outside the domain
    Inconsistent,
    Differ(Diff),
}

fn equiv<T: PartialEq + Debug>(written: &T, read_back: &T) -> Equiv {
    if written == read_back {
        return Equiv::Equal;
    }
    let (a, b) = (tree_of(written), tree_of(read_back));
    let mut c = Cmp { implied_used: 0, inconsistent: 0 };
    match c.cmp(&a, &b, &mut vec![]) {
        Some(d) => Equiv::Differ(d),
        // only the inconsistent field(s) were skipped, everything else agrees
        None if c.inconsistent > 0 => Equiv::Inconsistent,
        None if c.implied_used > 0 => Equiv::ImpliedPrefix,
        None => Equiv::EqOnly,
    }
}

// =================================================================================================
// the round-trip trait

/// shape of a GSUB/GPOS lookup list: per lookup (kind name, inner kind names of extension subtables, #subtables)
type LookupShape = Vec<(String, Vec<String>, usize)>;

trait Rt: FontWrite + Validate + PartialEq + Debug + Sized {
    /// read a compiled value of this type back; read arguments (if any) are derived from the value that was written
    fn reread(&self, data: &[u8]) -> Result<Self, ReadError>;
    fn lookup_shape(&self) -> Option<LookupShape> {
        None
    }
}

macro_rules! rt_plain {
    ($($t:ty),* $(,)?) => { $( impl Rt for $t {
        fn reread(&self, data: &[u8]) -> Result<Self, ReadError> { <$t as FontRead>::read(FontData::new(data)) }
    } )* };
}

rt_plain!(
    wt::glyf::SimpleGlyph,
    wt::avar::Avar,
    wt::base::Base,
    wt::cmap::Cmap,
    wt::colr::Colr,
    wt::cpal::Cpal,
    wt::fvar::Fvar,
    wt::gasp::Gasp,
    wt::gdef::Gdef,
    wt::head::Head,
    wt::hhea::Hhea,
    wt::maxp::Maxp,
    wt::meta::Meta,
    wt::mvar::Mvar,
    wt::name::Name,
    wt::os2::Os2,
    wt::post::Post,
    wt::stat::Stat,
    wt::vhea::Vhea,
    wt::hvar::Hvar,
    wt::vvar::Vvar,
    wt::layout::CoverageTable,
    wt::layout::ClassDef,
    wt::layout::Device,
    wt::layout::FeatureVariations,
    wt::variations::DeltaSetIndexMap,
    wt::variations::ItemVariationStore,
    wt::gsub::SubstitutionLookup,
    wt::gpos::PositionLookup,
    wt::sbix::GlyphData,
);

fn variant_name<T: Debug>(v: &T) -> String {
    // cheap: Debug of an enum starts with the variant name; avoid rendering the payload
    struct Capture(String);
    impl std::fmt::Write for Capture {
        fn write_str(&mut self, s: &str) -> std::fmt::Result {
            for c in s.chars() {
                if c.is_alphanumeric() || c == '_' {
                    self.0.push(c);
                } else {
                    return Err(std::fmt::Error);
                }
            }
            Ok(())
        }
    }
    let mut c = Capture(String::new());
    let _ = std::fmt::write(&mut c, format_args!("{v:?}"));
    c.0
}

fn gpos_lookup_shape(l: &wt::gpos::PositionLookup) -> (String, Vec<String>, usize) {
    use wt::gpos::PositionLookup as L;
    let n = match l {
        L::Single(x) => x.subtables.len(),
        L::Pair(x) => x.subtables.len(),
        L::Cursive(x) => x.subtables.len(),
        L::MarkToBase(x) => x.subtables.len(),
        L::MarkToLig(x) => x.subtables.len(),
        L::MarkToMark(x) => x.subtables.len(),
        L::Contextual(x) => x.subtables.len(),
        L::ChainContextual(x) => x.subtables.len(),
        L::Extension(x) => x.subtables.len(),
    };
    let inner = match l {
        L::Extension(x) => x.subtables.iter().map(|s| variant_name(&**s)).collect(),
        _ => vec![],
    };
    (variant_name(l), inner, n)
}
fn gsub_lookup_shape(l: &wt::gsub::SubstitutionLookup) -> (String, Vec<String>, usize) {
    use wt::gsub::SubstitutionLookup as L;
    let n = match l {
        L::Single(x) => x.subtables.len(),
        L::Multiple(x) => x.subtables.len(),
        L::Alternate(x) => x.subtables.len(),
        L::Ligature(x) => x.subtables.len(),
        L::Contextual(x) => x.subtables.len(),
        L::ChainContextual(x) => x.subtables.len(),
        L::Extension(x) => x.subtables.len(),
        L::Reverse(x) => x.subtables.len(),
    };
    let inner = match l {
        L::Extension(x) => x.subtables.iter().map(|s| variant_name(&**s)).collect(),
        _ => vec![],
    };
    (variant_name(l), inner, n)
}

impl Rt for wt::gpos::Gpos {
    fn reread(&self, data: &[u8]) -> Result<Self, ReadError> {
        <Self as FontRead>::read(FontData::new(data))
    }
    fn lookup_shape(&self) -> Option<LookupShape> {
        Some(self.lookup_list.lookups.iter().map(|l| gpos_lookup_shape(l)).collect())
    }
}
impl Rt for wt::gsub::Gsub {
    fn reread(&self, data: &[u8]) -> Result<Self, ReadError> {
        <Self as FontRead>::read(FontData::new(data))
    }
    fn lookup_shape(&self) -> Option<LookupShape> {
        Some(self.lookup_list.lookups.iter().map(|l| gsub_lookup_shape(l)).collect())
    }
}
impl Rt for wt::hmtx::Hmtx {
    fn reread(&self, data: &[u8]) -> Result<Self, ReadError> {
        let nh = self.h_metrics.len();
        let ng = nh + self.left_side_bearings.len();
        read_fonts::tables::hmtx::Hmtx::read(FontData::new(data), nh as u16, ng as u16).map(|t| t.to_owned_table())
    }
}
impl Rt for wt::vmtx::Vmtx {
    fn reread(&self, data: &[u8]) -> Result<Self, ReadError> {
        let nh = self.v_metrics.len();
        let ng = nh + self.top_side_bearings.len();
        read_fonts::tables::vmtx::Vmtx::read(FontData::new(data), nh as u16, ng as u16).map(|t| t.to_owned_table())
    }
}
impl Rt for wt::sbix::Sbix {
    fn reread(&self, data: &[u8]) -> Result<Self, ReadError> {
        let ng = self.strikes.first().map(|s| s.glyph_data_offsets.len().saturating_sub(1)).unwrap_or(0);
        read_fonts::tables::sbix::Sbix::read(FontData::new(data), ng as u16).map(|t| t.to_owned_table())
    }
}

/// Was the lookup list legitimately repacked by compilation (extension promotion / subtable splitting)?
/// Only those two transformations count: lookup i became `Extension` wrapping only its former kind, and/or gained subtables.
fn repacked(before: &LookupShape, after: &LookupShape) -> bool {
    if before == after || before.len() != after.len() {
        return false;
    }
    for (b, a) in before.iter().zip(after.iter()) {
        if b == a {
            continue;
        }
        let promoted = b.0 != "Extension" && a.0 == "Extension" && a.1.iter().all(|k| *k == b.0);
        let same_kind = b.0 == a.0 && b.1 == a.1[..b.1.len().min(a.1.len())];
        let grew = a.2 > b.2 && (b.0 == "Pair" || b.0 == "MarkToBase" || (b.0 == "Extension" && b.1.iter().all(|k| k == "Pair" || k == "MarkToBase")));
        let ok = (promoted && a.2 >= b.2) || (same_kind && grew);
        if !ok {
            return false;
        }
    }
    true
}

// =================================================================================================
// oracles

static SAMPLES_CORPUS: std::sync::atomic::AtomicU32 = std::sync::atomic::AtomicU32::new(0);
static SAMPLES_GEN: std::sync::atomic::AtomicU32 = std::sync::atomic::AtomicU32::new(0);
static SAMPLES_MUT: std::sync::atomic::AtomicU32 = std::sync::atomic::AtomicU32::new(0);
/// at most `max` evidence samples per stage kind (the engine keeps 8 in total)
fn take_sample(counter: &std::sync::atomic::AtomicU32, max: u32) -> bool {
    counter.fetch_add(1, std::sync::atomic::Ordering::Relaxed) < max
}

fn fail(sig: String, msg: String) -> Fail {
    Fail::new(sig, msg)
}

fn panic_site(f: &Fail) -> String {
    // "panic|file|line text|msg" -> "file|line text"
    let mut it = f.sig.split('|');
    let _ = it.next();
    format!("{}|{}", it.next().unwrap_or(""), it.next().unwrap_or(""))
}

#[derive(Default)]
struct Outcome {
    /// compiled bytes (None if the value was skipped: invalid, compile error, repacked)
    bytes: Option<Vec<u8>>,
}

/// S1: the strong check on a value that is consistent by construction.
fn check_s1<T: Rt>(kind: &str, v0: &T, stats: &Stats) -> Result<Outcome, Fail> {
    if let Err(e) = v0.validate() {
        stats.class(&format!("s1:{kind}:invalid"));
        if std::env::var("C04_SHOW_INVALID").is_ok() {
            eprintln!("invalid {kind}: {}", format!("{e:?}").chars().take(400).collect::<String>());
        }
        return Ok(Outcome::default());
    }
    let b = match guarded(|| dump_table(v0)) {
        Err(p) => return Err(fail(format!("c04|dump-panic|{kind}|{}", panic_site(&p)), format!("dump_table panicked on a valid {kind}: {}", p.msg))),
        Ok(Err(e)) => {
            stats.class(&format!("s1:{kind}:dump_err"));
            let _ = e;
            return Ok(Outcome::default());
        }
        Ok(Ok(b)) => b,
    };
    let v1 = match guarded(|| v0.reread(&b)) {
        Err(p) => return Err(fail(format!("c04|reread-panic|{kind}|{}", panic_site(&p)), format!("reading the compiled {kind} panicked: {}", p.msg))),
        Ok(Err(e)) => return Err(fail(format!("c04|reread-err|{kind}"), format!("compiled {kind} ({} bytes) does not read back: {e}", b.len()))),
        Ok(Ok(v)) => v,
    };
    if let (Some(s0), Some(s1)) = (v0.lookup_shape(), v1.lookup_shape()) {
        if repacked(&s0, &s1) {
            stats.class("repacked");
            return Ok(Outcome::default());
        }
    }
    let mut implied = false;
    match equiv(v0, &v1) {
        Equiv::Equal => {}
        Equiv::EqOnly => stats.class("eq_only_diffs"),
        Equiv::ImpliedPrefix => {
            stats.class("implied_len_prefix");
            implied = true;
        }
        Equiv::Inconsistent => {
            stats.class("inconsistent_fixed_count");
            return Ok(Outcome::default());
        }
        Equiv::Differ(d) => {
            return Err(fail(format!("c04|roundtrip|{kind}|{}", path_sig(&d.path)), format!("{kind}: at {}: {}", d.path.join("."), d.detail)));
        }
    }
    if !implied {
        let b2 = match guarded(|| dump_table(&v1)) {
            Err(p) => return Err(fail(format!("c04|redump-panic|{kind}|{}", panic_site(&p)), format!("dump_table panicked on the re-read {kind}: {}", p.msg))),
            Ok(Err(e)) => return Err(fail(format!("c04|redump-err|{kind}"), format!("re-read {kind} does not compile: {e}"))),
            Ok(Ok(b)) => b,
        };
        if b2 != b {
            let at = b.iter().zip(b2.iter()).position(|(x, y)| x != y).unwrap_or(b.len().min(b2.len()));
            return Err(fail(format!("c04|redump-bytes|{kind}"), format!("{kind}: recompiling the re-read value gives different bytes ({} vs {} bytes, first difference at {at})", b.len(), b2.len())));
        }
    }
    Ok(Outcome { bytes: Some(b) })
}

/// S2: parse-first idempotence. `v0` was parsed from (mutated) bytes.
fn check_s2<T: Rt>(kind: &str, v0: &T, stats: &Stats) -> Result<Outcome, Fail> {
    if v0.validate().is_err() {
        stats.class("s2:invalid");
        return Ok(Outcome::default());
    }
    stats.class("s2:valid");
    let b1 = match guarded(|| dump_table(v0)) {
        Err(_) => {
            stats.class("s2:compile_panics");
            return Ok(Outcome::default());
        }
        Ok(Err(_)) => {
            stats.class("s2:compile_err");
            return Ok(Outcome::default());
        }
        Ok(Ok(b)) => b,
    };
    let v1 = match guarded(|| v0.reread(&b1)) {
        Ok(Ok(v)) => v,
        _ => {
            // V0 is not known to be consistent: nothing is demanded of its first normalisation
            stats.class("s2:v1_unreadable");
            return Ok(Outcome::default());
        }
    };
    if v1.validate().is_err() {
        stats.class("s2:v1_invalid");
        return Ok(Outcome::default());
    }
    if &v1 == v0 {
        stats.class("s2:v1_eq_v0");
    } else {
        stats.class("s2:v1_ne_v0");
    }
    let b2 = match guarded(|| dump_table(&v1)) {
        Err(_) => {
            stats.class("s2:compile_panics");
            return Ok(Outcome::default());
        }
        Ok(Err(_)) => {
            stats.class("s2:compile_err");
            return Ok(Outcome::default());
        }
        Ok(Ok(b)) => b,
    };
    let v2 = match guarded(|| v1.reread(&b2)) {
        Err(p) => return Err(fail(format!("c04|idempotence-reread-panic|{kind}|{}", panic_site(&p)), format!("reading the recompiled {kind} panicked: {}", p.msg))),
        Ok(Err(e)) => return Err(fail(format!("c04|idempotence-reread-err|{kind}"), format!("{kind} parsed from compiled bytes compiles to bytes that do not read back: {e}"))),
        Ok(Ok(v)) => v,
    };
    if let (Some(s1), Some(s2)) = (v1.lookup_shape(), v2.lookup_shape()) {
        if repacked(&s1, &s2) {
            stats.class("repacked");
            return Ok(Outcome::default());
        }
    }
    let mut implied = false;
    match equiv(&v1, &v2) {
        Equiv::Equal => {}
        Equiv::EqOnly => stats.class("eq_only_diffs"),
        Equiv::ImpliedPrefix => {
            stats.class("implied_len_prefix");
            implied = true;
        }
        Equiv::Inconsistent => {
            stats.class("inconsistent_fixed_count");
            return Ok(Outcome::default());
        }
        Equiv::Differ(d) => {
            return Err(fail(format!("c04|idempotence|{kind}|{}", path_sig(&d.path)), format!("{kind}: read(dump(V1)) differs from V1 at {}: {}", d.path.join("."), d.detail)));
        }
    }
    if !implied {
        match guarded(|| dump_table(&v2)) {
            Ok(Ok(b3)) if b3 == b2 => {}
            Ok(Ok(b3)) => {
                return Err(fail(format!("c04|idempotence-bytes|{kind}"), format!("{kind}: dump(V2) differs from dump(V1) ({} vs {} bytes)", b3.len(), b2.len())));
            }
            Ok(Err(e)) => return Err(fail(format!("c04|idempotence-redump-err|{kind}"), format!("{kind}: V2 does not compile: {e}"))),
            Err(p) => return Err(fail(format!("c04|idempotence-redump-panic|{kind}|{}", panic_site(&p)), format!("dump_table(V2) panicked: {}", p.msg))),
        }
    }
    Ok(Outcome { bytes: Some(b1) })
}

/// number of offset-reached subtables in a value (from its compact debug rendering)
fn offsets_reached<T: Debug>(v: &T) -> usize {
    let s = format!("{v:?}");
    let all = s.matches("OffsetMarker { obj: ").count();
    let null = s.matches("OffsetMarker { obj: None").count();
    all - null
}

// =================================================================================================
// top-level tables by tag

#[derive(Clone, Copy, Debug, Default)]
struct TopArgs {
    num_glyphs: u16,
    num_h_metrics: u16,
    num_v_metrics: u16,
}

const TOP_TAGS: &[&str] = &[
    "avar", "BASE", "cmap", "COLR", "CPAL", "fvar", "gasp", "GDEF", "GPOS", "GSUB", "head", "hhea", "maxp", "meta", "MVAR", "name", "OS/2",
    "post", "STAT", "vhea", "HVAR", "VVAR", "hmtx", "vmtx", "sbix",
];

#[derive(Clone, Copy, PartialEq)]
enum Mode {
    S1,
    S2,
}

fn run_top<T: Rt>(tag: &str, first: Result<Result<T, ReadError>, Fail>, mode: Mode, want_nt: bool, stats: &Stats) -> Result<(Outcome, usize), Fail> {
    let v0 = match first {
        Ok(Ok(v)) => v,
        Ok(Err(_)) => {
            stats.class(if mode == Mode::S1 { "s1:corpus_unreadable" } else { "s2:unreadable" });
            return Ok((Outcome::default(), 0));
        }
        Err(_) => {
            // a panic while parsing is C01's business
            stats.class(if mode == Mode::S1 { "s1:corpus_read_panic" } else { "s2:read_panic" });
            return Ok((Outcome::default(), 0));
        }
    };
    let out = match mode {
        Mode::S1 => check_s1(tag, &v0, stats)?,
        Mode::S2 => check_s2(tag, &v0, stats)?,
    };
    let offs = if want_nt && out.bytes.is_some() { offsets_reached(&v0) } else { 0 };
    Ok((out, offs))
}

// harness budget (DESIGN 2.4): a mutated table in which thousands of offsets share one large subtable converts to an
// owned value of gigabytes. Before converting, the parsed table is walked through the generic traversal API with a
// node budget; tables over budget are counted (`s2:over_budget`) and skipped.
const WALK_BUDGET: i64 = 150_000;

fn walk_field<'a>(ft: read_fonts::traversal::FieldType<'a>, budget: &mut i64, depth: u32) {
    use read_fonts::traversal::{FieldType as F, SomeTable};
    *budget -= 1;
    if *budget < 0 || depth > 64 {
        *budget = -1;
        return;
    }
    match ft {
        F::ResolvedOffset(r) => {
            if let Ok(t) = r.target {
                walk_table(&*t, budget, depth + 1);
            }
        }
        F::ArrayOffset(a) => {
            if let Ok(arr) = a.target {
                walk_array(&*arr, budget, depth + 1);
            }
        }
        F::Record(r) => walk_table(&r as &dyn SomeTable<'a>, budget, depth + 1),
        F::Array(arr) => walk_array(&*arr, budget, depth + 1),
        _ => {}
    }
}
fn walk_array<'a>(arr: &(dyn read_fonts::traversal::SomeArray<'a> + 'a), budget: &mut i64, depth: u32) {
    let n = arr.len();
    for i in 0..n {
        let Some(ft) = arr.get(i) else { break };
        use read_fonts::traversal::FieldType as F;
        if !matches!(ft, F::ResolvedOffset(_) | F::ArrayOffset(_) | F::Record(_) | F::Array(_)) {
            // scalars: charge the whole array at once
            *budget -= (n / 4) as i64;
            return;
        }
        walk_field(ft, budget, depth);
        if *budget < 0 {
            return;
        }
    }
}
fn walk_table<'a>(t: &(dyn read_fonts::traversal::SomeTable<'a> + 'a), budget: &mut i64, depth: u32) {
    let mut i = 0;
    while let Some(f) = t.get_field(i) {
        i += 1;
        walk_field(f.value, budget, depth);
        if *budget < 0 {
            return;
        }
    }
}
/// true if the parsed table stays within the traversal budget (or does not parse / panics: the caller finds out)
fn within_budget<'a, R: FontRead<'a> + read_fonts::traversal::SomeTable<'a> + 'a>(data: &'a [u8]) -> bool {
    guarded(|| {
        let Ok(t) = R::read(FontData::new(data)) else { return true };
        let mut budget = WALK_BUDGET;
        walk_table(&t as &dyn read_fonts::traversal::SomeTable<'a>, &mut budget, 0);
        budget >= 0
    })
    .unwrap_or(false)
}

fn plain<T: for<'a> FontRead<'a>>(data: &[u8]) -> Result<Result<T, ReadError>, Fail> {
    guarded(|| T::read(FontData::new(data)))
}

fn dispatch_top(tag: &str, data: &[u8], args: TopArgs, mode: Mode, want_nt: bool, stats: &Stats) -> Result<(Outcome, usize), Fail> {
    use read_fonts::tables as rt;
    macro_rules! p {
        ($t:ty, $r:ty) => {{
            if mode == Mode::S2 && !within_budget::<$r>(data) {
                stats.class("s2:over_budget");
                return Ok((Outcome::default(), 0));
            }
            run_top::<$t>(tag, plain::<$t>(data), mode, want_nt, stats)
        }};
    }
    match tag {
        "avar" => p!(wt::avar::Avar, rt::avar::Avar),
        "BASE" => p!(wt::base::Base, rt::base::Base),
        "cmap" => p!(wt::cmap::Cmap, rt::cmap::Cmap),
        "COLR" => p!(wt::colr::Colr, rt::colr::Colr),
        "CPAL" => p!(wt::cpal::Cpal, rt::cpal::Cpal),
        "fvar" => p!(wt::fvar::Fvar, rt::fvar::Fvar),
        "gasp" => p!(wt::gasp::Gasp, rt::gasp::Gasp),
        "GDEF" => p!(wt::gdef::Gdef, rt::gdef::Gdef),
        "GPOS" => p!(wt::gpos::Gpos, rt::gpos::Gpos),
        "GSUB" => p!(wt::gsub::Gsub, rt::gsub::Gsub),
        "head" => p!(wt::head::Head, rt::head::Head),
        "hhea" => p!(wt::hhea::Hhea, rt::hhea::Hhea),
        "maxp" => p!(wt::maxp::Maxp, rt::maxp::Maxp),
        "meta" => p!(wt::meta::Meta, rt::meta::Meta),
        "MVAR" => p!(wt::mvar::Mvar, rt::mvar::Mvar),
        "name" => p!(wt::name::Name, rt::name::Name),
        "OS/2" => p!(wt::os2::Os2, rt::os2::Os2),
        "post" => p!(wt::post::Post, rt::post::Post),
        "STAT" => p!(wt::stat::Stat, rt::stat::Stat),
        "vhea" => p!(wt::vhea::Vhea, rt::vhea::Vhea),
        "HVAR" => p!(wt::hvar::Hvar, rt::hvar::Hvar),
        "VVAR" => p!(wt::vvar::Vvar, rt::vvar::Vvar),
        "hmtx" => run_top::<wt::hmtx::Hmtx>(
            tag,
            guarded(|| rt::hmtx::Hmtx::read(FontData::new(data), args.num_h_metrics, args.num_glyphs).map(|t| t.to_owned_table())),
            mode,
            want_nt,
            stats,
        ),
        "vmtx" => run_top::<wt::vmtx::Vmtx>(
            tag,
            guarded(|| rt::vmtx::Vmtx::read(FontData::new(data), args.num_v_metrics, args.num_glyphs).map(|t| t.to_owned_table())),
            mode,
            want_nt,
            stats,
        ),
        "sbix" => run_top::<wt::sbix::Sbix>(tag, guarded(|| rt::sbix::Sbix::read(FontData::new(data), args.num_glyphs).map(|t| t.to_owned_table())), mode, want_nt, stats),
        _ => Ok((Outcome::default(), 0)),
    }
}

// =================================================================================================
// corpus

struct Corpus {
    index: CorpusIndex,
    args: BTreeMap<String, TopArgs>,
}

fn build_corpus() -> Corpus {
    let fonts = vcore::corpus::all_fonts();
    let mut index = CorpusIndex::new(&fonts);
    let mut args = BTreeMap::new();
    for f in &mut index.fonts {
        let mut a = TopArgs::default();
        if let Ok(font) = FontRef::new(&f.data) {
            a.num_glyphs = font.maxp().map(|m| m.num_glyphs()).unwrap_or(0);
            a.num_h_metrics = font.hhea().map(|m| m.number_of_h_metrics()).unwrap_or(0);
            a.num_v_metrics = font.vhea().map(|m| m.number_of_long_ver_metrics()).unwrap_or(0);
        }
        args.insert(f.name.clone(), a);
        // only writable top-level tables are mutation/round-trip targets
        f.tables.retain(|(t, _)| TOP_TAGS.contains(&mutate::tag_str(t).as_str()));
    }
    index.fonts.retain(|f| !f.tables.is_empty());
    Corpus { index, args }
}

#[derive(Clone, Debug, Serialize, Deserialize)]
struct CorpusCase {
    font: String,
    table: String,
}

/// Subjects of two repaired defects (fix commits a1b6484 avar v2 / VarLenArray byte range, 6388a31 CPAL version): the
/// normal stages check them like everything else; the `regress-corpus` stage re-checks exactly these corpus tables.
fn regression_subject(tag: &str, data: &[u8]) -> bool {
    match tag {
        // avar version 2 (the read-side `axis_segment_maps` getter used to run past the array)
        "avar" => data.len() >= 2 && u16::from_be_bytes([data[0], data[1]]) >= 2,
        // CPAL version 1 with any v1 array present (the writer used to emit version 0 and drop them)
        "CPAL" => {
            if data.len() >= 2 && u16::from_be_bytes([data[0], data[1]]) >= 1 {
                let np = if data.len() >= 6 { u16::from_be_bytes([data[4], data[5]]) as usize } else { 0 };
                let at = 12 + 2 * np;
                data.get(at..at + 12).map(|o| o.iter().any(|b| *b != 0)).unwrap_or(false)
            } else {
                false
            }
        }
        _ => false,
    }
}

fn test_corpus(cx: &Corpus, c: &CorpusCase, stats: &Stats, regression_only: bool) -> CaseResult {
    let Some(f) = cx.index.font(&c.font) else { return Ok(()) };
    let tag = mutate::str_tag(&c.table);
    let Some((_, data)) = f.tables.iter().find(|t| t.0 == tag) else { return Ok(()) };
    if regression_only {
        if !regression_subject(&c.table, data) {
            return Ok(());
        }
        stats.class(&format!("regress:{}", c.table));
    }
    let args = cx.args.get(&c.font).copied().unwrap_or_default();
    let (out, offs) = dispatch_top(&c.table, data, args, Mode::S1, true, stats)?;
    stats.class(&format!("corpus:{}", c.table));
    if let Some(b) = out.bytes {
        stats.class("s1:corpus_ok");
        if offs > 0 {
            stats.nontrivial(fnv64(&b));
            if b.len() < 4000 && offs > 3 && take_sample(&SAMPLES_CORPUS, 3) {
                stats.sample(json!({"stage": "corpus", "font": c.font, "table": c.table, "compiled_len": b.len(), "offset_subtables": offs}));
            }
        }
    }
    Ok(())
}

// =================================================================================================
// S2: mutated corpus tables

fn test_mut(cx: &Corpus, c: &MutCase, stats: &Stats) -> CaseResult {
    let Some(f) = cx.index.font(&c.font) else { return Ok(()) };
    let tag = mutate::str_tag(&c.table);
    let Some((_, orig)) = f.tables.iter().find(|t| t.0 == tag) else { return Ok(()) };
    let mut data = orig.clone();
    cx.index.apply_edits(&mut data, &c.edits);
    if &data == orig {
        stats.class("s2:unchanged");
    }
    let args = cx.args.get(&c.font).copied().unwrap_or_default();
    let (out, _) = dispatch_top(&c.table, &data, args, Mode::S2, false, stats)?;
    if let Some(b) = out.bytes {
        stats.class(&format!("s2:ok:{}", c.table));
        stats.nontrivial(fnv64(&b));
        if c.edits.len() > 1 && take_sample(&SAMPLES_MUT, 2) {
            stats.sample(json!({"stage": "mutated", "font": c.font, "table": c.table, "edits": c.edits, "compiled_len": b.len()}));
        }
    }
    Ok(())
}

// =================================================================================================
// S1(b): hand generators. The case is the recipe: a table kind and a tape of u32 words that drives the builder.

#[derive(Clone, Debug, Serialize, Deserialize)]
struct GenCase {
    kind: String,
    tape: Vec<u32>,
}

struct Tape<'a> {
    w: &'a [u32],
    i: usize,
    /// variant label of what was built (class counter)
    label: String,
    /// a version/format discriminant other than the type's default was chosen
    nondefault: bool,
}

const STD_TAGS: &[&[u8; 4]] = &[b"wght", b"wdth", b"ital", b"opsz", b"slnt", b"DFLT", b"latn", b"kern", b"liga", b"hasc", b"xhgt", b"ab  ", b"Z~!#"];

impl<'a> Tape<'a> {
    fn new(w: &'a [u32]) -> Self {
        Tape { w, i: 0, label: String::new(), nondefault: false }
    }
    fn raw(&mut self) -> u32 {
        let v = self.w.get(self.i).copied().unwrap_or(0);
        self.i += 1;
        v
    }
    /// uniform in 0..n (monotone in the tape word: shrinks towards 0)
    fn below(&mut self, n: u32) -> u32 {
        ((self.raw() as u64 * n as u64) >> 32) as u32
    }
    fn bool(&mut self) -> bool {
        self.raw() >= 0x8000_0000
    }
    /// true with probability num/den (false when the tape word shrinks to 0)
    fn chance(&mut self, num: u32, den: u32) -> bool {
        self.below(den) >= den - num
    }
    /// boundary-biased 16-bit scalar
    fn u16(&mut self) -> u16 {
        let r = self.raw();
        match r >> 29 {
            0 => (r & 7) as u16,
            1 => 0xFFFF - (r & 3) as u16,
            2 => 0x7FFF + (r & 1) as u16,
            3 => 0x00FF + (r & 1) as u16,
            _ => r as u16,
        }
    }
    fn i16(&mut self) -> i16 {
        self.u16() as i16
    }
    fn u8(&mut self) -> u8 {
        let r = self.raw();
        match r >> 30 {
            0 => (r & 3) as u8,
            1 => 0xFF - (r & 1) as u8,
            _ => r as u8,
        }
    }
    fn u32(&mut self) -> u32 {
        let r = self.raw();
        match r >> 29 {
            0 => r & 7,
            1 => 0xFFFF_FFFF - (r & 3),
            2 => 0x7FFF_FFFF + (r & 1),
            3 => 0xFFFF + (r & 1),
            _ => r.wrapping_mul(0x9E37_79B9),
        }
    }
    fn u24(&mut self) -> Uint24 {
        Uint24::new(self.u32() & 0xFF_FFFF)
    }
    /// array length in 0..=max: 1/8 empty, 1/8 one, 1/4 2..=4, 1/2 uniform
    fn len(&mut self, max: usize) -> usize {
        let r = self.raw();
        let rest = (r & 0x1FFF_FFFF) as u64;
        let n = match r >> 29 {
            0 => 0,
            1 => 1,
            2 | 3 => 2 + (rest * 3 >> 29) as usize,
            _ => (rest * (max as u64 + 1) >> 29) as usize,
        };
        n.min(max)
    }
    /// like `len`, but one case in 24 is large (up to `big`)
    fn len_big(&mut self, max: usize, big: usize) -> usize {
        if self.chance(1, 24) {
            let r = self.raw() as u64;
            max + ((r * (big - max) as u64) >> 32) as usize
        } else {
            self.len(max)
        }
    }
    fn tag(&mut self) -> Tag {
        let r = self.raw();
        if r >> 31 == 0 {
            Tag::new(STD_TAGS[((r as u64 & 0x7FFF_FFFF) * STD_TAGS.len() as u64 >> 31) as usize])
        } else {
            let b = r.to_be_bytes();
            let m = |x: u8| if x >= 0x80 { b'a' + x % 26 } else { b'A' + x % 26 };
            Tag::new(&[m(b[0]), m(b[1]), m(b[2]), m(b[3])])
        }
    }
    fn fixed(&mut self) -> Fixed {
        Fixed::from_bits(self.u32() as i32)
    }
    fn f2(&mut self) -> F2Dot14 {
        F2Dot14::from_bits(self.i16())
    }
    fn fword(&mut self) -> FWord {
        FWord::new(self.i16())
    }
    fn ufword(&mut self) -> UfWord {
        UfWord::new(self.u16())
    }
    fn name_id(&mut self) -> NameId {
        NameId::new(self.u16())
    }
    fn gid(&mut self) -> GlyphId16 {
        GlyphId16::new(self.u16())
    }
    fn bytes(&mut self, n: usize) -> Vec<u8> {
        (0..n).map(|_| self.u8()).collect()
    }
    /// strictly increasing glyph ids (at most n; fewer if 0xFFFF is reached)
    fn glyph_set(&mut self, n: usize) -> Vec<GlyphId16> {
        let mut out = Vec::with_capacity(n);
        let mut cur: u32 = if self.chance(1, 8) { 0xFFFF - n.min(0xFFFF) as u32 } else { self.below(300) };
        let dense = self.bool();
        for _ in 0..n {
            if cur > 0xFFFF {
                break;
            }
            out.push(GlyphId16::new(cur as u16));
            cur += if dense { 1 } else { 1 + self.below(5) * self.below(40) };
        }
        out
    }
    /// label + mark as carrying a non-default version/format discriminant
    fn lab_nd(&mut self, s: &str) {
        self.nondefault = true;
        self.lab(s);
    }
    fn lab(&mut self, s: &str) {
        if !self.label.is_empty() {
            self.label.push('+');
        }
        self.label.push_str(s);
    }
}

fn nullable<T, const N: usize>(v: Option<T>) -> NullableOffsetMarker<T, N> {
    NullableOffsetMarker::new(v)
}

// ---- variations ---------------------------------------------------------------------------------

fn b_dsim(t: &mut Tape) -> wt::variations::DeltaSetIndexMap {
    use wt::variations::*;
    let bits = (t.below(16) | (t.below(4) << 4)) as u8;
    let ef = EntryFormat::from_bits_truncate(bits);
    let entry_size = ((bits >> 4) & 3) as usize + 1;
    let n = t.len_big(12, 400);
    let data = t.bytes(n * entry_size);
    if t.bool() {
        t.lab_nd("dsim1");
        DeltaSetIndexMap::Format1(DeltaSetIndexMapFormat1 { entry_format: ef, map_count: n as u32, map_data: data })
    } else {
        t.lab("dsim0");
        DeltaSetIndexMap::Format0(DeltaSetIndexMapFormat0 { entry_format: ef, map_count: n as u16, map_data: data })
    }
}

fn b_ivs(t: &mut Tape) -> wt::variations::ItemVariationStore {
    b_ivs_with(t, false)
}

fn b_ivs_with(t: &mut Tape, zero_axes: bool) -> wt::variations::ItemVariationStore {
    use wt::variations::*;
    let nregions = t.len(5);
    // a region without axes is a zero-sized record (listed finding `zero-sized-records`): excluded here
    let axis_count = if zero_axes { 0 } else if nregions > 0 { 1 + t.len(3) } else { t.len(4) };
    let regions: Vec<VariationRegion> = (0..nregions)
        .map(|_| VariationRegion { region_axes: (0..axis_count).map(|_| RegionAxisCoordinates { start_coord: t.f2(), peak_coord: t.f2(), end_coord: t.f2() }).collect() })
        .collect();
    let ndata = t.len(4);
    let mut long = false;
    let mut null = false;
    let data: Vec<NullableOffsetMarker<ItemVariationData, 4>> = (0..ndata)
        .map(|_| {
            if t.chance(1, 6) {
                null = true;
                return nullable(None);
            }
            let m = t.len(nregions);
            let region_indexes: Vec<u16> = (0..m).map(|_| t.below(nregions.max(1) as u32) as u16).collect();
            let words = t.len(m);
            let is_long = t.chance(1, 3);
            long |= is_long;
            let (ws, ss) = if is_long { (4, 2) } else { (2, 1) };
            let row = words * ws + (m - words) * ss;
            let items = t.len_big(5, 200);
            nullable(Some(ItemVariationData { item_count: items as u16, word_delta_count: words as u16 | if is_long { 0x8000 } else { 0 }, region_indexes, delta_sets: t.bytes(items * row) }))
        })
        .collect();
    let _ = null;
    if long {
        t.lab_nd("ivs-long");
    } else {
        t.lab("ivs");
    }
    ItemVariationStore { variation_region_list: OffsetMarker::new(VariationRegionList { axis_count: axis_count as u16, variation_regions: regions }), item_variation_data: data }
}

fn b_avar(t: &mut Tape, force_v2: bool) -> wt::avar::Avar {
    use wt::avar::*;
    let v2 = force_v2 || t.bool();
    let n = t.len(5);
    let maps = (0..n).map(|_| SegmentMaps::new((0..t.len(6)).map(|_| AxisValueMap::new(t.f2(), t.f2())).collect())).collect();
    let mut a = Avar::new(maps);
    if v2 {
        let which = 1 + t.below(3);
        if which & 1 != 0 {
            a.axis_index_map = nullable(Some(b_dsim(t)));
        }
        if which & 2 != 0 {
            a.var_store = nullable(Some(b_ivs(t)));
        }
        t.lab_nd("v2");
    } else {
        t.lab("v1");
    }
    a
}

fn b_fvar(t: &mut Tape, ps_ffff: bool) -> wt::fvar::Fvar {
    use wt::fvar::*;
    let na = t.len(4);
    let axes = (0..na).map(|_| VariationAxisRecord { axis_tag: t.tag(), min_value: t.fixed(), default_value: t.fixed(), max_value: t.fixed(), flags: t.u16(), axis_name_id: t.name_id() }).collect();
    // known-defect stage: 2..=5 instances where all / some / none of the postscript ids are 0xFFFF (or no ids at all)
    let ni = if ps_ffff { 2 + t.below(4) as usize } else { t.len(4) };
    let ps = if ps_ffff { t.chance(4, 5) } else { t.bool() };
    let ffff_mode = t.below(3); // 0 all, 1 some, 2 none
    let instances = (0..ni)
        .map(|_| InstanceRecord {
            subfamily_name_id: t.name_id(),
            flags: t.u16(),
            coordinates: (0..na).map(|_| t.fixed()).collect(),
            post_script_name_id: ps.then(|| if ps_ffff && ffff_mode == 0 { NameId::new(0xFFFF) } else { ps_name_id(t, ps_ffff && ffff_mode == 1) }),
        })
        .collect();
    t.lab(if ni == 0 { "no-instances" } else if ps { "instances+ps" } else { "instances" });
    Fvar::new(AxisInstanceArrays::new(axes, instances))
}

/// PostScript name id of an instance. 0xFFFF ("no name", what write-fonts tells users to write) reads back as `None`
/// (listed finding): only generated in the known-defect stage.
fn ps_name_id(t: &mut Tape, allow_ffff: bool) -> NameId {
    let v = t.u16();
    if allow_ffff && t.bool() {
        NameId::new(0xFFFF)
    } else if v == 0xFFFF {
        NameId::new(0xFFFE)
    } else {
        NameId::new(v)
    }
}

fn b_stat(t: &mut Tape) -> wt::stat::Stat {
    use wt::stat::*;
    let na = t.len(4);
    let axes: Vec<AxisRecord> = (0..na).map(|_| AxisRecord { axis_tag: t.tag(), axis_name_id: t.name_id(), axis_ordering: t.u16() }).collect();
    let values = if t.chance(1, 5) {
        t.lab("no-values");
        None
    } else {
        let nv = t.len(5);
        let mut fm = 0u32;
        t.lab("values");
        let v: Vec<OffsetMarker<AxisValue>> = (0..nv)
            .map(|_| {
                let flags = AxisValueTableFlags::from_bits_truncate(t.u16());
                let f = t.below(4);
                fm |= 1 << f;
                let av = match f {
                    0 => AxisValue::Format1(AxisValueFormat1 { axis_index: t.u16(), flags, value_name_id: t.name_id(), value: t.fixed() }),
                    1 => AxisValue::Format2(AxisValueFormat2 { axis_index: t.u16(), flags, value_name_id: t.name_id(), nominal_value: t.fixed(), range_min_value: t.fixed(), range_max_value: t.fixed() }),
                    2 => AxisValue::Format3(AxisValueFormat3 { axis_index: t.u16(), flags, value_name_id: t.name_id(), value: t.fixed(), linked_value: t.fixed() }),
                    _ => AxisValue::Format4(AxisValueFormat4 { flags, value_name_id: t.name_id(), axis_values: (0..t.len(4)).map(|_| AxisValueRecord { axis_index: t.u16(), value: t.fixed() }).collect() }),
                };
                OffsetMarker::new(av)
            })
            .collect();
        for f in 0..4 {
            if fm & (1 << f) != 0 {
                t.lab(["value-f1", "value-f2", "value-f3", "value-f4"][f]);
            }
        }
        Some(v)
    };
    Stat { design_axes: OffsetMarker::new(axes), offset_to_axis_values: nullable(values), elided_fallback_name_id: Some(t.name_id()) }
}

const MAC_CHARS: &[char] = &['A', 'z', ' ', '0', '~', 'Ä', 'Å', 'Ç', 'É', 'Ñ', 'Ö', 'Ü', 'á', 'à', 'ë'];
const UNI_CHARS: &[char] = &['A', 'b', ' ', '-', '9', 'é', 'ß', 'Ω', 'я', '中', '\u{FFFD}', '\u{1F600}', '\u{10FFFF}', '\u{0}', '"', '\\', '}'];

fn b_string(t: &mut Tape, alphabet: &[char], max: usize) -> String {
    let n = t.len(max);
    (0..n).map(|_| alphabet[t.below(alphabet.len() as u32) as usize]).collect()
}

fn b_name(t: &mut Tape) -> wt::name::Name {
    use wt::name::*;
    let n = t.len_big(6, 120);
    let mut recs: Vec<NameRecord> = (0..n)
        .map(|_| {
            let (p, e) = match t.below(5) {
                0 => (0u16, t.below(7) as u16),
                1 => (1, 0),
                2 => (3, 0),
                3 => (3, 1),
                _ => (3, 10),
            };
            let s = if p == 1 { b_string(t, MAC_CHARS, 12) } else { b_string(t, UNI_CHARS, 12) };
            let lang = if t.bool() { 0x409 } else { t.u16() };
            NameRecord { platform_id: p, encoding_id: e, language_id: lang, name_id: NameId::new(t.below(30) as u16), string: OffsetMarker::new(s) }
        })
        .collect();
    recs.sort();
    recs.dedup_by(|a, b| (a.platform_id, a.encoding_id, a.language_id, a.name_id) == (b.platform_id, b.encoding_id, b.language_id, b.name_id));
    let lang = if t.chance(1, 3) {
        t.lab_nd("v1");
        Some((0..t.len(3)).map(|_| LangTagRecord { lang_tag: OffsetMarker::new(b_string(t, &['e', 'n', '-', 'U', 'S', 'ö'], 8)) }).collect())
    } else {
        t.lab("v0");
        None
    };
    Name { name_record: recs, lang_tag_record: lang }
}

fn b_post(t: &mut Tape) -> wt::post::Post {
    use wt::post::Post;
    let ver = t.below(4);
    let mut p = if ver == 1 || ver == 2 {
        let n = t.len_big(8, 300);
        let names: Vec<String> = (0..n)
            .map(|_| match t.below(4) {
                0 => read_fonts::tables::post::DEFAULT_GLYPH_NAMES[t.below(258) as usize].to_string(),
                1 => format!("g{}", t.below(4)),
                _ => {
                    let lmax = if t.chance(1, 8) { 63 } else { 8 };
                    let l = 1 + t.below(lmax);
                    (0..l).map(|_| (b'a' + t.below(26) as u8) as char).collect()
                }
            })
            .collect();
        Post::new_v2(names.iter().map(|s| s.as_str()))
    } else {
        Post::default()
    };
    p.version = match ver {
        0 => Version16Dot16::VERSION_1_0,
        1 => Version16Dot16::VERSION_2_0,
        2 => Version16Dot16::VERSION_2_5,
        _ => Version16Dot16::VERSION_3_0,
    };
    t.lab(["v1", "v2", "v2.5", "v3"][ver as usize]);
    t.nondefault |= ver != 0;
    p.italic_angle = t.fixed();
    p.underline_position = t.fword();
    p.underline_thickness = t.fword();
    p.is_fixed_pitch = t.u32();
    p.min_mem_type42 = t.u32();
    p.max_mem_type42 = t.u32();
    p.min_mem_type1 = t.u32();
    p.max_mem_type1 = t.u32();
    p
}

fn b_os2(t: &mut Tape) -> wt::os2::Os2 {
    use wt::os2::*;
    let ver = t.below(4); // 0, 1, 4 (2..4), 5
    t.lab(["v0", "v1", "v4", "v5"][ver as usize]);
    t.nondefault |= ver != 0;
    let mut panose = [0u8; 10];
    for p in panose.iter_mut() {
        *p = t.u8();
    }
    let mut o = Os2 {
        x_avg_char_width: t.i16(),
        us_weight_class: t.u16(),
        us_width_class: t.u16(),
        fs_type: t.u16(),
        y_subscript_x_size: t.i16(),
        y_subscript_y_size: t.i16(),
        y_subscript_x_offset: t.i16(),
        y_subscript_y_offset: t.i16(),
        y_superscript_x_size: t.i16(),
        y_superscript_y_size: t.i16(),
        y_superscript_x_offset: t.i16(),
        y_superscript_y_offset: t.i16(),
        y_strikeout_size: t.i16(),
        y_strikeout_position: t.i16(),
        s_family_class: t.i16(),
        panose_10: panose,
        ul_unicode_range_1: t.u32(),
        ul_unicode_range_2: t.u32(),
        ul_unicode_range_3: t.u32(),
        ul_unicode_range_4: t.u32(),
        ach_vend_id: t.tag(),
        fs_selection: SelectionFlags::from_bits_truncate(t.u16()),
        us_first_char_index: t.u16(),
        us_last_char_index: t.u16(),
        s_typo_ascender: t.i16(),
        s_typo_descender: t.i16(),
        s_typo_line_gap: t.i16(),
        us_win_ascent: t.u16(),
        us_win_descent: t.u16(),
        ..Default::default()
    };
    if ver >= 1 {
        o.ul_code_page_range_1 = Some(t.u32());
        o.ul_code_page_range_2 = Some(t.u32());
    }
    if ver >= 2 {
        o.sx_height = Some(t.i16());
        o.s_cap_height = Some(t.i16());
        o.us_default_char = Some(t.u16());
        o.us_break_char = Some(t.u16());
        o.us_max_context = Some(t.u16());
    }
    if ver >= 3 {
        o.us_lower_optical_point_size = Some(t.u16());
        o.us_upper_optical_point_size = Some(t.u16());
    }
    o
}

fn b_head(t: &mut Tape) -> wt::head::Head {
    use wt::head::*;
    Head {
        font_revision: t.fixed(),
        checksum_adjustment: t.u32(),
        magic_number: if t.chance(1, 4) { t.u32() } else { 0x5F0F3CF5 },
        flags: t.u16(),
        units_per_em: t.u16(),
        created: LongDateTime::new(((t.u32() as u64) << 32 | t.u32() as u64) as i64),
        modified: LongDateTime::new(t.u32() as i32 as i64),
        x_min: t.i16(),
        y_min: t.i16(),
        x_max: t.i16(),
        y_max: t.i16(),
        mac_style: MacStyle::from_bits_truncate(t.u16()),
        lowest_rec_ppem: t.u16(),
        font_direction_hint: t.i16(),
        index_to_loc_format: t.i16(),
    }
}

fn b_hhea(t: &mut Tape) -> wt::hhea::Hhea {
    wt::hhea::Hhea {
        ascender: t.fword(),
        descender: t.fword(),
        line_gap: t.fword(),
        advance_width_max: t.ufword(),
        min_left_side_bearing: t.fword(),
        min_right_side_bearing: t.fword(),
        x_max_extent: t.fword(),
        caret_slope_rise: t.i16(),
        caret_slope_run: t.i16(),
        caret_offset: t.i16(),
        number_of_h_metrics: t.u16(),
    }
}

fn b_vhea(t: &mut Tape) -> wt::vhea::Vhea {
    wt::vhea::Vhea {
        ascender: t.fword(),
        descender: t.fword(),
        line_gap: t.fword(),
        advance_height_max: t.ufword(),
        min_top_side_bearing: t.fword(),
        min_bottom_side_bearing: t.fword(),
        y_max_extent: t.fword(),
        caret_slope_rise: t.i16(),
        caret_slope_run: t.i16(),
        caret_offset: t.i16(),
        number_of_long_ver_metrics: t.u16(),
    }
}

fn b_maxp(t: &mut Tape) -> wt::maxp::Maxp {
    let mut m = wt::maxp::Maxp { num_glyphs: t.u16(), ..Default::default() };
    if t.bool() {
        t.lab_nd("v1.0");
        m.max_points = Some(t.u16());
        m.max_contours = Some(t.u16());
        m.max_composite_points = Some(t.u16());
        m.max_composite_contours = Some(t.u16());
        m.max_zones = Some(t.u16());
        m.max_twilight_points = Some(t.u16());
        m.max_storage = Some(t.u16());
        m.max_function_defs = Some(t.u16());
        m.max_instruction_defs = Some(t.u16());
        m.max_stack_elements = Some(t.u16());
        m.max_size_of_instructions = Some(t.u16());
        m.max_component_elements = Some(t.u16());
        m.max_component_depth = Some(t.u16());
    } else {
        t.lab("v0.5");
    }
    m
}

fn b_gasp(t: &mut Tape) -> wt::gasp::Gasp {
    use wt::gasp::*;
    let n = t.len(6);
    let version = t.below(2) as u16;
    t.lab(if version == 0 { "v0" } else { "v1" });
    t.nondefault |= version != 0;
    Gasp { version, num_ranges: n as u16, gasp_ranges: (0..n).map(|_| GaspRange { range_max_ppem: t.u16(), range_gasp_behavior: GaspRangeBehavior::from_bits_truncate(t.u16()) }).collect() }
}

fn b_meta(t: &mut Tape) -> wt::meta::Meta {
    use wt::meta::*;
    let n = t.len(6);
    let maps = (0..n)
        .map(|_| {
            if t.bool() {
                let tag = if t.bool() { DLNG } else { SLNG };
                let k = 1 + t.len(5);
                let tags = (0..k)
                    .map(|_| {
                        let l = 1 + t.below(12);
                        ScriptLangTag::new((0..l).map(|_| b"abcxyzLATN-019"[t.below(14) as usize] as char).collect()).unwrap()
                    })
                    .collect();
                t.lab("langs");
                DataMapRecord { tag, data: OffsetMarker::new(Metadata::ScriptLangTags(tags)) }
            } else {
                t.lab("other");
                let l = t.len(10);
                DataMapRecord { tag: t.tag(), data: OffsetMarker::new(Metadata::Other(t.bytes(l))) }
            }
        })
        .collect();
    Meta { data_maps: maps }
}

fn b_cpal(t: &mut Tape, force_v1: bool) -> wt::cpal::Cpal {
    use wt::cpal::*;
    let v1 = force_v1 || t.bool();
    let e = t.len(4);
    let p = t.len(3);
    let n = e * p;
    let recs: Vec<ColorRecord> = (0..n).map(|_| ColorRecord { blue: t.u8(), green: t.u8(), red: t.u8(), alpha: t.u8() }).collect();
    let mut c = Cpal::new(e as u16, p as u16, n as u16, if n == 0 && t.bool() { None } else { Some(recs) }, (0..p).map(|i| (i * e) as u16).collect());
    if v1 {
        let which = 1 + t.below(7);
        if which & 1 != 0 {
            c.palette_types_array = nullable(Some((0..p).map(|_| PaletteType::from_bits_truncate(t.u32())).collect()));
        }
        if which & 2 != 0 {
            c.palette_labels_array = nullable(Some((0..p).map(|_| t.u16()).collect()));
        }
        if which & 4 != 0 {
            c.palette_entry_labels_array = nullable(Some((0..e).map(|_| t.name_id()).collect()));
        }
        t.lab_nd("v1");
    } else {
        t.lab("v0");
    }
    c
}

fn b_mvar(t: &mut Tape) -> wt::mvar::Mvar {
    use wt::mvar::*;
    let n = t.len(6);
    let mut recs: Vec<ValueRecord> = (0..n).map(|_| ValueRecord { value_tag: t.tag(), delta_set_outer_index: t.u16(), delta_set_inner_index: t.u16() }).collect();
    recs.sort();
    let ivs = if t.chance(1, 5) { None } else { Some(b_ivs(t)) };
    t.lab(if ivs.is_some() { "store" } else { "null-store" });
    Mvar { version: MajorMinor::VERSION_1_0, value_record_size: 8, value_record_count: n as u16, item_variation_store: nullable(ivs), value_records: recs }
}

fn b_opt_dsim<const N: usize>(t: &mut Tape) -> NullableOffsetMarker<wt::variations::DeltaSetIndexMap, N> {
    if t.bool() {
        nullable(Some(b_dsim(t)))
    } else {
        nullable(None)
    }
}

fn b_hvar(t: &mut Tape) -> wt::hvar::Hvar {
    wt::hvar::Hvar { item_variation_store: OffsetMarker::new(b_ivs(t)), advance_width_mapping: b_opt_dsim(t), lsb_mapping: b_opt_dsim(t), rsb_mapping: b_opt_dsim(t) }
}

fn b_vvar(t: &mut Tape) -> wt::vvar::Vvar {
    wt::vvar::Vvar { item_variation_store: OffsetMarker::new(b_ivs(t)), advance_height_mapping: b_opt_dsim(t), tsb_mapping: b_opt_dsim(t), bsb_mapping: b_opt_dsim(t), v_org_mapping: b_opt_dsim(t) }
}

fn b_hmtx(t: &mut Tape) -> wt::hmtx::Hmtx {
    let n = t.len_big(6, 500);
    let m = t.len_big(6, 500);
    wt::hmtx::Hmtx { h_metrics: (0..n).map(|_| wt::hmtx::LongMetric { advance: t.u16(), side_bearing: t.i16() }).collect(), left_side_bearings: (0..m).map(|_| t.i16()).collect() }
}

// ---- layout primitives --------------------------------------------------------------------------

/// a coverage table over exactly `glyphs` (sorted, unique), either format
fn b_cov_of(t: &mut Tape, glyphs: &[GlyphId16]) -> wt::layout::CoverageTable {
    use wt::layout::*;
    if t.bool() {
        CoverageTable::Format1(CoverageFormat1 { glyph_array: glyphs.to_vec() })
    } else {
        let mut recs: Vec<RangeRecord> = vec![];
        for (i, g) in glyphs.iter().enumerate() {
            match recs.last_mut() {
                Some(r) if r.end_glyph_id.to_u16() as u32 + 1 == g.to_u16() as u32 => r.end_glyph_id = *g,
                _ => recs.push(RangeRecord { start_glyph_id: *g, end_glyph_id: *g, start_coverage_index: i as u16 }),
            }
        }
        CoverageTable::Format2(CoverageFormat2 { range_records: recs })
    }
}

fn b_cov(t: &mut Tape, max: usize) -> (wt::layout::CoverageTable, usize) {
    let n = t.len(max);
    let g = t.glyph_set(n);
    (b_cov_of(t, &g), g.len())
}

/// class definition using exactly the classes 1..=k (each at least once when k <= number of glyphs); returns class count (k+1)
fn b_classdef(t: &mut Tape, k: usize) -> (wt::layout::ClassDef, u16) {
    use wt::layout::*;
    if t.bool() {
        let n = k + t.len(6);
        let start = t.below(0xFFFF - n as u32) as u16;
        let vals: Vec<u16> = (0..n).map(|i| if i < k { (i + 1) as u16 } else { t.below(k as u32 + 1) as u16 }).collect();
        let count = if k == 0 { 1 } else { k as u16 + 1 };
        (ClassDef::Format1(ClassDefFormat1 { start_glyph_id: GlyphId16::new(start), class_value_array: vals }), count)
    } else {
        let mut cur = t.below(200);
        let n = k + t.len(3);
        let mut recs = vec![];
        for i in 0..n {
            let len = t.below(4);
            let cls = if i < k { (i + 1) as u16 } else { 1 + t.below(k.max(1) as u32) as u16 };
            recs.push(ClassRangeRecord { start_glyph_id: GlyphId16::new(cur as u16), end_glyph_id: GlyphId16::new((cur + len) as u16), class: if k == 0 { 0 } else { cls } });
            cur += len + 1 + t.below(10);
        }
        (ClassDef::Format2(ClassDefFormat2 { class_range_records: recs }), k as u16 + 1)
    }
}

fn b_device(t: &mut Tape) -> wt::layout::Device {
    use wt::layout::*;
    let start = t.u16().min(0xFF00);
    let n = 1 + t.len(20);
    let (fmt, per) = match t.below(3) {
        0 => (DeltaFormat::Local2BitDeltas, 8),
        1 => (DeltaFormat::Local4BitDeltas, 4),
        _ => (DeltaFormat::Local8BitDeltas, 2),
    };
    Device { start_size: start, end_size: start + n as u16 - 1, delta_format: fmt, delta_value: (0..n.div_ceil(per)).map(|_| t.u16()).collect() }
}

fn b_dev_or_var(t: &mut Tape) -> wt::layout::DeviceOrVariationIndex {
    use wt::layout::*;
    if t.bool() {
        DeviceOrVariationIndex::Device(b_device(t))
    } else {
        DeviceOrVariationIndex::VariationIndex(VariationIndex { delta_set_outer_index: t.u16(), delta_set_inner_index: t.u16() })
    }
}

// ---- GSUB / GPOS --------------------------------------------------------------------------------

fn b_lookup_flag(t: &mut Tape) -> (wt::layout::LookupFlag, Option<u16>) {
    use wt::layout::LookupFlag;
    let mut bits = t.u16() & 0xFF0F; // defined bits: low nibble + mark attachment class
    let mfs = if t.chance(1, 3) {
        bits |= 0x10;
        Some(t.u16())
    } else {
        None
    };
    (LookupFlag::from_bits_truncate(bits), mfs)
}

fn b_lookup<T>(t: &mut Tape, mut sub: impl FnMut(&mut Tape) -> T) -> wt::layout::Lookup<T> {
    let (lookup_flag, mark_filtering_set) = b_lookup_flag(t);
    let n = 1 + t.len(2);
    wt::layout::Lookup { lookup_flag, subtables: (0..n).map(|_| OffsetMarker::new(sub(t))).collect(), mark_filtering_set }
}

fn b_seq_records(t: &mut Tape) -> Vec<wt::layout::SequenceLookupRecord> {
    (0..t.len(3)).map(|_| wt::layout::SequenceLookupRecord { sequence_index: t.u16(), lookup_list_index: t.u16() }).collect()
}
fn b_gids(t: &mut Tape, max: usize) -> Vec<GlyphId16> {
    (0..t.len(max)).map(|_| t.gid()).collect()
}
fn b_u16s(t: &mut Tape, max: usize) -> Vec<u16> {
    (0..t.len(max)).map(|_| t.u16()).collect()
}
fn b_covs(t: &mut Tape, max: usize) -> Vec<OffsetMarker<wt::layout::CoverageTable>> {
    (0..t.len(max)).map(|_| OffsetMarker::new(b_cov(t, 5).0)).collect()
}

fn b_seq_context(t: &mut Tape) -> wt::layout::SequenceContext {
    use wt::layout::*;
    match t.below(3) {
        0 => {
            t.lab("ctx1");
            let (cov, n) = b_cov(t, 4);
            let sets = (0..n)
                .map(|_| {
                    if t.chance(1, 4) {
                        return nullable(None);
                    }
                    nullable(Some(SequenceRuleSet { seq_rules: (0..t.len(3)).map(|_| OffsetMarker::new(SequenceRule { input_sequence: b_gids(t, 3), seq_lookup_records: b_seq_records(t) })).collect() }))
                })
                .collect();
            SequenceContext::Format1(SequenceContextFormat1 { coverage: OffsetMarker::new(cov), seq_rule_sets: sets })
        }
        1 => {
            t.lab("ctx2");
            let (cov, _) = b_cov(t, 4);
            let k = t.len(3);
            let (cd, count) = b_classdef(t, k);
            let sets = (0..count)
                .map(|_| {
                    if t.chance(1, 4) {
                        return nullable(None);
                    }
                    nullable(Some(ClassSequenceRuleSet {
                        class_seq_rules: (0..t.len(3)).map(|_| OffsetMarker::new(ClassSequenceRule { input_sequence: b_u16s(t, 3), seq_lookup_records: b_seq_records(t) })).collect(),
                    }))
                })
                .collect();
            SequenceContext::Format2(SequenceContextFormat2 { coverage: OffsetMarker::new(cov), class_def: OffsetMarker::new(cd), class_seq_rule_sets: sets })
        }
        _ => {
            t.lab("ctx3");
            let mut covs = b_covs(t, 3);
            if covs.is_empty() {
                covs.push(OffsetMarker::new(b_cov(t, 3).0));
            }
            SequenceContext::Format3(SequenceContextFormat3 { coverages: covs, seq_lookup_records: b_seq_records(t) })
        }
    }
}

fn b_chain_context(t: &mut Tape) -> wt::layout::ChainedSequenceContext {
    use wt::layout::*;
    match t.below(3) {
        0 => {
            t.lab("chain1");
            let (cov, n) = b_cov(t, 4);
            let sets = (0..n)
                .map(|_| {
                    if t.chance(1, 4) {
                        return nullable(None);
                    }
                    nullable(Some(ChainedSequenceRuleSet {
                        chained_seq_rules: (0..t.len(3))
                            .map(|_| OffsetMarker::new(ChainedSequenceRule { backtrack_sequence: b_gids(t, 3), input_sequence: b_gids(t, 3), lookahead_sequence: b_gids(t, 3), seq_lookup_records: b_seq_records(t) }))
                            .collect(),
                    }))
                })
                .collect();
            ChainedSequenceContext::Format1(ChainedSequenceContextFormat1 { coverage: OffsetMarker::new(cov), chained_seq_rule_sets: sets })
        }
        1 => {
            t.lab("chain2");
            let (cov, _) = b_cov(t, 4);
            let (b, _) = { let k = t.len(2); b_classdef(t, k) };
            let (i, count) = { let k = t.len(3); b_classdef(t, k) };
            let (l, _) = { let k = t.len(2); b_classdef(t, k) };
            let sets = (0..count)
                .map(|_| {
                    if t.chance(1, 4) {
                        return nullable(None);
                    }
                    nullable(Some(ChainedClassSequenceRuleSet {
                        chained_class_seq_rules: (0..t.len(3))
                            .map(|_| OffsetMarker::new(ChainedClassSequenceRule { backtrack_sequence: b_u16s(t, 3), input_sequence: b_u16s(t, 3), lookahead_sequence: b_u16s(t, 3), seq_lookup_records: b_seq_records(t) }))
                            .collect(),
                    }))
                })
                .collect();
            ChainedSequenceContext::Format2(ChainedSequenceContextFormat2 {
                coverage: OffsetMarker::new(cov),
                backtrack_class_def: OffsetMarker::new(b),
                input_class_def: OffsetMarker::new(i),
                lookahead_class_def: OffsetMarker::new(l),
                chained_class_seq_rule_sets: sets,
            })
        }
        _ => {
            t.lab("chain3");
            let mut input = b_covs(t, 3);
            if input.is_empty() {
                input.push(OffsetMarker::new(b_cov(t, 3).0));
            }
            ChainedSequenceContext::Format3(ChainedSequenceContextFormat3 { backtrack_coverages: b_covs(t, 2), input_coverages: input, lookahead_coverages: b_covs(t, 2), seq_lookup_records: b_seq_records(t) })
        }
    }
}

fn b_gsub_lookup(t: &mut Tape) -> wt::gsub::SubstitutionLookup {
    use wt::gsub::*;
    match t.below(8) {
        0 => SubstitutionLookup::Single(b_lookup(t, |t| {
            let (cov, n) = b_cov(t, 8);
            if t.bool() {
                t.lab("single1");
                SingleSubst::Format1(SingleSubstFormat1 { coverage: OffsetMarker::new(cov), delta_glyph_id: t.i16() })
            } else {
                t.lab("single2");
                SingleSubst::Format2(SingleSubstFormat2 { coverage: OffsetMarker::new(cov), substitute_glyph_ids: (0..n).map(|_| t.gid()).collect() })
            }
        })),
        1 => SubstitutionLookup::Multiple(b_lookup(t, |t| {
            t.lab("multiple");
            let (cov, n) = b_cov(t, 5);
            MultipleSubstFormat1 { coverage: OffsetMarker::new(cov), sequences: (0..n).map(|_| OffsetMarker::new(Sequence { substitute_glyph_ids: b_gids(t, 4) })).collect() }
        })),
        2 => SubstitutionLookup::Alternate(b_lookup(t, |t| {
            t.lab("alternate");
            let (cov, n) = b_cov(t, 5);
            AlternateSubstFormat1 { coverage: OffsetMarker::new(cov), alternate_sets: (0..n).map(|_| OffsetMarker::new(AlternateSet { alternate_glyph_ids: b_gids(t, 4) })).collect() }
        })),
        3 => SubstitutionLookup::Ligature(b_lookup(t, |t| {
            t.lab("ligature");
            let (cov, n) = b_cov(t, 4);
            LigatureSubstFormat1 {
                coverage: OffsetMarker::new(cov),
                ligature_sets: (0..n)
                    .map(|_| OffsetMarker::new(LigatureSet { ligatures: (0..t.len(3)).map(|_| OffsetMarker::new(Ligature { ligature_glyph: t.gid(), component_glyph_ids: b_gids(t, 3) })).collect() }))
                    .collect(),
            }
        })),
        4 => SubstitutionLookup::Contextual(b_lookup(t, |t| b_seq_context(t).into())),
        5 => SubstitutionLookup::ChainContextual(b_lookup(t, |t| b_chain_context(t).into())),
        6 => SubstitutionLookup::Reverse(b_lookup(t, |t| {
            t.lab("reverse");
            let (cov, n) = b_cov(t, 5);
            ReverseChainSingleSubstFormat1 { coverage: OffsetMarker::new(cov), backtrack_coverages: b_covs(t, 2), lookahead_coverages: b_covs(t, 2), substitute_glyph_ids: (0..n).map(|_| t.gid()).collect() }
        })),
        _ => SubstitutionLookup::Extension(b_lookup(t, |t| {
            t.lab("extension");
            let (cov, n) = b_cov(t, 5);
            if t.bool() {
                ExtensionSubtable::Single(ExtensionSubstFormat1 { extension_lookup_type: 1, extension: OffsetMarker::new(SingleSubst::Format2(SingleSubstFormat2 { coverage: OffsetMarker::new(cov), substitute_glyph_ids: (0..n).map(|_| t.gid()).collect() })) })
            } else {
                ExtensionSubtable::Multiple(ExtensionSubstFormat1 {
                    extension_lookup_type: 2,
                    extension: OffsetMarker::new(MultipleSubstFormat1 { coverage: OffsetMarker::new(cov), sequences: (0..n).map(|_| OffsetMarker::new(Sequence { substitute_glyph_ids: b_gids(t, 4) })).collect() }),
                })
            }
        })),
    }
}

fn b_value_record(t: &mut Tape, mask: u16) -> wt::gpos::ValueRecord {
    use read_fonts::tables::gpos::ValueFormat;
    let mut v = wt::gpos::ValueRecord::new().with_explicit_value_format(ValueFormat::from_bits_truncate(mask));
    if mask & 1 != 0 {
        v.x_placement = Some(t.i16());
    }
    if mask & 2 != 0 {
        v.y_placement = Some(t.i16());
    }
    if mask & 4 != 0 {
        v.x_advance = Some(t.i16());
    }
    if mask & 8 != 0 {
        v.y_advance = Some(t.i16());
    }
    if mask & 0x10 != 0 && t.bool() {
        v.x_placement_device = nullable(Some(b_dev_or_var(t)));
    }
    if mask & 0x20 != 0 && t.bool() {
        v.y_placement_device = nullable(Some(b_dev_or_var(t)));
    }
    if mask & 0x40 != 0 && t.bool() {
        v.x_advance_device = nullable(Some(b_dev_or_var(t)));
    }
    if mask & 0x80 != 0 && t.bool() {
        v.y_advance_device = nullable(Some(b_dev_or_var(t)));
    }
    v
}

fn b_value_mask(t: &mut Tape) -> u16 {
    match t.below(4) {
        0 => 0,
        1 => 4,
        2 => (t.below(16)) as u16,
        _ => t.below(256) as u16,
    }
}

fn b_anchor(t: &mut Tape) -> wt::gpos::AnchorTable {
    use wt::gpos::*;
    match t.below(3) {
        0 => AnchorTable::Format1(AnchorFormat1 { x_coordinate: t.i16(), y_coordinate: t.i16() }),
        1 => AnchorTable::Format2(AnchorFormat2 { x_coordinate: t.i16(), y_coordinate: t.i16(), anchor_point: t.u16() }),
        _ => AnchorTable::Format3(AnchorFormat3 {
            x_coordinate: t.i16(),
            y_coordinate: t.i16(),
            x_device: if t.bool() { nullable(Some(b_dev_or_var(t))) } else { nullable(None) },
            y_device: if t.bool() { nullable(Some(b_dev_or_var(t))) } else { nullable(None) },
        }),
    }
}

fn b_opt_anchor(t: &mut Tape) -> NullableOffsetMarker<wt::gpos::AnchorTable> {
    if t.chance(1, 4) {
        nullable(None)
    } else {
        nullable(Some(b_anchor(t)))
    }
}

/// mark coverage + mark array using the classes 0..k (each at least once); returns k
fn b_marks(t: &mut Tape) -> (wt::layout::CoverageTable, wt::gpos::MarkArray, usize) {
    // at least one mark, hence at least one class: records of zero anchors are zero-sized (listed finding)
    let n0 = 1 + t.len(5);
    let g = t.glyph_set(n0);
    let n = g.len();
    let cov = b_cov_of(t, &g);
    let k = 1 + t.below(n.min(3) as u32) as usize;
    // a quarter of the arrays with two or more classes leave one class (never the last one) without marks, as fonts
    // with an unused mark class and builders whose marks were all moved to other classes do
    let hole: Option<usize> = if k >= 2 && t.chance(1, 4) { Some(t.below(k as u32 - 1) as usize) } else { None };
    if hole.is_some() {
        t.lab_nd("unused-mark-class");
    }
    let recs = (0..n)
        .map(|i| {
            let mut c = if i < k { i } else { t.below(k as u32) as usize };
            if Some(c) == hole {
                c = k - 1;
            }
            wt::gpos::MarkRecord { mark_class: c as u16, mark_anchor: OffsetMarker::new(b_anchor(t)) }
        })
        .collect();
    (cov, wt::gpos::MarkArray { mark_records: recs }, k)
}

fn b_gpos_lookup(t: &mut Tape) -> wt::gpos::PositionLookup {
    use wt::gpos::*;
    match t.below(9) {
        0 => PositionLookup::Single(b_lookup(t, |t| {
            let (cov, n) = b_cov(t, 6);
            let mut mask = b_value_mask(t);
            if t.bool() {
                t.lab("single1");
                SinglePos::Format1(SinglePosFormat1 { coverage: OffsetMarker::new(cov), value_record: b_value_record(t, mask) })
            } else {
                t.lab("single2");
                if mask == 0 {
                    mask = 1; // zero-sized value records (listed finding `zero-sized records`)
                }
                SinglePos::Format2(SinglePosFormat2 { coverage: OffsetMarker::new(cov), value_records: (0..n).map(|_| b_value_record(t, mask)).collect() })
            }
        })),
        1 => PositionLookup::Pair(b_lookup(t, |t| {
            let (cov, n) = b_cov(t, 5);
            let (mut m1, m2) = (b_value_mask(t), if t.bool() { 0 } else { b_value_mask(t) });
            if m1 | m2 == 0 {
                m1 = 4; // format 2 with two empty value formats has zero-sized class records (listed finding)
            }
            if t.bool() {
                t.lab("pair1");
                let sets = (0..n)
                    .map(|_| {
                        let k = t.len(4);
                        let seconds = t.glyph_set(k);
                        OffsetMarker::new(PairSet { pair_value_records: seconds.into_iter().map(|g| PairValueRecord { second_glyph: g, value_record1: b_value_record(t, m1), value_record2: b_value_record(t, m2) }).collect() })
                    })
                    .collect();
                PairPos::Format1(PairPosFormat1 { coverage: OffsetMarker::new(cov), pair_sets: sets })
            } else {
                t.lab("pair2");
                let (c1, n1) = { let k = t.len(3); b_classdef(t, k) };
                let (c2, n2) = { let k = t.len(3); b_classdef(t, k) };
                let recs = (0..n1).map(|_| Class1Record { class2_records: (0..n2).map(|_| Class2Record { value_record1: b_value_record(t, m1), value_record2: b_value_record(t, m2) }).collect() }).collect();
                PairPos::Format2(PairPosFormat2 { coverage: OffsetMarker::new(cov), class_def1: OffsetMarker::new(c1), class_def2: OffsetMarker::new(c2), class1_records: recs })
            }
        })),
        2 => PositionLookup::Cursive(b_lookup(t, |t| {
            t.lab("cursive");
            let (cov, n) = b_cov(t, 5);
            CursivePosFormat1 { coverage: OffsetMarker::new(cov), entry_exit_record: (0..n).map(|_| EntryExitRecord { entry_anchor: b_opt_anchor(t), exit_anchor: b_opt_anchor(t) }).collect() }
        })),
        3 => PositionLookup::MarkToBase(b_lookup(t, |t| {
            t.lab("mark-base");
            let (mcov, marks, k) = b_marks(t);
            let (bcov, nb) = b_cov(t, 4);
            MarkBasePosFormat1 {
                mark_coverage: OffsetMarker::new(mcov),
                base_coverage: OffsetMarker::new(bcov),
                mark_array: OffsetMarker::new(marks),
                base_array: OffsetMarker::new(BaseArray { base_records: (0..nb).map(|_| BaseRecord { base_anchors: (0..k).map(|_| b_opt_anchor(t)).collect() }).collect() }),
            }
        })),
        4 => PositionLookup::MarkToLig(b_lookup(t, |t| {
            t.lab("mark-lig");
            let (mcov, marks, k) = b_marks(t);
            let (lcov, nl) = b_cov(t, 3);
            MarkLigPosFormat1 {
                mark_coverage: OffsetMarker::new(mcov),
                ligature_coverage: OffsetMarker::new(lcov),
                mark_array: OffsetMarker::new(marks),
                ligature_array: OffsetMarker::new(LigatureArray {
                    ligature_attaches: (0..nl)
                        .map(|_| OffsetMarker::new(LigatureAttach { component_records: (0..t.len(3)).map(|_| ComponentRecord { ligature_anchors: (0..k).map(|_| b_opt_anchor(t)).collect() }).collect() }))
                        .collect(),
                }),
            }
        })),
        5 => PositionLookup::MarkToMark(b_lookup(t, |t| {
            t.lab("mark-mark");
            let (mcov, marks, k) = b_marks(t);
            let (m2cov, n2) = b_cov(t, 4);
            MarkMarkPosFormat1 {
                mark1_coverage: OffsetMarker::new(mcov),
                mark2_coverage: OffsetMarker::new(m2cov),
                mark1_array: OffsetMarker::new(marks),
                mark2_array: OffsetMarker::new(Mark2Array { mark2_records: (0..n2).map(|_| Mark2Record { mark2_anchors: (0..k).map(|_| b_opt_anchor(t)).collect() }).collect() }),
            }
        })),
        6 => PositionLookup::Contextual(b_lookup(t, |t| b_seq_context(t).into())),
        7 => PositionLookup::ChainContextual(b_lookup(t, |t| b_chain_context(t).into())),
        _ => PositionLookup::Extension(b_lookup(t, |t| {
            t.lab("extension");
            let (cov, n) = b_cov(t, 5);
            let mask = b_value_mask(t).max(1);
            if t.bool() {
                ExtensionSubtable::Single(ExtensionPosFormat1 {
                    extension_lookup_type: 1,
                    extension: OffsetMarker::new(SinglePos::Format2(SinglePosFormat2 { coverage: OffsetMarker::new(cov), value_records: (0..n).map(|_| b_value_record(t, mask)).collect() })),
                })
            } else {
                ExtensionSubtable::Cursive(ExtensionPosFormat1 {
                    extension_lookup_type: 3,
                    extension: OffsetMarker::new(CursivePosFormat1 { coverage: OffsetMarker::new(cov), entry_exit_record: (0..n).map(|_| EntryExitRecord { entry_anchor: b_opt_anchor(t), exit_anchor: b_opt_anchor(t) }).collect() }),
                })
            }
        })),
    }
}

fn b_script_list(t: &mut Tape) -> wt::layout::ScriptList {
    use wt::layout::*;
    let lang_sys = |t: &mut Tape| LangSys { required_feature_index: if t.bool() { 0xFFFF } else { t.u16() }, feature_indices: b_u16s(t, 4) };
    let n = t.len(3);
    let mut recs: Vec<ScriptRecord> = (0..n)
        .map(|_| {
            let mut langs: Vec<LangSysRecord> = (0..t.len(3)).map(|_| LangSysRecord { lang_sys_tag: t.tag(), lang_sys: OffsetMarker::new(lang_sys(t)) }).collect();
            langs.sort_by_key(|l| l.lang_sys_tag);
            ScriptRecord { script_tag: t.tag(), script: OffsetMarker::new(Script { default_lang_sys: if t.bool() { nullable(Some(lang_sys(t))) } else { nullable(None) }, lang_sys_records: langs }) }
        })
        .collect();
    recs.sort_by_key(|r| r.script_tag);
    ScriptList { script_records: recs }
}

fn b_feature(t: &mut Tape, params: bool) -> wt::layout::Feature {
    use wt::layout::*;
    let fp = if params && t.chance(1, 3) {
        Some(match t.below(3) {
            0 => FeatureParams::Size(SizeParams { design_size: t.u16(), identifier: t.u16(), name_entry: t.u16(), range_start: t.u16(), range_end: t.u16() }),
            1 => FeatureParams::StylisticSet(StylisticSetParams { ui_name_id: t.name_id() }),
            _ => FeatureParams::CharacterVariant(CharacterVariantParams {
                feat_ui_label_name_id: t.name_id(),
                feat_ui_tooltip_text_name_id: t.name_id(),
                sample_text_name_id: t.name_id(),
                num_named_parameters: t.u16(),
                first_param_ui_label_name_id: t.name_id(),
                character: (0..t.len(3)).map(|_| t.u24()).collect(),
            }),
        })
    } else {
        None
    };
    Feature { feature_params: nullable(fp), lookup_list_indices: b_u16s(t, 4) }
}

fn b_feature_list(t: &mut Tape) -> wt::layout::FeatureList {
    use wt::layout::*;
    // feature params are interpreted by feature tag: size / ssXX / cvXX
    let n = t.len(4);
    let mut recs: Vec<FeatureRecord> = (0..n)
        .map(|_| {
            let f = b_feature(t, true);
            let tag = match f.feature_params.as_ref() {
                Some(FeatureParams::Size(_)) => Tag::new(b"size"),
                Some(FeatureParams::StylisticSet(_)) => Tag::new(b"ss01"),
                Some(FeatureParams::CharacterVariant(_)) => Tag::new(b"cv01"),
                None => t.tag(),
            };
            FeatureRecord { feature_tag: tag, feature: OffsetMarker::new(f) }
        })
        .collect();
    recs.sort_by_key(|r| r.feature_tag);
    FeatureList { feature_records: recs }
}

fn b_condition(t: &mut Tape, depth: u32) -> wt::layout::Condition {
    use wt::layout::*;
    let k = if depth == 0 { t.below(2) } else { t.below(5) };
    match k {
        0 => Condition::Format1AxisRange(ConditionFormat1 { axis_index: t.u16(), filter_range_min_value: t.f2(), filter_range_max_value: t.f2() }),
        1 => Condition::Format2VariableValue(ConditionFormat2 { default_value: t.i16(), var_index: t.u32() }),
        2 => {
            let n = t.len(3);
            Condition::Format3And(ConditionFormat3 { condition_count: n as u8, conditions: (0..n).map(|_| OffsetMarker::new(b_condition(t, depth - 1))).collect() })
        }
        3 => {
            let n = t.len(3);
            Condition::Format4Or(ConditionFormat4 { condition_count: n as u8, conditions: (0..n).map(|_| OffsetMarker::new(b_condition(t, depth - 1))).collect() })
        }
        _ => Condition::Format5Negate(ConditionFormat5 { condition: OffsetMarker::new(b_condition(t, depth - 1)) }),
    }
}

fn b_feature_variations(t: &mut Tape) -> wt::layout::FeatureVariations {
    b_feature_variations_with(t, false)
}

/// `alt_params`: alternate features carry FeatureParams (listed finding: read back without, the reader resolves them
/// with the placeholder feature tag `NULL`). Known stage only.
fn b_feature_variations_with(t: &mut Tape, alt_params: bool) -> wt::layout::FeatureVariations {
    use wt::layout::*;
    let n = t.len(3);
    FeatureVariations {
        feature_variation_records: (0..n)
            .map(|_| FeatureVariationRecord {
                condition_set: if t.chance(1, 4) { nullable(None) } else { nullable(Some(ConditionSet { conditions: (0..t.len(3)).map(|_| OffsetMarker::new(b_condition(t, 2))).collect() })) },
                feature_table_substitution: if t.chance(1, 4) {
                    nullable(None)
                } else {
                    nullable(Some(FeatureTableSubstitution { substitutions: (0..t.len(3)).map(|_| FeatureTableSubstitutionRecord { feature_index: t.u16(), alternate_feature: OffsetMarker::new(b_feature(t, alt_params)) }).collect() }))
                },
            })
            .collect(),
    }
}

fn b_gsub(t: &mut Tape, alt_params: bool) -> wt::gsub::Gsub {
    let lookups = (0..t.len(3)).map(|_| OffsetMarker::new(b_gsub_lookup(t))).collect();
    let fv = if alt_params || t.chance(1, 3) {
        t.lab_nd("v1.1");
        Some(b_feature_variations_with(t, alt_params))
    } else {
        None
    };
    wt::gsub::Gsub {
        script_list: OffsetMarker::new(b_script_list(t)),
        feature_list: OffsetMarker::new(b_feature_list(t)),
        lookup_list: OffsetMarker::new(wt::layout::LookupList { lookups }),
        feature_variations: nullable(fv),
    }
}

fn b_gpos(t: &mut Tape) -> wt::gpos::Gpos {
    let lookups = (0..t.len(3)).map(|_| OffsetMarker::new(b_gpos_lookup(t))).collect();
    let fv = if t.chance(1, 3) {
        t.lab_nd("v1.1");
        Some(b_feature_variations(t))
    } else {
        None
    };
    wt::gpos::Gpos {
        script_list: OffsetMarker::new(b_script_list(t)),
        feature_list: OffsetMarker::new(b_feature_list(t)),
        lookup_list: OffsetMarker::new(wt::layout::LookupList { lookups }),
        feature_variations: nullable(fv),
    }
}

// ---- GDEF ---------------------------------------------------------------------------------------

fn b_gdef(t: &mut Tape) -> wt::gdef::Gdef {
    use wt::gdef::*;
    let mut g = Gdef::default();
    if t.bool() {
        let k = t.len(4);
        g.glyph_class_def = nullable(Some(b_classdef(t, k).0));
    }
    if t.bool() {
        let (cov, n) = b_cov(t, 4);
        g.attach_list = nullable(Some(AttachList { coverage: OffsetMarker::new(cov), attach_points: (0..n).map(|_| OffsetMarker::new(AttachPoint { point_indices: b_u16s(t, 4) })).collect() }));
    }
    if t.bool() {
        let (cov, n) = b_cov(t, 4);
        let ligs = (0..n)
            .map(|_| {
                OffsetMarker::new(LigGlyph {
                    caret_values: (0..t.len(3))
                        .map(|_| {
                            OffsetMarker::new(match t.below(3) {
                                0 => CaretValue::Format1(CaretValueFormat1 { coordinate: t.i16() }),
                                1 => CaretValue::Format2(CaretValueFormat2 { caret_value_point_index: t.u16() }),
                                _ => CaretValue::Format3(CaretValueFormat3 { coordinate: t.i16(), device: OffsetMarker::new(b_dev_or_var(t)) }),
                            })
                        })
                        .collect(),
                })
            })
            .collect();
        g.lig_caret_list = nullable(Some(LigCaretList { coverage: OffsetMarker::new(cov), lig_glyphs: ligs }));
    }
    if t.bool() {
        let k = t.len(3);
        g.mark_attach_class_def = nullable(Some(b_classdef(t, k).0));
    }
    let ver = t.below(3);
    if ver >= 1 && t.chance(3, 4) {
        g.mark_glyph_sets_def = nullable(Some(MarkGlyphSets { coverages: (0..t.len(3)).map(|_| OffsetMarker::new(b_cov(t, 5).0)).collect() }));
    }
    if ver >= 2 {
        g.item_var_store = nullable(Some(b_ivs(t)));
    }
    t.lab(if g.item_var_store.is_some() { "v1.3" } else if g.mark_glyph_sets_def.is_some() { "v1.2" } else { "v1.0" });
    t.nondefault |= g.item_var_store.is_some() || g.mark_glyph_sets_def.is_some();
    g
}

// ---- COLR ---------------------------------------------------------------------------------------

fn b_color_line(t: &mut Tape) -> wt::colr::ColorLine {
    use wt::colr::*;
    let n = t.len(4);
    ColorLine { extend: [Extend::Pad, Extend::Repeat, Extend::Reflect][t.below(3) as usize], num_stops: n as u16, color_stops: (0..n).map(|_| ColorStop { stop_offset: t.f2(), palette_index: t.u16(), alpha: t.f2() }).collect() }
}
fn b_var_color_line(t: &mut Tape) -> wt::colr::VarColorLine {
    use wt::colr::*;
    let n = t.len(4);
    VarColorLine {
        extend: [Extend::Pad, Extend::Repeat, Extend::Reflect][t.below(3) as usize],
        num_stops: n as u16,
        color_stops: (0..n).map(|_| VarColorStop { stop_offset: t.f2(), palette_index: t.u16(), alpha: t.f2(), var_index_base: t.u32() }).collect(),
    }
}

fn b_paint(t: &mut Tape, depth: u32) -> wt::colr::Paint {
    use wt::colr::*;
    // leaves: 0..=10; with children: 11..=31
    let k = if depth == 0 { t.below(11) } else { t.below(32) };
    let child = |t: &mut Tape| OffsetMarker::new(b_paint(t, depth - 1));
    match k {
        0 => Paint::ColrLayers(PaintColrLayers { num_layers: t.u8(), first_layer_index: t.u32() }),
        1 => Paint::Solid(PaintSolid { palette_index: t.u16(), alpha: t.f2() }),
        2 => Paint::VarSolid(PaintVarSolid { palette_index: t.u16(), alpha: t.f2(), var_index_base: t.u32() }),
        3 => Paint::LinearGradient(PaintLinearGradient { color_line: OffsetMarker::new(b_color_line(t)), x0: t.fword(), y0: t.fword(), x1: t.fword(), y1: t.fword(), x2: t.fword(), y2: t.fword() }),
        4 => Paint::VarLinearGradient(PaintVarLinearGradient { color_line: OffsetMarker::new(b_var_color_line(t)), x0: t.fword(), y0: t.fword(), x1: t.fword(), y1: t.fword(), x2: t.fword(), y2: t.fword(), var_index_base: t.u32() }),
        5 => Paint::RadialGradient(PaintRadialGradient { color_line: OffsetMarker::new(b_color_line(t)), x0: t.fword(), y0: t.fword(), radius0: t.ufword(), x1: t.fword(), y1: t.fword(), radius1: t.ufword() }),
        6 => Paint::VarRadialGradient(PaintVarRadialGradient {
            color_line: OffsetMarker::new(b_var_color_line(t)),
            x0: t.fword(),
            y0: t.fword(),
            radius0: t.ufword(),
            x1: t.fword(),
            y1: t.fword(),
            radius1: t.ufword(),
            var_index_base: t.u32(),
        }),
        7 => Paint::SweepGradient(PaintSweepGradient { color_line: OffsetMarker::new(b_color_line(t)), center_x: t.fword(), center_y: t.fword(), start_angle: t.f2(), end_angle: t.f2() }),
        8 => Paint::VarSweepGradient(PaintVarSweepGradient { color_line: OffsetMarker::new(b_var_color_line(t)), center_x: t.fword(), center_y: t.fword(), start_angle: t.f2(), end_angle: t.f2(), var_index_base: t.u32() }),
        9 => Paint::ColrGlyph(PaintColrGlyph { glyph_id: t.gid() }),
        10 => Paint::Solid(PaintSolid { palette_index: 0xFFFF, alpha: F2Dot14::from_bits(0x4000) }),
        11 => Paint::Glyph(PaintGlyph { paint: child(t), glyph_id: t.gid() }),
        12 => Paint::Transform(PaintTransform { paint: child(t), transform: OffsetMarker::new(Affine2x3 { xx: t.fixed(), yx: t.fixed(), xy: t.fixed(), yy: t.fixed(), dx: t.fixed(), dy: t.fixed() }) }),
        13 => Paint::VarTransform(PaintVarTransform {
            paint: child(t),
            transform: OffsetMarker::new(VarAffine2x3 { xx: t.fixed(), yx: t.fixed(), xy: t.fixed(), yy: t.fixed(), dx: t.fixed(), dy: t.fixed(), var_index_base: t.u32() }),
        }),
        14 => Paint::Translate(PaintTranslate { paint: child(t), dx: t.fword(), dy: t.fword() }),
        15 => Paint::VarTranslate(PaintVarTranslate { paint: child(t), dx: t.fword(), dy: t.fword(), var_index_base: t.u32() }),
        16 => Paint::Scale(PaintScale { paint: child(t), scale_x: t.f2(), scale_y: t.f2() }),
        17 => Paint::VarScale(PaintVarScale { paint: child(t), scale_x: t.f2(), scale_y: t.f2(), var_index_base: t.u32() }),
        18 => Paint::ScaleAroundCenter(PaintScaleAroundCenter { paint: child(t), scale_x: t.f2(), scale_y: t.f2(), center_x: t.fword(), center_y: t.fword() }),
        19 => Paint::VarScaleAroundCenter(PaintVarScaleAroundCenter { paint: child(t), scale_x: t.f2(), scale_y: t.f2(), center_x: t.fword(), center_y: t.fword(), var_index_base: t.u32() }),
        20 => Paint::ScaleUniform(PaintScaleUniform { paint: child(t), scale: t.f2() }),
        21 => Paint::VarScaleUniform(PaintVarScaleUniform { paint: child(t), scale: t.f2(), var_index_base: t.u32() }),
        22 => Paint::ScaleUniformAroundCenter(PaintScaleUniformAroundCenter { paint: child(t), scale: t.f2(), center_x: t.fword(), center_y: t.fword() }),
        23 => Paint::VarScaleUniformAroundCenter(PaintVarScaleUniformAroundCenter { paint: child(t), scale: t.f2(), center_x: t.fword(), center_y: t.fword(), var_index_base: t.u32() }),
        24 => Paint::Rotate(PaintRotate { paint: child(t), angle: t.f2() }),
        25 => Paint::VarRotate(PaintVarRotate { paint: child(t), angle: t.f2(), var_index_base: t.u32() }),
        26 => Paint::RotateAroundCenter(PaintRotateAroundCenter { paint: child(t), angle: t.f2(), center_x: t.fword(), center_y: t.fword() }),
        27 => Paint::VarRotateAroundCenter(PaintVarRotateAroundCenter { paint: child(t), angle: t.f2(), center_x: t.fword(), center_y: t.fword(), var_index_base: t.u32() }),
        28 => Paint::Skew(PaintSkew { paint: child(t), x_skew_angle: t.f2(), y_skew_angle: t.f2() }),
        29 => {
            if t.bool() {
                Paint::VarSkew(PaintVarSkew { paint: child(t), x_skew_angle: t.f2(), y_skew_angle: t.f2(), var_index_base: t.u32() })
            } else {
                Paint::SkewAroundCenter(PaintSkewAroundCenter { paint: child(t), x_skew_angle: t.f2(), y_skew_angle: t.f2(), center_x: t.fword(), center_y: t.fword() })
            }
        }
        30 => Paint::VarSkewAroundCenter(PaintVarSkewAroundCenter { paint: child(t), x_skew_angle: t.f2(), y_skew_angle: t.f2(), center_x: t.fword(), center_y: t.fword(), var_index_base: t.u32() }),
        _ => {
            let modes = [CompositeMode::Clear, CompositeMode::Src, CompositeMode::SrcOver, CompositeMode::Xor, CompositeMode::Multiply, CompositeMode::HslLuminosity];
            Paint::Composite(PaintComposite { source_paint: child(t), composite_mode: modes[t.below(modes.len() as u32) as usize], backdrop_paint: child(t) })
        }
    }
}

fn b_colr(t: &mut Tape) -> wt::colr::Colr {
    use wt::colr::*;
    let mut c = Colr::default();
    if t.chance(3, 4) {
        let nb = t.len(4);
        let gids = t.glyph_set(nb);
        let nl = t.len(6);
        c.num_base_glyph_records = gids.len() as u16;
        c.base_glyph_records = nullable(Some(gids.iter().map(|g| BaseGlyph { glyph_id: *g, first_layer_index: t.below(nl as u32 + 1) as u16, num_layers: t.below(3) as u16 }).collect()));
        c.num_layer_records = nl as u16;
        c.layer_records = nullable(Some((0..nl).map(|_| Layer { glyph_id: t.gid(), palette_index: t.u16() }).collect()));
    }
    let v1 = t.bool();
    if v1 {
        let which = 1 + t.below(31);
        if which & 1 != 0 {
            let n = t.len(3);
            let gids = t.glyph_set(n);
            c.base_glyph_list = nullable(Some(BaseGlyphList { num_base_glyph_paint_records: gids.len() as u32, base_glyph_paint_records: gids.iter().map(|g| BaseGlyphPaint { glyph_id: *g, paint: OffsetMarker::new(b_paint(t, 3)) }).collect() }));
        }
        if which & 2 != 0 {
            let n = t.len(3);
            c.layer_list = nullable(Some(LayerList { num_layers: n as u32, paints: (0..n).map(|_| OffsetMarker::new(b_paint(t, 2))).collect() }));
        }
        if which & 4 != 0 {
            let n = t.len(3);
            let gids = t.glyph_set(n * 2);
            let clips: Vec<Clip> = gids
                .chunks_exact(2)
                .map(|p| Clip {
                    start_glyph_id: p[0],
                    end_glyph_id: p[1],
                    clip_box: OffsetMarker::new(if t.bool() {
                        ClipBox::Format1(ClipBoxFormat1 { x_min: t.fword(), y_min: t.fword(), x_max: t.fword(), y_max: t.fword() })
                    } else {
                        ClipBox::Format2(ClipBoxFormat2 { x_min: t.fword(), y_min: t.fword(), x_max: t.fword(), y_max: t.fword(), var_index_base: t.u32() })
                    }),
                })
                .collect();
            c.clip_list = nullable(Some(ClipList { format: 1, num_clips: clips.len() as u32, clips }));
        }
        if which & 8 != 0 {
            c.var_index_map = nullable(Some(b_dsim(t)));
        }
        if which & 16 != 0 {
            c.item_variation_store = nullable(Some(b_ivs(t)));
        }
        t.lab_nd("v1");
        for (bit, name) in ["base-glyph-list", "layer-list", "clip-list", "var-index-map", "var-store"].iter().enumerate() {
            if which & (1 << bit) != 0 {
                t.lab(name);
            }
        }
    } else {
        t.lab("v0");
    }
    c
}

// ---- cmap ---------------------------------------------------------------------------------------

fn b_map_groups(t: &mut Tape, max: usize) -> Vec<(u32, u32, u32)> {
    let n = t.len(max);
    let mut cur = if t.chance(1, 6) { 0x10FFFF - 40 } else { t.below(0x3000) };
    let mut out = vec![];
    for _ in 0..n {
        let len = t.below(6);
        out.push((cur, cur + len, t.u32()));
        cur += len + 1 + t.below(50);
    }
    out
}

fn b_cmap_subtable(t: &mut Tape) -> wt::cmap::CmapSubtable {
    use wt::cmap::*;
    match t.below(7) {
        0 => {
            t.lab("f0");
            CmapSubtable::Format0(Cmap0 { language: t.u16(), glyph_id_array: t.bytes(256) })
        }
        1 => {
            t.lab("f4");
            // segments: increasing, last one 0xFFFF
            let n = t.len(5);
            let mut start = vec![];
            let mut end = vec![];
            let mut cur = t.below(200);
            for _ in 0..n {
                let len = t.below(20);
                start.push(cur as u16);
                end.push((cur + len) as u16);
                cur += len + 1 + t.below(300);
            }
            start.push(0xFFFF);
            end.push(0xFFFF);
            let segs = start.len();
            let ngids = if t.bool() { 0 } else { t.len(8) };
            Cmap4 {
                language: t.u16(),
                end_code: end,
                start_code: start,
                id_delta: (0..segs).map(|_| t.i16()).collect(),
                id_range_offsets: (0..segs).map(|i| if ngids > 0 && t.bool() { ((segs - i) * 2) as u16 } else { 0 }).collect(),
                glyph_id_array: (0..ngids).map(|_| t.u16()).collect(),
            }
            .into()
        }
        2 => {
            t.lab("f6");
            let n = t.len_big(8, 300);
            CmapSubtable::Format6(Cmap6 { length: (10 + 2 * n) as u16, language: t.u16(), first_code: t.u16(), entry_count: n as u16, glyph_id_array: (0..n).map(|_| t.u16()).collect() })
        }
        3 => {
            t.lab("f12");
            let g = b_map_groups(t, 6);
            CmapSubtable::Format12(Cmap12 { language: t.u32(), groups: g.into_iter().map(|(s, e, g)| SequentialMapGroup { start_char_code: s, end_char_code: e, start_glyph_id: g }).collect() })
        }
        4 => {
            t.lab("f13");
            let g = b_map_groups(t, 6);
            CmapSubtable::Format13(Cmap13 {
                length: (16 + 12 * g.len()) as u32,
                language: t.u32(),
                num_groups: g.len() as u32,
                groups: g.into_iter().map(|(s, e, g)| ConstantMapGroup { start_char_code: s, end_char_code: e, glyph_id: g }).collect(),
            })
        }
        5 => {
            t.lab("f10");
            let n = t.len(8);
            CmapSubtable::Format10(Cmap10 { length: (20 + 2 * n) as u32, language: t.u32(), start_char_code: t.u32(), num_chars: n as u32, glyph_id_array: (0..n).map(|_| t.u16()).collect() })
        }
        _ => {
            t.lab("f14");
            let n = t.len(4);
            let mut sel = 0xFE00 + t.below(4);
            let recs: Vec<VariationSelector> = (0..n)
                .map(|_| {
                    sel += 1 + t.below(3);
                    let d = if t.bool() {
                        let k = t.len(3);
                        Some(DefaultUvs { num_unicode_value_ranges: k as u32, ranges: (0..k).map(|_| UnicodeRange { start_unicode_value: t.u24(), additional_count: t.u8() }).collect() })
                    } else {
                        None
                    };
                    let nd = if t.bool() {
                        let k = t.len(3);
                        Some(NonDefaultUvs { num_uvs_mappings: k as u32, uvs_mapping: (0..k).map(|_| UvsMapping { unicode_value: t.u24(), glyph_id: t.u16() }).collect() })
                    } else {
                        None
                    };
                    VariationSelector { var_selector: Uint24::new(sel), default_uvs: nullable(d), non_default_uvs: nullable(nd) }
                })
                .collect();
            CmapSubtable::Format14(Cmap14 { length: (10 + 11 * recs.len()) as u32, num_var_selector_records: recs.len() as u32, var_selector: recs })
        }
    }
}

fn b_cmap(t: &mut Tape) -> wt::cmap::Cmap {
    use wt::cmap::*;
    let n = t.len(3);
    let plats = [PlatformId::Unicode, PlatformId::Macintosh, PlatformId::Windows, PlatformId::ISO, PlatformId::Custom];
    let recs = (0..n).map(|_| EncodingRecord { platform_id: plats[t.below(5) as usize], encoding_id: t.below(11) as u16, subtable: OffsetMarker::new(b_cmap_subtable(t)) }).collect();
    Cmap { encoding_records: recs }
}

// ---- BASE ---------------------------------------------------------------------------------------

fn b_base_coord(t: &mut Tape) -> wt::base::BaseCoord {
    use wt::base::*;
    match t.below(3) {
        0 => BaseCoord::Format1(BaseCoordFormat1 { coordinate: t.i16() }),
        1 => BaseCoord::Format2(BaseCoordFormat2 { coordinate: t.i16(), reference_glyph: t.u16(), base_coord_point: t.u16() }),
        _ => BaseCoord::Format3(BaseCoordFormat3 { coordinate: t.i16(), device: if t.bool() { nullable(Some(b_dev_or_var(t))) } else { nullable(None) } }),
    }
}
fn b_opt_coord(t: &mut Tape) -> NullableOffsetMarker<wt::base::BaseCoord> {
    if t.bool() {
        nullable(Some(b_base_coord(t)))
    } else {
        nullable(None)
    }
}
fn b_min_max(t: &mut Tape, depth: u32) -> wt::base::MinMax {
    use wt::base::*;
    let n = if depth == 0 { 0 } else { t.len(2) };
    let mut recs: Vec<FeatMinMaxRecord> = (0..n)
        .map(|_| FeatMinMaxRecord {
            feature_table_tag: t.tag(),
            min_coord: if t.bool() { nullable(Some(b_min_max(t, depth - 1))) } else { nullable(None) },
            max_coord: if t.bool() { nullable(Some(b_min_max(t, depth - 1))) } else { nullable(None) },
        })
        .collect();
    recs.sort_by_key(|r| r.feature_table_tag);
    MinMax { min_coord: b_opt_coord(t), max_coord: b_opt_coord(t), feat_min_max_records: recs }
}
fn b_base_axis(t: &mut Tape) -> wt::base::Axis {
    use wt::base::*;
    let ntags = t.len(3);
    let mut tags: Vec<Tag> = (0..ntags).map(|_| t.tag()).collect();
    tags.sort();
    let mut scripts: Vec<BaseScriptRecord> = (0..t.len(3))
        .map(|_| {
            let values = if t.bool() { Some(BaseValues { default_baseline_index: t.u16(), base_coords: (0..ntags).map(|_| OffsetMarker::new(b_base_coord(t))).collect() }) } else { None };
            let mut langs: Vec<BaseLangSysRecord> = (0..t.len(2)).map(|_| BaseLangSysRecord { base_lang_sys_tag: t.tag(), min_max: OffsetMarker::new(b_min_max(t, 1)) }).collect();
            langs.sort_by_key(|l| l.base_lang_sys_tag);
            BaseScriptRecord {
                base_script_tag: t.tag(),
                base_script: OffsetMarker::new(BaseScript { base_values: nullable(values), default_min_max: if t.bool() { nullable(Some(b_min_max(t, 1))) } else { nullable(None) }, base_lang_sys_records: langs }),
            }
        })
        .collect();
    scripts.sort_by_key(|s| s.base_script_tag);
    Axis { base_tag_list: if ntags == 0 && t.bool() { nullable(None) } else { nullable(Some(BaseTagList { baseline_tags: tags })) }, base_script_list: OffsetMarker::new(BaseScriptList { base_script_records: scripts }) }
}
fn b_base(t: &mut Tape) -> wt::base::Base {
    let h = if t.chance(3, 4) { Some(b_base_axis(t)) } else { None };
    let v = if t.chance(1, 3) { Some(b_base_axis(t)) } else { None };
    let ivs = if t.chance(1, 3) { Some(b_ivs(t)) } else { None };
    t.lab(if ivs.is_some() { "v1.1" } else { "v1.0" });
    t.nondefault |= ivs.is_some();
    wt::base::Base { horiz_axis: nullable(h), vert_axis: nullable(v), item_var_store: nullable(ivs) }
}

// ---- gvar ---------------------------------------------------------------------------------------
// write-fonts has no owned read-back type for gvar: the value written is the builder input (per glyph: tuples of tents
// and per-point deltas with required flags); the compiled table is read with read-fonts and every tuple's peak,
// intermediate region, point set and deltas are compared with the input. The re-dump is the table rebuilt from what
// was read back.

#[derive(Clone, Debug, PartialEq)]
struct MTuple {
    /// (min, peak, max) per axis, F2Dot14 bits
    tents: Vec<(i16, i16, i16)>,
    /// (x, y, required) per point
    deltas: Vec<(i16, i16, bool)>,
}

const STRADDLE: &[usize] = &[62, 63, 64, 65, 66, 126, 127, 128, 129, 130, 254, 255, 256, 257, 258];

fn b_gvar_model(t: &mut Tape) -> (u16, Vec<Vec<MTuple>>) {
    let axes = 1 + t.below(3) as usize;
    // a small pool of tents so that peaks are shared between glyphs (shared tuples) and within them
    let npool = 1 + t.below(4) as usize;
    let pool: Vec<Vec<(i16, i16, i16)>> = (0..npool)
        .map(|_| {
            (0..axes)
                .map(|_| {
                    let peak = match t.below(5) {
                        0 => 0x4000,
                        1 => -0x4000,
                        2 => 0,
                        _ => (t.below(0x8001) as i32 - 0x4000) as i16,
                    };
                    if t.chance(1, 3) {
                        // explicit intermediate region
                        let lo = (t.below(0x8001) as i32 - 0x4000) as i16;
                        let hi = (t.below(0x8001) as i32 - 0x4000) as i16;
                        (lo.min(peak), peak, hi.max(peak))
                    } else {
                        (peak.min(0), peak, peak.max(0))
                    }
                })
                .collect()
        })
        .collect();
    let nglyphs = t.len(3);
    let glyphs = (0..nglyphs)
        .map(|_| {
            let ntuples = t.len(3);
            // number of required (explicit) points of the glyph's point sets, then the total
            let r_of = |t: &mut Tape| match t.below(4) {
                0 => t.below(6) as usize,
                _ => STRADDLE[t.below(STRADDLE.len() as u32) as usize],
            };
            let r0 = r_of(t);
            let n = match t.below(5) {
                0 => r0,
                1 => r0 + 1 + t.below(4) as usize,
                2 => r0 * 2 + t.below(20) as usize,
                _ => r0 * 3 + 40 + t.below(60) as usize,
            };
            // two candidate point sets (shared point numbers need the same set in >= 2 tuples)
            let mk_set = |t: &mut Tape, r: usize| -> Vec<bool> {
                let r = r.min(n);
                let mut req = vec![false; n];
                match t.below(3) {
                    0 => req.iter_mut().take(r).for_each(|x| *x = true), // leading block
                    1 => {
                        // evenly spread (gaps > 255 need word-sized point runs)
                        for k in 0..r {
                            req[k * n / r.max(1)] = true;
                        }
                    }
                    _ => req.iter_mut().rev().take(r).for_each(|x| *x = true), // trailing block
                }
                req
            };
            let set_a = mk_set(t, r0);
            let rb = r_of(t);
            let set_b = mk_set(t, rb);
            (0..ntuples)
                .map(|_| {
                    let tents = pool[t.below(npool as u32) as usize].clone();
                    let req = match t.below(4) {
                        0 => vec![true; n],
                        1 => set_b.clone(),
                        _ => set_a.clone(),
                    };
                    // run-structured delta values: zero / byte / word runs with lengths straddling 63/64/65
                    let mut vals: Vec<(i16, i16)> = Vec::with_capacity(n);
                    while vals.len() < n {
                        let len = match t.below(3) {
                            0 => 1 + t.below(4) as usize,
                            _ => STRADDLE[t.below(5) as usize], // 62..66
                        };
                        let kind = (t.below(3), t.below(3));
                        for _ in 0..len.min(n - vals.len()) {
                            let v = |k: u32, t: &mut Tape| match k {
                                0 => 0i16,
                                1 => (t.below(255) as i32 - 127) as i16,
                                _ => {
                                    let w = t.i16();
                                    if (-128..=127).contains(&w) {
                                        w.wrapping_add(300)
                                    } else {
                                        w
                                    }
                                }
                            };
                            vals.push((v(kind.0, t), v(kind.1, t)));
                        }
                    }
                    MTuple { tents, deltas: vals.into_iter().zip(req).map(|((x, y), r)| (x, y, r)).collect() }
                })
                .collect()
        })
        .collect();
    (axes as u16, glyphs)
}

fn build_gvar(axes: u16, glyphs: &[Vec<MTuple>]) -> Result<wt::gvar::Gvar, String> {
    use read_fonts::types::GlyphId;
    use wt::gvar::*;
    let vars = glyphs
        .iter()
        .enumerate()
        .map(|(g, tuples)| {
            GlyphVariations::new(
                GlyphId::new(g as u32),
                tuples
                    .iter()
                    .map(|m| {
                        GlyphDeltas::new(
                            m.tents.iter().map(|(lo, pk, hi)| Tent::new(F2Dot14::from_bits(*pk), Some((F2Dot14::from_bits(*lo), F2Dot14::from_bits(*hi))))).collect(),
                            m.deltas.iter().map(|(x, y, r)| GlyphDelta::new(*x, *y, *r)).collect(),
                        )
                    })
                    .collect(),
            )
        })
        .collect();
    Gvar::new(vars, axes).map_err(|e| format!("{e:?}"))
}

fn test_gvar(t: &mut Tape, stats: &Stats) -> CaseResult {
    use read_fonts::types::GlyphId;
    let (axes, model) = b_gvar_model(t);
    stats.class("gen:gvar");
    let gv = match build_gvar(axes, &model) {
        Ok(g) => g,
        Err(_) => {
            stats.class("s1:gvar:invalid");
            return Ok(());
        }
    };
    if gv.validate().is_err() {
        stats.class("s1:gvar:invalid");
        return Ok(());
    }
    let b = match guarded(|| dump_table(&gv)) {
        Err(p) => return Err(fail(format!("c04|dump-panic|gvar|{}", panic_site(&p)), format!("dump_table panicked on a valid gvar: {}", p.msg))),
        Ok(Err(_)) => {
            stats.class("s1:gvar:dump_err");
            return Ok(());
        }
        Ok(Ok(b)) => b,
    };
    let bad = |what: &str, msg: String| fail(format!("c04|roundtrip|gvar|{what}"), format!("gvar: {msg}"));
    let rd = guarded(|| read_fonts::tables::gvar::Gvar::read(FontData::new(&b)))
        .map_err(|p| fail(format!("c04|reread-panic|gvar|{}", panic_site(&p)), p.msg.clone()))?
        .map_err(|e| fail("c04|reread-err|gvar".into(), format!("compiled gvar ({} bytes) does not read back: {e}", b.len())))?;
    if rd.axis_count() != axes || rd.glyph_count() as usize != model.len() {
        return Err(bad("header", format!("axis_count {} / glyph_count {} read back, {axes} / {} written", rd.axis_count(), rd.glyph_count(), model.len())));
    }
    let mut readback = model.clone();
    for (g, tuples) in model.iter().enumerate() {
        let at = |ti: usize| format!("glyph {g} tuple {ti}");
        let vd = guarded(|| rd.glyph_variation_data(GlyphId::new(g as u32)))
            .map_err(|p| fail(format!("c04|reread-panic|gvar|{}", panic_site(&p)), p.msg.clone()))?
            .map_err(|e| fail("c04|reread-err|gvar".into(), format!("glyph_variation_data({g}): {e}")))?;
        let rt: Vec<_> = vd.as_ref().map(|v| v.tuples().take(5000).collect()).unwrap_or_default();
        if rt.len() != tuples.len() {
            return Err(bad("tuple-count", format!("glyph {g}: {} tuples written, {} read back", tuples.len(), rt.len())));
        }
        for (ti, (m, r)) in tuples.iter().zip(&rt).enumerate() {
            let bits = |tu: &read_fonts::tables::variations::Tuple| -> Vec<i16> { tu.values.iter().map(|v| v.get().to_bits()).collect() };
            let peak: Vec<i16> = m.tents.iter().map(|x| x.1).collect();
            if bits(&r.peak()) != peak {
                return Err(bad("peak", format!("{}: peak {:?} written, {:?} read back", at(ti), peak, bits(&r.peak()))));
            }
            let needs = m.tents.iter().any(|(lo, pk, hi)| (*lo, *hi) != ((*pk).min(0), (*pk).max(0)));
            let inter = match (r.intermediate_start(), r.intermediate_end()) {
                (Some(a), Some(b)) => Some((bits(&a), bits(&b))),
                (None, None) => None,
                _ => return Err(bad("intermediate", format!("{}: only one intermediate tuple read back", at(ti)))),
            };
            let want = needs.then(|| (m.tents.iter().map(|x| x.0).collect::<Vec<_>>(), m.tents.iter().map(|x| x.2).collect::<Vec<_>>()));
            if inter != want {
                return Err(bad("intermediate", format!("{}: intermediate region {want:?} written, {inter:?} read back", at(ti))));
            }
            if needs {
                stats.class("gen:gvar:intermediate");
            }
            let n = m.deltas.len();
            let got: Vec<(u16, i32, i32)> = r.deltas().take(n + 8).map(|d| (d.position, d.x_delta, d.y_delta)).collect();
            let required: Vec<usize> = (0..n).filter(|i| m.deltas[*i].2).collect();
            let all = r.has_deltas_for_all_points();
            // the writer may encode all points (then every delta is written) or exactly the required points
            let positions: Vec<usize> = if all { (0..n).collect() } else { required.clone() };
            if !all && (required.is_empty() || required.len() == n) {
                return Err(bad("points", format!("{}: explicit point numbers read back although {} of {n} points are required", at(ti), required.len())));
            }
            if !all {
                let pts: Vec<usize> = r.point_numbers().take(n + 8).map(|p| p as usize).collect();
                if pts != required {
                    let k = pts.iter().zip(&required).position(|(a, b)| a != b);
                    return Err(bad("points", format!("{}: {} point numbers written, {} read back (first difference at index {k:?})", at(ti), required.len(), pts.len())));
                }
                stats.class(match required.len() {
                    0..=126 => "gen:gvar:explicit-points<127",
                    127..=129 => "gen:gvar:explicit-points=127..129",
                    130..=254 => "gen:gvar:explicit-points=130..254",
                    255..=257 => "gen:gvar:explicit-points=255..257",
                    _ => "gen:gvar:explicit-points>257",
                });
                if required.len() == 128 {
                    stats.class("gen:gvar:explicit-points=128");
                }
            } else {
                stats.class("gen:gvar:all-points");
            }
            let want: Vec<(u16, i32, i32)> = positions.iter().map(|p| (*p as u16, m.deltas[*p].0 as i32, m.deltas[*p].1 as i32)).collect();
            if got != want {
                let k = got.iter().zip(&want).position(|(a, b)| a != b);
                return Err(bad(
                    "deltas",
                    format!("{}: {} deltas written ({} points, all-points {all}), {} read back; first difference at {k:?}: written {:?}, read back {:?}", at(ti), want.len(), n, got.len(), k.and_then(|k| want.get(k)), k.and_then(|k| got.get(k))),
                ));
            }
            for (p, x, y) in &got {
                let d = &mut readback[g][ti].deltas[*p as usize];
                d.0 = *x as i16;
                d.1 = *y as i16;
            }
        }
        if vd.as_ref().map(|v| v.tuples().count()).unwrap_or(0) >= 2 && tuples.len() >= 2 {
            stats.class("gen:gvar:multi-tuple");
        }
    }
    // re-dump: the table rebuilt from what was read back compiles to the same bytes
    let b2 = build_gvar(axes, &readback).ok().and_then(|g| guarded(|| dump_table(&g)).ok().and_then(|r| r.ok()));
    if b2.as_deref() != Some(&b[..]) {
        return Err(fail("c04|redump-bytes|gvar".into(), "gvar rebuilt from the values read back compiles to different bytes".into()));
    }
    if rd.shared_tuple_count() > 0 {
        stats.class("gen:gvar:shared-tuples");
    }
    stats.class("s1:gen_ok");
    if model.iter().any(|g| !g.is_empty()) {
        stats.nontrivial(fnv64(&b));
    } else {
        stats.class("gen:trivial");
    }
    Ok(())
}

// ---- sbix ---------------------------------------------------------------------------------------

/// Flags always contain ALWAYS_SET (the specification requires bit 0 and the writer computes it); both settings of
/// DRAW_OUTLINES.
fn b_sbix(t: &mut Tape) -> wt::sbix::Sbix {
    use wt::sbix::*;
    let bits = 1 | ((t.bool() as u16) << 1);
    t.lab(if bits == 3 { "draw-outlines" } else { "flags=1" });
    let ng = t.len_big(6, 300);
    let ns = t.len(3);
    let strikes = (0..ns)
        .map(|_| {
            // offsets are raw numbers in the owned type: increasing, equal neighbours = empty glyph
            let mut cur = 4 * (ng as u32 + 1) + 4;
            let offs = (0..=ng)
                .map(|_| {
                    let o = cur;
                    cur += if t.bool() { 0 } else { 8 + t.below(40) };
                    o
                })
                .collect();
            Strike::new(t.u16(), t.u16(), offs)
        })
        .collect();
    Sbix::new(HeaderFlags::from_bits_truncate(bits), strikes)
}

fn b_sbix_glyph(t: &mut Tape) -> wt::sbix::GlyphData {
    let tag = [b"png ", b"jpg ", b"tiff", b"dupe", b"flip", b"pdf "][t.below(6) as usize];
    t.lab(std::str::from_utf8(tag).unwrap().trim());
    let n = if tag == b"dupe" { 2 } else { t.len_big(12, 600) };
    wt::sbix::GlyphData::new(t.i16(), t.i16(), Tag::new(tag), t.bytes(n))
}

// ---- meta: indexed access to script/lang tags ----------------------------------------------------

/// Indexed access: `VarLenArray<ScriptLangTag>::get(i)` on the compiled table returns the i-th written tag.
fn check_meta_get(v: &wt::meta::Meta, stats: &Stats) -> CaseResult {
    if v.validate().is_err() {
        return Ok(());
    }
    let Ok(Ok(b)) = guarded(|| dump_table(v)) else { return Ok(()) };
    let Ok(rd) = read_fonts::tables::meta::Meta::read(FontData::new(&b)) else { return Ok(()) };
    stats.class("gen:meta-get");
    for (rec, w) in rd.data_maps().iter().zip(&v.data_maps) {
        let (Ok(read_fonts::tables::meta::Metadata::ScriptLangTags(arr)), wt::meta::Metadata::ScriptLangTags(tags)) = (rec.data(rd.offset_data()), w.data.as_ref()) else { continue };
        for (i, tag) in tags.iter().enumerate() {
            let got = guarded(|| arr.get(i).and_then(|r| r.ok()).map(|s| s.as_str().to_string())).unwrap_or(None);
            if got.as_deref() != Some(tag.as_str()) {
                return Err(fail("c04|roundtrip|meta|script-lang-tag-get".into(), format!("meta {}: tag {i} of {:?} written as {:?}, VarLenArray::get({i}) reads {got:?}", rec.tag(), tags.iter().map(|t| t.as_str()).collect::<Vec<_>>(), tag.as_str())));
            }
        }
    }
    Ok(())
}

// ---- fragments: public FontWrite building blocks that are not tables ------------------------------
// PackedDeltas / PackedPointNumbers / TupleVariationHeader have no owned read-back type: the written value is the
// constructor input, read back with the read-fonts counterparts and compared value by value; the re-dump is the value
// rebuilt from what was read.

fn frag_dump<T: FontWrite + Validate>(kind: &str, v: &T) -> Result<Vec<u8>, Fail> {
    match guarded(|| dump_table(v)) {
        Err(p) => Err(fail(format!("c04|dump-panic|{kind}|{}", panic_site(&p)), format!("dump_table panicked on a {kind}: {}", p.msg))),
        Ok(Err(e)) => Err(fail(format!("c04|dump-err|{kind}"), format!("{kind} does not compile: {e}"))),
        Ok(Ok(b)) => Ok(b),
    }
}

fn test_packed_deltas(t: &mut Tape, stats: &Stats) -> CaseResult {
    use wt::variations::PackedDeltas;
    const I8S: &[i32] = &[1, -1, 127, -128, 5, -77];
    const I16S: &[i32] = &[128, -129, 300, 32767, -32768, -1000];
    const I32S: &[i32] = &[32768, -32769, 40000, i32::MAX, i32::MIN, -100_000, 65536];
    let mut vals: Vec<i32> = vec![];
    let nseg = t.len(8);
    let mut classes = 0u32;
    let mut prev_class = 9;
    for _ in 0..nseg {
        let class = t.below(4);
        let len = match t.below(4) {
            0 => 1,
            1 => 1 + t.below(3) as usize,
            2 => STRADDLE[t.below(5) as usize],       // 62..66
            _ => STRADDLE[5 + t.below(5) as usize],   // 126..130
        };
        classes |= 1 << class;
        if prev_class == 2 && class == 3 {
            stats.class("gen:PackedDeltas:i16-then-i32");
        }
        if prev_class == 3 && class == 2 {
            stats.class("gen:PackedDeltas:i32-then-i16");
        }
        prev_class = class;
        for _ in 0..len {
            vals.push(match class {
                0 => 0,
                1 => I8S[t.below(I8S.len() as u32) as usize],
                2 => I16S[t.below(I16S.len() as u32) as usize],
                _ => I32S[t.below(I32S.len() as u32) as usize],
            });
        }
    }
    stats.class("gen:PackedDeltas");
    let b = frag_dump("PackedDeltas", &PackedDeltas::new(vals.clone()))?;
    let got: Vec<i32> = guarded(|| read_fonts::tables::variations::PackedDeltas::consume_all(FontData::new(&b)).iter().take(vals.len() + 8).collect())
        .map_err(|p| fail(format!("c04|reread-panic|PackedDeltas|{}", panic_site(&p)), p.msg.clone()))?;
    if got != vals {
        let k = got.iter().zip(&vals).position(|(a, b)| a != b);
        return Err(fail(
            "c04|roundtrip|PackedDeltas|values".into(),
            format!("PackedDeltas: {} values written, {} read back; first difference at {k:?}: written {:?} (after {:?}), read back {:?}", vals.len(), got.len(), k.map(|k| vals[k]), k.and_then(|k| k.checked_sub(1)).map(|k| vals[k]), k.map(|k| got[k])),
        ));
    }
    let b2 = frag_dump("PackedDeltas", &PackedDeltas::new(got))?;
    if b2 != b {
        return Err(fail("c04|redump-bytes|PackedDeltas".into(), "PackedDeltas rebuilt from the values read back compiles to different bytes".into()));
    }
    stats.class("s1:gen_ok");
    if classes.count_ones() >= 2 {
        stats.nontrivial(fnv64(&b));
        if classes & 8 != 0 {
            stats.class("gen:PackedDeltas:has-i32");
        }
    } else {
        stats.class("gen:trivial");
    }
    Ok(())
}

fn test_packed_points(t: &mut Tape, stats: &Stats) -> CaseResult {
    use wt::variations::PackedPointNumbers as W;
    stats.class("gen:PackedPointNumbers");
    let pts: Option<Vec<u16>> = if t.chance(1, 8) {
        None
    } else {
        // count straddling 127/128, gaps straddling 255/256 (byte vs word runs), run lengths straddling 127/128
        let n = match t.below(4) {
            0 => 1 + t.below(5) as usize,
            1 => STRADDLE[t.below(5) as usize],
            _ => STRADDLE[5 + t.below(10) as usize],
        };
        let mut cur: u32 = if t.bool() { 0 } else { t.below(600) };
        let mut out = vec![];
        let mut mode = t.below(3);
        let mut left = 0usize;
        for _ in 0..n {
            if left == 0 {
                mode = t.below(3);
                left = match t.below(3) {
                    0 => 1 + t.below(3) as usize,
                    1 => STRADDLE[t.below(5) as usize],
                    _ => STRADDLE[5 + t.below(5) as usize],
                };
            }
            left -= 1;
            if cur > 0xFFFF {
                break;
            }
            out.push(cur as u16);
            cur += match mode {
                0 => 1,
                1 => 253 + t.below(5), // 253..257
                _ => 1 + t.below(40),
            };
        }
        Some(out)
    };
    let w = match &pts {
        None => W::All,
        Some(p) => W::Some(p.clone()),
    };
    let b = frag_dump("PackedPointNumbers", &w)?;
    let bad = |what: &str, msg: String| fail(format!("c04|roundtrip|PackedPointNumbers|{what}"), format!("PackedPointNumbers: {msg}"));
    let (count, rest, got) = guarded(|| {
        let (r, rest) = read_fonts::tables::variations::PackedPointNumbers::split_off_front(FontData::new(&b));
        (r.count(), rest.len(), r.iter().take(70_000).collect::<Vec<u16>>())
    })
    .map_err(|p| fail(format!("c04|reread-panic|PackedPointNumbers|{}", panic_site(&p)), p.msg.clone()))?;
    let want = pts.clone().unwrap_or_default();
    if count as usize != want.len() {
        return Err(bad("count", format!("{} points written, count {count} read back", want.len())));
    }
    if rest != 0 {
        return Err(bad("length", format!("{} bytes written, the reader consumes {} of them", b.len(), b.len() - rest)));
    }
    // a count of 0 means "all points": the reader's iterator then enumerates every point number, by design
    if pts.is_some() && got != want {
        let k = got.iter().zip(&want).position(|(a, b)| a != b);
        return Err(bad("points", format!("{} points written, {} read back; first difference at {k:?}: written {:?}, read back {:?}", want.len(), got.len(), k.map(|k| want[k]), k.map(|k| got[k]))));
    }
    if pts.is_none() && got.len() < 65_535 {
        return Err(bad("points", format!("All written, the reader enumerates only {} point numbers", got.len())));
    }
    let w2 = if pts.is_none() { W::All } else { W::Some(got) };
    if frag_dump("PackedPointNumbers", &w2)? != b {
        return Err(fail("c04|redump-bytes|PackedPointNumbers".into(), "PackedPointNumbers rebuilt from the points read back compiles to different bytes".into()));
    }
    stats.class(match want.len() {
        0 => "gen:PackedPointNumbers:all",
        1..=126 => "gen:PackedPointNumbers:count<127",
        127..=129 => "gen:PackedPointNumbers:count=127..129",
        _ => "gen:PackedPointNumbers:count>129",
    });
    stats.class("s1:gen_ok");
    if want.len() > 1 {
        stats.nontrivial(fnv64(&b));
    } else {
        stats.class("gen:trivial");
    }
    Ok(())
}

fn test_tuple_header(t: &mut Tape, stats: &Stats) -> CaseResult {
    use wt::variations::{Tuple, TupleVariationHeader};
    stats.class("gen:TupleVariationHeader");
    let axes = t.len(4);
    let tup = |t: &mut Tape| Tuple::new((0..axes).map(|_| t.f2()).collect());
    let size = t.u16();
    let shared = t.bool();
    let idx = shared.then(|| t.below(0x1000) as u16);
    let peak = (!shared).then(|| tup(t));
    let inter = t.bool().then(|| (tup(t), tup(t)));
    let private = t.bool();
    let h = TupleVariationHeader::new(size, idx, peak.clone(), inter.clone(), private);
    let b = frag_dump("TupleVariationHeader", &h)?;
    let bad = |what: &str, msg: String| fail(format!("c04|roundtrip|TupleVariationHeader|{what}"), format!("TupleVariationHeader: {msg}"));
    if h.compute_size() as usize != b.len() {
        return Err(bad("compute_size", format!("compute_size() = {}, {} bytes written", h.compute_size(), b.len())));
    }
    let r = guarded(|| read_fonts::tables::variations::TupleVariationHeader::read(FontData::new(&b), axes as u16))
        .map_err(|p| fail(format!("c04|reread-panic|TupleVariationHeader|{}", panic_site(&p)), p.msg.clone()))?
        .map_err(|e| fail("c04|reread-err|TupleVariationHeader".into(), format!("{} bytes do not read back: {e}", b.len())))?;
    let bits = |x: Option<read_fonts::tables::variations::Tuple>| x.map(|tu| tu.values.iter().map(|v| v.get().to_bits()).collect::<Vec<i16>>());
    let wbits = |x: Option<&Tuple>| x.map(|tu| tu.values.iter().map(|v| v.to_bits()).collect::<Vec<i16>>());
    let ti = r.tuple_index();
    if r.variation_data_size() != size {
        return Err(bad("variation_data_size", format!("{size} written, {} read back", r.variation_data_size())));
    }
    if ti.tuple_records_index() != idx || ti.embedded_peak_tuple() == shared || ti.intermediate_region() != inter.is_some() || ti.private_point_numbers() != private {
        return Err(bad("tuple_index", format!("shared index {idx:?} / intermediate {} / private points {private} written, tuple index {:#06x} read back", inter.is_some(), ti.bits())));
    }
    if bits(r.peak_tuple()) != wbits(peak.as_ref()) {
        return Err(bad("peak_tuple", format!("{:?} written, {:?} read back", wbits(peak.as_ref()), bits(r.peak_tuple()))));
    }
    if bits(r.intermediate_start_tuple()) != wbits(inter.as_ref().map(|i| &i.0)) || bits(r.intermediate_end_tuple()) != wbits(inter.as_ref().map(|i| &i.1)) {
        return Err(bad("intermediate", "intermediate tuples differ after reading back".into()));
    }
    stats.class("s1:gen_ok");
    stats.nontrivial(fnv64(&b));
    Ok(())
}

/// Known-defect stage for fvar: the only tolerated difference after dump -> read is the listed one (a postscript name id
/// written as Some(0xFFFF) reads back as None, reported under the listed signature); every other field of every
/// instance and axis must be exact (`c04|roundtrip|fvar|instance-fields`).
fn test_fvar_ffff(t: &mut Tape, stats: &Stats) -> CaseResult {
    let v0 = b_fvar(t, true);
    stats.class("gen:fvar-ffff");
    if v0.validate().is_err() {
        stats.class("s1:fvar:invalid");
        return Ok(());
    }
    let b = match guarded(|| dump_table(&v0)) {
        Err(p) => return Err(fail(format!("c04|dump-panic|fvar|{}", panic_site(&p)), p.msg.clone())),
        Ok(Err(_)) => return Ok(()),
        Ok(Ok(b)) => b,
    };
    let v1 = guarded(|| v0.reread(&b))
        .map_err(|p| fail(format!("c04|reread-panic|fvar|{}", panic_site(&p)), p.msg.clone()))?
        .map_err(|e| fail("c04|reread-err|fvar".into(), format!("compiled fvar ({} bytes) does not read back: {e}", b.len())))?;
    let mut expect = v0.clone();
    let mut n_ffff = 0;
    for i in expect.axis_instance_arrays.instances.iter_mut() {
        if i.post_script_name_id == Some(NameId::new(0xFFFF)) {
            i.post_script_name_id = None;
            n_ffff += 1;
        }
    }
    stats.class(if n_ffff == 0 { "gen:fvar-ffff:none" } else if n_ffff == v0.axis_instance_arrays.instances.len() { "gen:fvar-ffff:all" } else { "gen:fvar-ffff:some" });
    if let Equiv::Differ(d) = equiv(&expect, &v1) {
        return Err(fail("c04|roundtrip|fvar|instance-fields".into(), format!("fvar ({} instances, {n_ffff} with postscript id 0xFFFF): at {}: {}", v0.axis_instance_arrays.instances.len(), d.path.join("."), d.detail)));
    }
    if n_ffff > 0 {
        return Err(fail("c04|roundtrip|fvar|axis_instance_arrays.instances.post_script_name_id".into(), format!("fvar: {n_ffff} postscript name ids written as Some(0xFFFF) read back as None")));
    }
    // nothing special in this value: the re-dump must reproduce the bytes
    match guarded(|| dump_table(&v1)) {
        Ok(Ok(b2)) if b2 == b => {}
        _ => return Err(fail("c04|redump-bytes|fvar".into(), "fvar: recompiling the re-read value gives different bytes".into())),
    }
    stats.nontrivial(fnv64(&b));
    Ok(())
}

// ---- dispatcher ---------------------------------------------------------------------------------

/// (kind, weight, known-defect stage only)
const GEN_KINDS: &[(&str, u32)] = &[
    ("avar", 3),
    ("fvar", 3),
    ("STAT", 3),
    ("name", 3),
    ("post", 3),
    ("OS/2", 3),
    ("head", 1),
    ("hhea", 1),
    ("vhea", 1),
    ("maxp", 2),
    ("gasp", 1),
    ("meta", 2),
    ("CPAL", 2),
    ("COLR", 5),
    ("GDEF", 4),
    ("MVAR", 2),
    ("HVAR", 3),
    ("VVAR", 2),
    ("hmtx", 1),
    ("DeltaSetIndexMap", 2),
    ("ItemVariationStore", 3),
    ("CoverageTable", 2),
    ("ClassDef", 2),
    ("Device", 1),
    ("FeatureVariations", 2),
    ("GSUB-lookup", 6),
    ("GPOS-lookup", 8),
    ("GSUB", 4),
    ("GPOS", 4),
    ("cmap", 6),
    ("BASE", 3),
    ("gvar", 8),
    ("sbix", 2),
    ("sbix-GlyphData", 1),
    ("PackedDeltas", 6),
    ("PackedPointNumbers", 3),
    ("TupleVariationHeader", 1),
    ("glyf-SimpleGlyph", 4),
];

/// A simple glyph of 1..=4 contours with 1..=24 points each; consecutive points differ by deltas drawn from the classes
/// that decide the encoding (0 = "same", one-byte short vectors up to +-255, the first two-byte values +-256 / +-257,
/// anything), coordinates kept within +-16000 so that every delta fits 16 bits; runs of equal flags of every length
/// (repeat counts) come from the zero / equal-class deltas. Detailed outline properties belong to C09; here the glyph
/// is one more writable record type that has to read back as written.
fn b_simple_glyph(t: &mut Tape) -> wt::glyf::SimpleGlyph {
    use read_fonts::tables::glyf::CurvePoint;
    let nc = 1 + t.below(4) as usize;
    let (mut x, mut y) = (t.i16() / 4, t.i16() / 4);
    let mut contours = vec![];
    let mut step = |t: &mut Tape, v: i16| -> i16 {
        let r = t.raw();
        let mag: i32 = match r >> 28 {
            0 | 1 => 0,
            2 => 1,
            3 => 255,
            4 => 256,
            5 => 257,
            6 => 254,
            7..=10 => ((r >> 8) & 0xFF) as i32,
            11 | 12 => 256 + ((r >> 8) & 0x3FF) as i32,
            _ => ((r >> 8) & 0x3FFF) as i32,
        };
        let d = if r & 1 == 1 { -mag } else { mag };
        let n = v as i32 + d;
        if (-16000..=16000).contains(&n) { n as i16 } else { (v as i32 - d).clamp(-16000, 16000) as i16 }
    };
    for _ in 0..nc {
        let np = 1 + t.len(23);
        let same_flag_run = t.chance(1, 3);
        let mut pts = vec![];
        for _ in 0..np {
            x = step(t, x);
            y = step(t, y);
            let on_curve = if same_flag_run { true } else { t.bool() };
            pts.push(CurvePoint { x, y, on_curve });
        }
        contours.push(wt::glyf::Contour::from(pts));
    }
    let ni = t.len(12);
    let instructions = (0..ni).map(|_| t.u8()).collect();
    let bbox = wt::glyf::Bbox { x_min: t.i16(), y_min: t.i16(), x_max: t.i16(), y_max: t.i16() };
    t.lab_nd(if nc > 1 { "multi-contour" } else { "one-contour" });
    wt::glyf::SimpleGlyph { bbox, contours, instructions }
}

fn gen_strategy(kinds: Vec<(&'static str, u32)>) -> impl Strategy<Value = GenCase> {
    let total: u32 = kinds.iter().map(|k| k.1).sum();
    let word = prop_oneof![1 => Just(0u32), 1 => Just(u32::MAX), 10 => any::<u32>()];
    (0..total, proptest::collection::vec(word, 0..480)).prop_map(move |(mut k, tape)| {
        let mut kind = kinds[0].0;
        for (name, w) in &kinds {
            if k < *w {
                kind = name;
                break;
            }
            k -= w;
        }
        GenCase { kind: kind.to_string(), tape }
    })
}

fn run_gen<T: Rt>(kind: &str, v: &T, t: &Tape, stats: &Stats) -> CaseResult {
    let out = check_s1(kind, v, stats)?;
    stats.class(&format!("gen:{kind}"));
    let mut seen: Vec<&str> = vec![];
    for part in t.label.split('+') {
        if !part.is_empty() && !seen.contains(&part) {
            seen.push(part);
            stats.class(&format!("gen:{kind}:{part}"));
        }
    }
    if t.i > t.w.len() {
        stats.class("gen:tape_exhausted");
    }
    if let Some(b) = out.bytes {
        stats.class("s1:gen_ok");
        let offs = offsets_reached(v);
        if offs > 0 || t.nondefault {
            stats.nontrivial(fnv64(&b));
            if offs > 4 && take_sample(&SAMPLES_GEN, 3) {
                stats.sample(json!({"stage": "gen", "kind": kind, "variant": t.label, "compiled_len": b.len(), "offset_subtables": offs, "tape_words_used": t.i}));
            }
        } else {
            stats.class("gen:trivial");
        }
    }
    Ok(())
}

fn test_gen(c: &GenCase, stats: &Stats, _known_stage: bool) -> CaseResult {
    let mut t = Tape::new(&c.tape);
    let t = &mut t;
    match c.kind.as_str() {
        "avar" => run_gen("avar", &b_avar(t, false), t, stats),
        "avar-v2" => run_gen("avar", &b_avar(t, true), t, stats),
        "CPAL" => run_gen("CPAL", &b_cpal(t, false), t, stats),
        "CPAL-v1" => run_gen("CPAL", &b_cpal(t, true), t, stats),
        "fvar" => run_gen("fvar", &b_fvar(t, false), t, stats),
        "fvar-ps-ffff" => test_fvar_ffff(t, stats),
        "STAT" => run_gen("STAT", &b_stat(t), t, stats),
        "name" => run_gen("name", &b_name(t), t, stats),
        "post" => run_gen("post", &b_post(t), t, stats),
        "OS/2" => run_gen("OS/2", &b_os2(t), t, stats),
        "head" => run_gen("head", &b_head(t), t, stats),
        "hhea" => run_gen("hhea", &b_hhea(t), t, stats),
        "vhea" => run_gen("vhea", &b_vhea(t), t, stats),
        "maxp" => run_gen("maxp", &b_maxp(t), t, stats),
        "gasp" => run_gen("gasp", &b_gasp(t), t, stats),
        "meta" => {
            let v = b_meta(t);
            run_gen("meta", &v, t, stats)?;
            check_meta_get(&v, stats)
        }
        "COLR" => run_gen("COLR", &b_colr(t), t, stats),
        "GDEF" => run_gen("GDEF", &b_gdef(t), t, stats),
        "MVAR" => run_gen("MVAR", &b_mvar(t), t, stats),
        "HVAR" => run_gen("HVAR", &b_hvar(t), t, stats),
        "VVAR" => run_gen("VVAR", &b_vvar(t), t, stats),
        "hmtx" => run_gen("hmtx", &b_hmtx(t), t, stats),
        "DeltaSetIndexMap" => run_gen("DeltaSetIndexMap", &b_dsim(t), t, stats),
        "ItemVariationStore" => run_gen("ItemVariationStore", &b_ivs(t), t, stats),
        "IVS-zero-axes" => run_gen("ItemVariationStore", &b_ivs_with(t, true), t, stats),
        "CoverageTable" => {
            let v = b_cov(t, 40).0;
            t.lab(if matches!(v, wt::layout::CoverageTable::Format1(_)) { "f1" } else { "f2" });
            t.nondefault |= matches!(v, wt::layout::CoverageTable::Format2(_));
            run_gen("CoverageTable", &v, t, stats)
        }
        "ClassDef" => {
            let k = t.len(5);
            let v = b_classdef(t, k).0;
            t.lab(if matches!(v, wt::layout::ClassDef::Format1(_)) { "f1" } else { "f2" });
            t.nondefault |= matches!(v, wt::layout::ClassDef::Format2(_));
            run_gen("ClassDef", &v, t, stats)
        }
        "Device" => {
            let v = b_device(t);
            t.lab(&format!("f{}", v.delta_format as u16));
            t.nondefault |= v.delta_format as u16 != 1;
            run_gen("Device", &v, t, stats)
        }
        "FeatureVariations" => run_gen("FeatureVariations", &b_feature_variations(t), t, stats),
        "GSUB-lookup" => run_gen("GSUB-lookup", &b_gsub_lookup(t), t, stats),
        "GPOS-lookup" => run_gen("GPOS-lookup", &b_gpos_lookup(t), t, stats),
        "GSUB" => run_gen("GSUB", &b_gsub(t, false), t, stats),
        "GSUB-alt-feature-params" => run_gen("GSUB", &b_gsub(t, true), t, stats),
        "FeatureVariations-alt-feature-params" => run_gen("FeatureVariations", &b_feature_variations_with(t, true), t, stats),
        "gvar" => test_gvar(t, stats),
        "PackedDeltas" => test_packed_deltas(t, stats),
        "PackedPointNumbers" => test_packed_points(t, stats),
        "TupleVariationHeader" => test_tuple_header(t, stats),
        "sbix" => run_gen("sbix", &b_sbix(t), t, stats),
        "sbix-GlyphData" => run_gen("sbix-GlyphData", &b_sbix_glyph(t), t, stats),
        "GPOS" => run_gen("GPOS", &b_gpos(t), t, stats),
        "cmap" => run_gen("cmap", &b_cmap(t), t, stats),
        "BASE" => run_gen("BASE", &b_base(t), t, stats),
        "glyf-SimpleGlyph" => run_gen("glyf-SimpleGlyph", &b_simple_glyph(t), t, stats),
        _ => Ok(()),
    }
}

const MAX_MUT_TABLE: usize = 48 << 10;

fn main() {
    let ctx = Ctx::from_args("C04");
    ctx.set_rule(
        "S1(a): every writable top-level table (25 tags) of every corpus font, unmutated. S1(b): a proptest tape (0..480 u32 words, 1/12 zero, 1/12 max) drives hand builders for 31 table/subtable kinds \
         (avar v1/v2, fvar with/without instances and postscript ids, STAT with value formats 1-4, name v0/v1, post 1/2/2.5/3, OS/2 v0/1/4/5, head, hhea, vhea, maxp 0.5/1.0, gasp, meta (incl. indexed access to script/lang tags), CPAL v0/v1, COLR v0/v1 with all 32 paint \
         formats, GDEF 1.0/1.2/1.3, MVAR/HVAR/VVAR, DeltaSetIndexMap f0/f1, ItemVariationStore short/long words, coverage/class/device formats, feature variations with all 5 condition formats, every GSUB and GPOS \
         lookup type incl. extension, whole GSUB/GPOS tables, cmap subtables 0/4/6/10/12/13/14, BASE, hmtx, sbix header/strikes and GlyphData incl. dupe/flip, gvar through the GlyphVariations builder input: shared/private point sets with 0..258 explicit points straddling 127/128/129 and 255/256/257, zero/byte/word delta runs straddling 63/64/65, intermediate regions, shared peaks - compared per tuple via read-fonts; fragments PackedDeltas (zero/i8/i16/i32 incl. extremes, class changes at every position, run lengths straddling 63/64/65 and 127/128), PackedPointNumbers (All / Some, counts straddling 127/128, gaps straddling 255/256), TupleVariationHeader); count fields always derived from the arrays, nullable offsets generated both ways, array lengths \
         0/1/2-4/uniform with 1/24 large. S2: corpus tables (<= 48 KiB) under a strided field sweep (first 128 bytes) and havoc (1-6 edits), kept when they parse and validate. \
         Non-trivial: S1 - the value reaches >= 1 subtable through an offset or carries a non-default version/format discriminant; S2 - the mutated table parsed, validated and reached the idempotence comparison. \
         Distinct by hash of the compiled bytes B. Stages regress-corpus/regress-gen re-check the subjects of two repaired defects (avar v2, CPAL v1); stage known-gen only reproduces the listed findings (zero-sized records, fvar postscript id 0xFFFF, FeatureParams of alternate features), which the other stages exclude by construction.",
    );
    ctx.assume("read arguments of hmtx/vmtx/sbix are derived from the written value (h_metrics/bearings lengths, strike offsets)");
    ctx.assume("GSUB/GPOS values whose compilation promoted lookups to extension or split subtables are counted (`repacked`) and left to C05/C16");
    ctx.assume("values with `!=` but identical debug trees would be counted (`eq_only_diffs`), not failed; generated ValueRecords carry an explicit format so that `==` is exact");
    ctx.assume("implied-length arrays (Cmap4/Cmap10 glyph_id_array, sbix GlyphData.data) are compared on the written prefix; when the re-read array is longer the re-dump byte check is skipped (`implied_len_prefix`)");
    ctx.assume("fixed-count arrays (Cmap0/Cmap2/Cmap8) of another length only arise from Default substitution for unreadable subtables; that field is not compared (`inconsistent_fixed_count`)");
    ctx.assume("S2: a panic or error in dump_table of a value parsed from mutated bytes is counted (compile_panics / compile_err), not failed; tables whose parsed tree exceeds 150k traversal nodes are skipped (`s2:over_budget`)");
    ctx.assume("a write-side field emitted for a version that lacks it is invisible to a round trip when the reader ignores it (seeded mutant m11): only read-side guards and version computation are observable");
    let cx = build_corpus();
    let mut corpus_cases = vec![];
    for f in &cx.index.fonts {
        for (t, _) in &f.tables {
            corpus_cases.push(CorpusCase { font: f.name.clone(), table: mutate::tag_str(t) });
        }
    }
    let cc = &corpus_cases;
    ctx.index_stage("corpus", Isolation::Threads, cc.len() as u64, |i| cc[i as usize].clone(), |c, s| test_corpus(&cx, c, s, false));
    ctx.prop_stage("gen", Isolation::Threads, ctx.n(160_000, 2_000_000), || gen_strategy(GEN_KINDS.to_vec()), |c, s| test_gen(c, s, false));
    let sweep = cx.index.field_sweep(128, MAX_MUT_TABLE, 0);
    let total = sweep.len() as u64;
    let n = ctx.n(60_000, 1_000_000).min(total);
    let sw = &sweep;
    ctx.note("field_sweep_total", json!(total));
    ctx.index_stage("mut-sweep", Isolation::Threads, n, |i| sw[((i as u128 * total as u128) / n.max(1) as u128) as usize].clone(), |c, s| test_mut(&cx, c, s));
    ctx.prop_stage("mut-havoc", Isolation::Threads, ctx.n(120_000, 1_500_000), || mutate::havoc_strategy(&cx.index, MAX_MUT_TABLE, 6), |c, s| test_mut(&cx, c, s));
    // plain regression stages for the two repaired defects (avar v2 / VarLenArray byte range, CPAL version): must pass
    ctx.index_stage("regress-corpus", Isolation::Threads, cc.len() as u64, |i| cc[i as usize].clone(), |c, s| test_corpus(&cx, c, s, true));
    ctx.prop_stage("regress-gen", Isolation::Threads, ctx.n(2_000, 20_000), || gen_strategy(vec![("avar-v2", 1), ("CPAL-v1", 1)]), |c, s| test_gen(c, s, false));
    // small stage that keeps reproducing the two listed defects (excluded by construction from the stages above)
    ctx.prop_stage("known-gen", Isolation::Threads, ctx.n(1_200, 6_000), || gen_strategy(vec![("IVS-zero-axes", 1), ("fvar-ps-ffff", 2), ("FeatureVariations-alt-feature-params", 1), ("GSUB-alt-feature-params", 1)]), |c, s| test_gen(c, s, true));
    ctx.finish();
}
