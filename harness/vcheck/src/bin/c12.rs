//! C12 — drawing is well-formed and independent of buffers, history and threads.
//!
//! Baseline B(font, gid, K): pen command stream + AdjustedMetrics of the *first* draw through a *fresh* hinting instance
//! (or the unhinted path) with library-allocated memory, executed in a fresh thread. Every variation must reproduce B
//! exactly (f32 bit equality; for failed draws: the same error):
//!   * caller memory of exactly `draw_memory_size` bytes (+ slack), at every start alignment, with arbitrary prior content,
//!   * an all-zero location instead of none,
//!   * an instance that went through 0..6 earlier `reconfigure` calls for other fonts / sizes / locations / modes
//!     (other outline formats included) interleaved with draws of other glyphs,
//!   * glyphs drawn before with the final configuration, repeated draws, clones of the instance,
//!   * >= 8 threads drawing permutations through one shared `&HintingInstance` (it is `Sync`; checked at compile time),
//!   * the history of the whole process (stage `fresh-process`: a child process recomputes the baselines in reverse order).
//! Well-formedness (glyf outlines, successful draws): every contour is MoveTo, segments, Close; nothing outside; all finite.
//!
//! Besides the corpus, three hand-assembled TrueType fonts (`syn:A/B/C`) make every piece of retained interpreter state
//! observable in the outline: storage written by prep (unconditionally / only at ppem >= 20), CVT written by prep,
//! twilight points moved by prep, FDEF/IDEF definitions present in one font and *absent* in its sibling, and glyph
//! programs that write storage / CVT / twilight (copy-on-write) next to glyphs that read the same cells.
use proptest::prelude::*;
use serde::{Deserialize, Serialize};
use skrifa::outline::pen::PathStyle;
use skrifa::outline::{
    DrawSettings, Engine, GlyphStyles, Hinting, HintingInstance, HintingOptions, OutlineGlyph, OutlineGlyphCollection, OutlineGlyphFormat,
    OutlinePen, SmoothMode, Target,
};
use skrifa::prelude::{LocationRef, Size};
use skrifa::raw::types::F2Dot14;
use skrifa::raw::{FileRef, TableProvider};
use skrifa::{FontRef, GlyphId, MetadataProvider};
use std::sync::OnceLock;
use vcore::fontkit::Kit;
use vcore::*;

// compile-time: one instance may be shared by reference between threads
#[allow(dead_code)]
fn assert_sync_send<T: Sync + Send>() {}
#[allow(dead_code)]
fn hinting_instance_is_sync() {
    assert_sync_send::<HintingInstance>();
    assert_sync_send::<FontRef<'static>>();
    assert_sync_send::<OutlineGlyphCollection<'static>>();
}

fn fail(sig: &str, msg: String) -> Fail {
    Fail::new(format!("c12|{sig}"), msg)
}

// =============================================================================================
// fonts

struct FontEntry {
    name: String,
    font: FontRef<'static>,
    nglyphs: u32,
    axes: usize,
    format: OutlineGlyphFormat,
    /// has fpgm / prep / glyph instructions according to skrifa (the interpreter is preferred)
    instructed: bool,
    synthetic: bool,
    third_party: bool,
    has_gvar: bool,
}

struct Corpus {
    fonts: Vec<FontEntry>,
    /// weighted pick table (indices into fonts)
    pick: Vec<u32>,
    syn: Vec<u32>,
}

static CORPUS: OnceLock<Corpus> = OnceLock::new();

fn leak(v: Vec<u8>) -> &'static [u8] {
    Box::leak(v.into_boxed_slice())
}

fn add_font(out: &mut Vec<FontEntry>, name: String, font: FontRef<'static>, synthetic: bool, third_party: bool) {
    let outlines = font.outline_glyphs();
    let Some(format) = outlines.format() else { return };
    let nglyphs = font.maxp().map(|m| m.num_glyphs() as u32).unwrap_or(0);
    if nglyphs == 0 {
        return;
    }
    out.push(FontEntry { name, font: font.clone(), nglyphs, axes: font.axes().len(), format, instructed: outlines.prefer_interpreter(), synthetic, third_party, has_gvar: font.gvar().is_ok() });
}

fn corpus() -> &'static Corpus {
    CORPUS.get_or_init(|| {
        let mut fonts = vec![];
        let third: Vec<String> = vcore::corpus::third_party_fonts().into_iter().map(|f| f.name).collect();
        for cf in vcore::corpus::all_fonts() {
            let is_third = third.contains(&cf.name) && cf.path.starts_with(verif_dir());
            let data = leak(cf.data);
            match FileRef::new(data) {
                Ok(FileRef::Font(f)) => add_font(&mut fonts, cf.name.clone(), f, false, is_third),
                Ok(FileRef::Collection(c)) => {
                    for i in 0..c.len() {
                        if let Ok(f) = c.get(i) {
                            add_font(&mut fonts, format!("{}#{i}", cf.name), f, false, is_third);
                        }
                    }
                }
                Err(_) => {}
            }
        }
        for (name, bytes) in synthetic_fonts() {
            let data = leak(bytes);
            if let Ok(f) = FontRef::new(data) {
                add_font(&mut fonts, name, f, true, false);
            }
        }
        let mut pick = vec![];
        let mut syn = vec![];
        for (i, f) in fonts.iter().enumerate() {
            let w = if f.third_party {
                7
            } else if f.synthetic {
                8
            } else if f.format == OutlineGlyphFormat::Glyf && f.instructed {
                3
            } else if f.axes > 0 {
                3
            } else {
                1
            };
            for _ in 0..w {
                pick.push(i as u32);
            }
            if f.synthetic {
                syn.push(i as u32);
            }
        }
        Corpus { fonts, pick, syn }
    })
}

fn idx(raw: u32, len: usize) -> usize {
    ((raw as u64 * len as u64) >> 32) as usize
}
fn pick_font(raw: u32) -> &'static FontEntry {
    let c = corpus();
    &c.fonts[c.pick[idx(raw, c.pick.len())] as usize]
}
fn pick_syn(raw: u32) -> &'static FontEntry {
    let c = corpus();
    &c.fonts[c.syn[idx(raw, c.syn.len())] as usize]
}
fn pick_gid(f: &FontEntry, raw: u32) -> GlyphId {
    GlyphId::new(idx(raw, f.nglyphs as usize) as u32)
}
fn is_composite(f: &FontEntry, g: GlyphId) -> bool {
    use skrifa::raw::tables::glyf::Glyph;
    let (Ok(loca), Ok(glyf)) = (f.font.loca(None), f.font.glyf()) else { return false };
    matches!(loca.get_glyf(g, &glyf), Ok(Some(Glyph::Composite(_))))
}
/// Repaired defect (regression stage `known-hb-dirty-memory`): the HarfBuzz-style scaler (`load_composite`) added
/// `memory.composite_deltas[..]` to every component offset even when no deltas were computed (default location, or no gvar data
/// for the glyph); with caller memory that slot was never written.
fn hb_composite(f: &FontEntry, hint: &Hint, gids: &[GlyphId]) -> bool {
    matches!(hint, Hint::Unhinted { harfbuzz: true }) && f.has_gvar && f.format == OutlineGlyphFormat::Glyf && gids.iter().any(|g| is_composite(f, *g))
}
const HB_KNOWN_SIG: &str = "memory-mismatch|hb-style-unwritten-composite-deltas";

// ---------------------------------------------------------------------------------------------
// synthetic instructed fonts

mod op {
    pub const SVTCA_Y: u8 = 0x00;
    pub const SZP0: u8 = 0x13;
    pub const SZP2: u8 = 0x15;
    pub const SZPS: u8 = 0x16;
    pub const CALL: u8 = 0x2B;
    pub const FDEF: u8 = 0x2C;
    pub const ENDF: u8 = 0x2D;
    pub const MDAP0: u8 = 0x2E;
    pub const SHPIX: u8 = 0x38;
    pub const MIAP0: u8 = 0x3E;
    pub const WS: u8 = 0x42;
    pub const RS: u8 = 0x43;
    pub const WCVTP: u8 = 0x44;
    pub const RCVT: u8 = 0x45;
    pub const GC0: u8 = 0x46;
    pub const MPPEM: u8 = 0x4B;
    pub const LT: u8 = 0x50;
    pub const GTEQ: u8 = 0x53;
    pub const IF: u8 = 0x58;
    pub const EIF: u8 = 0x59;
    pub const ADD: u8 = 0x60;
    pub const IDEF: u8 = 0x89;
}

fn pushb(v: &mut Vec<u8>, vals: &[u8]) {
    assert!(!vals.is_empty() && vals.len() <= 8);
    v.push(0xB0 + (vals.len() as u8 - 1));
    v.extend_from_slice(vals);
}
fn pushw(v: &mut Vec<u8>, vals: &[i16]) {
    assert!(!vals.is_empty() && vals.len() <= 8);
    v.push(0xB8 + (vals.len() as u8 - 1));
    for x in vals {
        v.extend_from_slice(&x.to_be_bytes());
    }
}
/// touch point `p` in y, then shift it by the 26.6 amount that `amount` leaves on the stack
fn mv(v: &mut Vec<u8>, p: u8, amount: &[u8]) {
    pushb(v, &[p]);
    v.push(op::MDAP0);
    pushb(v, &[p]);
    v.extend_from_slice(amount);
    v.push(op::SHPIX);
}
fn rs(k: u8) -> Vec<u8> {
    vec![0xB0, k, op::RS]
}
fn rcvt(k: u8) -> Vec<u8> {
    vec![0xB0, k, op::RCVT]
}
/// y coordinate of twilight point t
fn twy(t: u8) -> Vec<u8> {
    vec![0xB0, 0, op::SZP2, 0xB0, t, op::GC0, 0xB0, 1, op::SZP2]
}

type Pt = (i16, i16, bool);

fn simple_glyph(contours: &[Vec<Pt>], instr: &[u8]) -> Vec<u8> {
    let mut v = vec![];
    let pts: Vec<Pt> = contours.iter().flatten().copied().collect();
    v.extend_from_slice(&(contours.len() as i16).to_be_bytes());
    let (mut x0, mut y0, mut x1, mut y1) = (i16::MAX, i16::MAX, i16::MIN, i16::MIN);
    for p in &pts {
        x0 = x0.min(p.0);
        y0 = y0.min(p.1);
        x1 = x1.max(p.0);
        y1 = y1.max(p.1);
    }
    for b in [x0, y0, x1, y1] {
        v.extend_from_slice(&b.to_be_bytes());
    }
    let mut end = 0u16;
    for c in contours {
        end += c.len() as u16;
        v.extend_from_slice(&(end - 1).to_be_bytes());
    }
    v.extend_from_slice(&(instr.len() as u16).to_be_bytes());
    v.extend_from_slice(instr);
    for p in &pts {
        v.push(p.2 as u8);
    }
    let mut prev = 0i16;
    for p in &pts {
        v.extend_from_slice(&(p.0 - prev).to_be_bytes());
        prev = p.0;
    }
    prev = 0;
    for p in &pts {
        v.extend_from_slice(&(p.1 - prev).to_be_bytes());
        prev = p.1;
    }
    while v.len() % 4 != 0 {
        v.push(0);
    }
    v
}

fn composite_glyph(comps: &[(u16, i16, i16)], instr: &[u8]) -> Vec<u8> {
    let mut v = vec![];
    v.extend_from_slice(&(-1i16).to_be_bytes());
    for b in [0i16, 0, 900, 900] {
        v.extend_from_slice(&b.to_be_bytes());
    }
    for (i, (g, dx, dy)) in comps.iter().enumerate() {
        let last = i + 1 == comps.len();
        let mut flags = 0x0001u16 | 0x0002;
        if !last {
            flags |= 0x0020;
        } else if !instr.is_empty() {
            flags |= 0x0100;
        }
        v.extend_from_slice(&flags.to_be_bytes());
        v.extend_from_slice(&g.to_be_bytes());
        v.extend_from_slice(&dx.to_be_bytes());
        v.extend_from_slice(&dy.to_be_bytes());
    }
    if !instr.is_empty() {
        v.extend_from_slice(&(instr.len() as u16).to_be_bytes());
        v.extend_from_slice(instr);
    }
    while v.len() % 4 != 0 {
        v.push(0);
    }
    v
}

fn maxp_with(num_glyphs: u16, twilight: u16, storage: u16, fdefs: u16, idefs: u16, stack: u16) -> Vec<u8> {
    let mut v = vec![];
    v.extend_from_slice(&0x00010000u32.to_be_bytes());
    v.extend_from_slice(&num_glyphs.to_be_bytes());
    for x in [64u16, 8, 64, 8, 2, twilight, storage, fdefs, idefs, stack, 512, 8, 4] {
        v.extend_from_slice(&x.to_be_bytes());
    }
    v
}

const SYN_GLYPHS: usize = 13;

/// variant 0 = A (defines and writes everything), 1 = B (same layout, defines other keys, writes nothing),
/// 2 = C (small maxp limits, opposite ppem condition)
fn synthetic_font(variant: u8) -> Vec<u8> {
    use op::*;
    let sq = |x: i16, y: i16, w: i16, h: i16| -> Vec<Pt> { vec![(x, y, true), (x + w, y, true), (x + w, y + h, true), (x, y + h, true)] };
    let two = || vec![sq(0, 0, 500, 700), sq(100, 100, 300, 500)];
    // ---- font program
    let mut fpgm = vec![];
    let (f_hi, i_a, i_b): (u8, u8, u8) = match variant {
        1 => (6, 0x28, 0x90),
        _ => (5, 0x91, 0x8F),
    };
    let (c_f0, c_fhi, c_ia, c_ib): (u8, u8, u8, u8) = match variant {
        1 => (32, 255, 160, 48),
        _ => (64, 128, 192, 96),
    };
    if variant == 2 {
        pushb(&mut fpgm, &[i_a, f_hi, 0]);
    } else {
        pushb(&mut fpgm, &[i_b, i_a, f_hi, 0]);
    }
    fpgm.extend_from_slice(&[FDEF, 0xB0, c_f0, ADD, ENDF]);
    fpgm.extend_from_slice(&[FDEF, 0xB0, c_fhi, ADD, ENDF]);
    fpgm.extend_from_slice(&[IDEF, 0xB0, c_ia, ENDF]);
    if variant != 2 {
        fpgm.extend_from_slice(&[IDEF, 0xB0, c_ib, ENDF]);
    }
    // ---- control value program
    let mut prep = vec![];
    match variant {
        0 => {
            pushw(&mut prep, &[3, 320]);
            prep.push(WS); // storage[3] = 5px
            prep.extend_from_slice(&[0xB0, 4, MPPEM, WS]); // storage[4] = ppem/64 px
            pushw(&mut prep, &[2, 448]);
            prep.push(WCVTP); // cvt[2] = 7px
            prep.extend_from_slice(&[0xB0, 0, SZPS, SVTCA_Y]);
            pushb(&mut prep, &[2, 1]);
            prep.push(MIAP0); // twilight point 2 -> cvt[1]
            prep.extend_from_slice(&[MPPEM, 0xB0, 20, GTEQ, IF]);
            pushw(&mut prep, &[5, 256]);
            prep.push(WS); // storage[5] = 4px only at ppem >= 20
            pushb(&mut prep, &[4, 6]);
            prep.push(MIAP0); // twilight point 4 -> cvt[6] only at ppem >= 20
            prep.push(EIF);
        }
        1 => {
            pushb(&mut prep, &[0, 64]);
            prep.push(WS); // storage[0] only
        }
        _ => {
            prep.extend_from_slice(&[MPPEM, 0xB0, 20, LT, IF]);
            pushw(&mut prep, &[3, 192]);
            prep.push(WS); // storage[3] = 3px only at ppem < 20
            pushw(&mut prep, &[5, 640]);
            prep.push(WCVTP); // cvt[5] = 10px only at ppem < 20
            prep.extend_from_slice(&[0xB0, 0, SZPS, SVTCA_Y]);
            pushb(&mut prep, &[3, 1]);
            prep.push(MIAP0); // twilight point 3 only at ppem < 20
            prep.push(EIF);
        }
    }
    // ---- glyphs
    let mut glyphs: Vec<Vec<u8>> = vec![];
    glyphs.push(vec![]); // 0: empty
    {
        // 1: storage reader
        let mut p = vec![SVTCA_Y];
        mv(&mut p, 0, &rs(3));
        mv(&mut p, 1, &rs(4));
        mv(&mut p, 2, &rs(5));
        mv(&mut p, 3, &rs(7));
        glyphs.push(simple_glyph(&two(), &p));
    }
    {
        // 2: cvt reader
        let mut p = vec![SVTCA_Y];
        mv(&mut p, 0, &rcvt(2));
        mv(&mut p, 1, &rcvt(5));
        mv(&mut p, 2, &rcvt(1));
        glyphs.push(simple_glyph(&two(), &p));
    }
    {
        // 3: twilight reader
        let mut p = vec![SVTCA_Y];
        mv(&mut p, 0, &twy(2));
        mv(&mut p, 1, &twy(3));
        mv(&mut p, 2, &twy(4));
        glyphs.push(simple_glyph(&two(), &p));
    }
    {
        // 4: calls function 5 (defined by A and C only)
        let mut p = vec![SVTCA_Y];
        mv(&mut p, 0, &[0xB0, 0, 0xB0, 5, CALL]);
        glyphs.push(simple_glyph(&two(), &p));
    }
    {
        // 5: calls function 0 (defined everywhere)
        let mut p = vec![SVTCA_Y];
        mv(&mut p, 1, &[0xB0, 0, 0xB0, 0, CALL]);
        glyphs.push(simple_glyph(&two(), &p));
    }
    {
        // 6: uses opcode 0x91 (IDEF in A and C only)
        let mut p = vec![SVTCA_Y];
        mv(&mut p, 0, &[0x91]);
        glyphs.push(simple_glyph(&two(), &p));
    }
    {
        // 7: uses opcode 0x8F (IDEF in A only)
        let mut p = vec![SVTCA_Y];
        mv(&mut p, 2, &[0x8F]);
        glyphs.push(simple_glyph(&two(), &p));
    }
    {
        // 8: writer: storage[7], cvt[5], twilight point 3, then reads its own writes
        let mut p = vec![SVTCA_Y];
        pushw(&mut p, &[7, 200]);
        p.push(WS);
        pushw(&mut p, &[5, 300]);
        p.push(WCVTP);
        p.extend_from_slice(&[0xB0, 0, SZP0]);
        pushb(&mut p, &[3, 4]);
        p.push(MIAP0);
        p.extend_from_slice(&[0xB0, 1, SZP0]);
        mv(&mut p, 0, &rs(7));
        mv(&mut p, 1, &rcvt(5));
        mv(&mut p, 2, &twy(3));
        glyphs.push(simple_glyph(&two(), &p));
    }
    {
        // 9: all state readers in one program
        let mut p = vec![SVTCA_Y];
        mv(&mut p, 0, &rs(3));
        mv(&mut p, 1, &rs(7));
        mv(&mut p, 2, &rcvt(5));
        mv(&mut p, 3, &twy(3));
        mv(&mut p, 4, &twy(4));
        mv(&mut p, 5, &rs(5));
        mv(&mut p, 6, &rcvt(2));
        mv(&mut p, 7, &twy(2));
        glyphs.push(simple_glyph(&two(), &p));
    }
    // 10: single-point contour + square, no instructions
    glyphs.push(simple_glyph(&[vec![(250, 350, true)], sq(0, 0, 500, 700), vec![(40, 40, false)]], &[]));
    {
        // 11: composite of 1 and 10 with its own program
        let mut p = vec![SVTCA_Y];
        mv(&mut p, 0, &rs(3));
        mv(&mut p, 9, &rs(7));
        glyphs.push(composite_glyph(&[(1, 0, 0), (10, 100, 50)], &p));
    }
    // 12: curves, off-curve start, all-off-curve contour
    glyphs.push(simple_glyph(
        &[
            vec![(0, 0, false), (250, -100, true), (500, 0, false), (600, 350, false), (500, 700, true), (250, 800, false), (0, 700, true)],
            vec![(100, 100, false), (400, 100, false), (400, 600, false), (100, 600, false)],
        ],
        &[],
    ));
    assert_eq!(glyphs.len(), SYN_GLYPHS);
    let mut glyf = vec![];
    let mut offsets = vec![0u32];
    for g in &glyphs {
        glyf.extend_from_slice(g);
        offsets.push(glyf.len() as u32);
    }
    let cvt_units: Vec<i16> = match variant {
        2 => vec![0, 300, 100, 50, 20, 10, 650],
        _ => vec![0, 300, 100, 50, 20, 10, 700, 500],
    };
    let mut cvt = vec![];
    for c in &cvt_units {
        cvt.extend_from_slice(&c.to_be_bytes());
    }
    let maxp = match variant {
        2 => maxp_with(SYN_GLYPHS as u16, 6, 8, 8, 2, 64),
        1 => maxp_with(SYN_GLYPHS as u16, 16, 64, 64, 64, 256),
        _ => maxp_with(SYN_GLYPHS as u16, 16, 64, 64, 64, 256),
    };
    let kit = Kit {
        num_glyphs: SYN_GLYPHS as u16,
        upem: 1000,
        glyf: Some((glyf, offsets)),
        h_metrics: (0..SYN_GLYPHS).map(|i| (600 + i as u16 * 10, 20)).collect(),
        extra: vec![(*b"fpgm", fpgm), (*b"prep", prep), (*b"cvt ", cvt), (*b"maxp", maxp)],
        ..Default::default()
    };
    kit.build()
}

fn synthetic_fonts() -> Vec<(String, Vec<u8>)> {
    vec![("syn:A".to_string(), synthetic_font(0)), ("syn:B".to_string(), synthetic_font(1)), ("syn:C".to_string(), synthetic_font(2))]
}

// =============================================================================================
// configurations

#[derive(Clone, Debug, Serialize, Deserialize, PartialEq)]
enum Loc {
    None,
    /// all-zero vector; 0 = one entry per axis of the font, n = exactly n entries
    Zeros(u8),
    /// raw F2Dot14 values, cycled over the axes of the font
    Coords(Vec<i16>),
}

#[derive(Clone, Debug, Serialize, Deserialize, PartialEq)]
enum Hint {
    Unhinted { harfbuzz: bool },
    /// engine: 0 interpreter, 1 Auto(None), 2 AutoFallback, 3 Auto(Some(precomputed styles of the same font))
    Hinted { engine: u8, target: u8, pedantic: bool },
}

#[derive(Clone, Debug, Serialize, Deserialize, PartialEq)]
struct Cfg {
    /// ppem * 64; 0 = Size::unscaled()
    ppem64: u32,
    loc: Loc,
    hint: Hint,
}

fn size_of(ppem64: u32) -> Size {
    if ppem64 == 0 {
        Size::unscaled()
    } else {
        Size::new(ppem64 as f32 / 64.0)
    }
}

fn target_of(t: u8) -> Target {
    if t == 0 {
        return Target::Mono;
    }
    let t = (t - 1) % 16;
    let mode = match t / 4 {
        0 => SmoothMode::Normal,
        1 => SmoothMode::Light,
        2 => SmoothMode::Lcd,
        _ => SmoothMode::VerticalLcd,
    };
    Target::Smooth { mode, symmetric_rendering: t & 1 != 0, preserve_linear_metrics: t & 2 != 0 }
}

thread_local! {
    /// one `GlyphStyles` per font, shared by every instance the current case builds in this thread (the baseline runs in its
    /// own fresh thread and therefore computes its own)
    static STYLES: std::cell::RefCell<std::collections::BTreeMap<usize, GlyphStyles>> = const { std::cell::RefCell::new(std::collections::BTreeMap::new()) };
}
fn clear_styles() {
    STYLES.with(|s| s.borrow_mut().clear());
}
fn font_key(f: &FontEntry) -> usize {
    (fnv64(f.name.as_bytes()) | 1) as usize
}
/// key != 0: `Engine::Auto(Some(..))` receives the case-wide shared styles of that font (same `Arc` every time)
fn engine_of(e: u8, outlines: &OutlineGlyphCollection, key: usize) -> Engine {
    match e {
        0 => Engine::Interpreter,
        1 => Engine::Auto(None),
        2 => Engine::AutoFallback,
        _ if key == 0 => Engine::Auto(Some(GlyphStyles::new(outlines))),
        _ => Engine::Auto(Some(STYLES.with(|s| s.borrow_mut().entry(key).or_insert_with(|| GlyphStyles::new(outlines)).clone()))),
    }
}

fn coords_of(axes: usize, loc: &Loc) -> Vec<F2Dot14> {
    match loc {
        Loc::None => vec![],
        Loc::Zeros(0) => vec![F2Dot14::ZERO; axes],
        Loc::Zeros(n) => vec![F2Dot14::ZERO; *n as usize],
        Loc::Coords(v) => {
            if v.is_empty() {
                vec![]
            } else {
                (0..axes).map(|i| F2Dot14::from_bits(v[i % v.len()].clamp(-16384, 16384))).collect()
            }
        }
    }
}

fn interp_effective(f: &FontEntry, hint: &Hint) -> bool {
    match hint {
        Hint::Hinted { engine: 0, .. } => true,
        Hint::Hinted { engine: 2, .. } => f.instructed,
        _ => false,
    }
}

// strategies ----------------------------------------------------------------------------------

const GRID: [u32; 40] = [
    1, 2, 6, 7, 8, 9, 10, 11, 12, 13, 14, 15, 16, 17, 18, 19, 20, 21, 22, 24, 27, 28, 32, 36, 40, 48, 64, 72, 96, 100, 127, 128, 200, 255, 256, 300, 500, 1000,
    2047, 2048,
];

fn ppem_strategy() -> BoxedStrategy<u32> {
    prop_oneof![
        7 => (0usize..GRID.len()).prop_map(|i| GRID[i] * 64),
        2 => (8u32..=40, 0u32..64).prop_map(|(a, b)| a * 64 + b),
        1 => 64u32..=131072,
        1 => Just(0u32),
    ]
    .boxed()
}

fn coord_strategy() -> BoxedStrategy<i16> {
    prop_oneof![
        2 => Just(16384i16),
        2 => Just(-16384i16),
        1 => Just(0i16),
        1 => Just(8192i16),
        4 => -16384i16..=16384,
        1 => -3i16..=3,
    ]
    .boxed()
}

fn loc_strategy() -> BoxedStrategy<Loc> {
    prop_oneof![
        3 => Just(Loc::None),
        1 => (0u8..6).prop_map(Loc::Zeros),
        4 => proptest::collection::vec(coord_strategy(), 1..=4).prop_map(Loc::Coords),
    ]
    .boxed()
}

/// observed location: none or generated coordinates (the all-zero variant is a separate switch of the case)
fn obs_loc_strategy() -> BoxedStrategy<Loc> {
    prop_oneof![
        1 => Just(Loc::None),
        1 => proptest::collection::vec(coord_strategy(), 1..=4).prop_map(Loc::Coords),
    ]
    .boxed()
}

fn engine_strategy() -> BoxedStrategy<u8> {
    prop_oneof![12 => Just(0u8), 4 => Just(2u8), 2 => Just(1u8), 2 => Just(3u8)].boxed()
}

fn hinted_strategy() -> BoxedStrategy<Hint> {
    (engine_strategy(), 0u8..17, prop_oneof![4 => Just(false), 1 => Just(true)]).prop_map(|(engine, target, pedantic)| Hint::Hinted { engine, target, pedantic }).boxed()
}

fn hint_strategy() -> BoxedStrategy<Hint> {
    prop_oneof![
        2 => Just(Hint::Unhinted { harfbuzz: false }),
        1 => Just(Hint::Unhinted { harfbuzz: true }),
        12 => hinted_strategy(),
    ]
    .boxed()
}

fn obs_cfg_strategy() -> BoxedStrategy<Cfg> {
    (ppem_strategy(), obs_loc_strategy(), hint_strategy()).prop_map(|(ppem64, loc, hint)| Cfg { ppem64, loc, hint }).boxed()
}

#[derive(Clone, Debug, Serialize, Deserialize, PartialEq)]
enum FontSel {
    Same,
    Pick(u32),
    Syn(u32),
}

#[derive(Clone, Debug, Serialize, Deserialize)]
struct Step {
    font: FontSel,
    ppem64: u32,
    loc: Loc,
    hint: Hint,
    /// glyphs drawn through the instance after this reconfigure (raw glyph selector, with caller memory?)
    draws: Vec<(u32, bool)>,
    /// Some(k): this step is the observed font and configuration with exactly one dimension replaced by this step's value
    /// (k%4: 0 location, 1 size, 2 target, 3 engine)
    #[serde(default)]
    tweak: Option<u8>,
}

fn step_strategy() -> BoxedStrategy<Step> {
    (
        prop_oneof![3 => Just(FontSel::Same), 5 => any::<u32>().prop_map(FontSel::Pick), 3 => any::<u32>().prop_map(FontSel::Syn)],
        ppem_strategy(),
        loc_strategy(),
        hinted_strategy(),
        proptest::collection::vec((any::<u32>(), any::<bool>()), 0..=20),
        prop_oneof![5 => Just(None), 2 => Just(Some(0u8)), 1 => (1u8..4).prop_map(Some)],
    )
        .prop_map(|(font, ppem64, loc, hint, draws, tweak)| Step { font, ppem64, loc, hint, draws, tweak })
        .boxed()
}

#[derive(Clone, Debug, Serialize, Deserialize)]
struct Buf {
    /// 0 = library memory only, 1 = exactly draw_memory_size, 2 = + slack
    mode: u8,
    slack: u16,
    /// start address modulo 8
    misalign: u8,
    /// prior content of the buffer
    fill: u8,
    /// keep one buffer for all draws of the case without refilling it
    reuse: bool,
}

fn buf_strategy() -> BoxedStrategy<Buf> {
    (
        prop_oneof![1 => Just(0u8), 5 => Just(1u8), 2 => Just(2u8)],
        prop_oneof![Just(1u16), Just(3u16), Just(4u16), Just(7u16), 1u16..512],
        0u8..8,
        0u8..6,
        any::<bool>(),
    )
        .prop_map(|(mode, slack, misalign, fill, reuse)| Buf { mode, slack, misalign, fill, reuse })
        .boxed()
}

// =============================================================================================
// drawing and comparing

#[derive(Clone, PartialEq, Eq, Debug, Serialize, Deserialize)]
enum Cmd {
    M(u32, u32),
    L(u32, u32),
    Q(u32, u32, u32, u32),
    C(u32, u32, u32, u32, u32, u32),
    Z,
}

#[derive(Default)]
struct RecPen(Vec<Cmd>);
impl OutlinePen for RecPen {
    fn move_to(&mut self, x: f32, y: f32) {
        self.0.push(Cmd::M(x.to_bits(), y.to_bits()));
    }
    fn line_to(&mut self, x: f32, y: f32) {
        self.0.push(Cmd::L(x.to_bits(), y.to_bits()));
    }
    fn quad_to(&mut self, cx0: f32, cy0: f32, x: f32, y: f32) {
        self.0.push(Cmd::Q(cx0.to_bits(), cy0.to_bits(), x.to_bits(), y.to_bits()));
    }
    fn curve_to(&mut self, cx0: f32, cy0: f32, cx1: f32, cy1: f32, x: f32, y: f32) {
        self.0.push(Cmd::C(cx0.to_bits(), cy0.to_bits(), cx1.to_bits(), cy1.to_bits(), x.to_bits(), y.to_bits()));
    }
    fn close(&mut self) {
        self.0.push(Cmd::Z);
    }
}

/// (has_overlaps, lsb bits, advance bits) or the error text
type Metrics = Result<(bool, Option<u32>, Option<u32>), String>;

#[derive(Clone, Debug, Serialize, Deserialize)]
struct Drawn {
    res: Metrics,
    cmds: Vec<Cmd>,
}

impl Drawn {
    /// equality demanded by the property: same metrics and same stream for successful draws; same error otherwise
    fn same(&self, o: &Drawn) -> bool {
        match (&self.res, &o.res) {
            (Ok(a), Ok(b)) => a == b && self.cmds == o.cmds,
            (Err(a), Err(b)) => a == b,
            _ => false,
        }
    }
    fn is_ok(&self) -> bool {
        self.res.is_ok()
    }
}

fn fmt_cmd(c: &Cmd) -> String {
    let f = |b: &u32| f32::from_bits(*b);
    match c {
        Cmd::M(x, y) => format!("M {} {}", f(x), f(y)),
        Cmd::L(x, y) => format!("L {} {}", f(x), f(y)),
        Cmd::Q(a, b, x, y) => format!("Q {} {} {} {}", f(a), f(b), f(x), f(y)),
        Cmd::C(a, b, c, d, x, y) => format!("C {} {} {} {} {} {}", f(a), f(b), f(c), f(d), f(x), f(y)),
        Cmd::Z => "Z".into(),
    }
}

fn describe_diff(base: &Drawn, got: &Drawn) -> String {
    match (&base.res, &got.res) {
        (Ok(a), Ok(b)) => {
            if a != b {
                let m = |x: &(bool, Option<u32>, Option<u32>)| format!("overlaps={} lsb={:?} adv={:?}", x.0, x.1.map(f32::from_bits), x.2.map(f32::from_bits));
                return format!("metrics differ: baseline {} / variation {}", m(a), m(b));
            }
            if base.cmds.len() != got.cmds.len() {
                let n = base.cmds.iter().zip(&got.cmds).take_while(|(a, b)| a == b).count();
                return format!("stream lengths differ: baseline {} / variation {} commands (first {} equal)", base.cmds.len(), got.cmds.len(), n);
            }
            for (i, (a, b)) in base.cmds.iter().zip(&got.cmds).enumerate() {
                if a != b {
                    return format!("command #{i} of {}: baseline `{}` / variation `{}`", base.cmds.len(), fmt_cmd(a), fmt_cmd(b));
                }
            }
            "equal".into()
        }
        (Ok(_), Err(e)) => format!("baseline succeeded ({} commands), variation failed: {e}", base.cmds.len()),
        (Err(e), Ok(_)) => format!("baseline failed ({e}), variation succeeded ({} commands)", got.cmds.len()),
        (Err(a), Err(b)) => format!("errors differ: baseline `{a}` / variation `{b}`"),
    }
}

enum How<'a> {
    Unhinted { size: Size, coords: &'a [F2Dot14], harfbuzz: bool },
    Hinted { inst: &'a HintingInstance, pedantic: bool },
}

fn draw_one(glyph: &OutlineGlyph, how: &How, mem: Option<&mut [u8]>) -> Drawn {
    let mut pen = RecPen::default();
    let settings = match how {
        How::Unhinted { size, coords, harfbuzz } => {
            DrawSettings::unhinted(*size, LocationRef::new(coords)).with_path_style(if *harfbuzz { PathStyle::HarfBuzz } else { PathStyle::FreeType })
        }
        How::Hinted { inst, pedantic } => DrawSettings::hinted(inst, *pedantic),
    };
    let r = glyph.draw(settings.with_memory(mem), &mut pen);
    Drawn { res: r.map(|m| (m.has_overlaps, m.lsb.map(f32::to_bits), m.advance_width.map(f32::to_bits))).map_err(|e| format!("{e:?}")), cmds: pen.0 }
}

fn mem_need(glyph: &OutlineGlyph, hinted: bool) -> usize {
    glyph.draw_memory_size(if hinted { Hinting::Embedded } else { Hinting::None })
}

#[derive(Default)]
struct Scratch {
    v: Vec<u8>,
    filled: bool,
}
impl Scratch {
    fn get(&mut self, need: usize, b: &Buf) -> &mut [u8] {
        let len = need + if b.mode == 2 { b.slack as usize } else { 0 };
        let total = len + 16;
        if self.v.len() < total {
            self.v = vec![0u8; total + 64];
            self.filled = false;
        }
        let base = self.v.as_ptr() as usize;
        let off = (8 - base % 8) % 8 + (b.misalign % 8) as usize;
        if !self.filled || !b.reuse {
            let s = &mut self.v[..];
            match b.fill % 6 {
                0 => s.fill(0),
                1 => s.fill(0xFF),
                2 => s.fill(0xAA),
                3 => s.fill(0x7F),
                4 => s.iter_mut().enumerate().for_each(|(i, x)| *x = (i as u8).wrapping_mul(37).wrapping_add(11)),
                _ => s.iter_mut().enumerate().for_each(|(i, x)| *x = if i % 4 == 3 { 0x80 } else { 0x01 }),
            }
            self.filled = true;
        }
        &mut self.v[off..off + len]
    }
}

fn draw_mem(glyph: &OutlineGlyph, how: &How, scratch: &mut Scratch, buf: &Buf) -> Drawn {
    let need = mem_need(glyph, matches!(how, How::Hinted { .. }));
    let m = scratch.get(need, buf);
    debug_assert_eq!(m.as_ptr() as usize % 8, (buf.misalign % 8) as usize);
    draw_one(glyph, how, Some(m))
}

/// glyf outlines, successful draw: (MoveTo segment* Close)*, all coordinates finite
fn well_formed(d: &Drawn) -> Result<usize, String> {
    let mut open = false;
    let mut contours = 0;
    let fin = |v: &[&u32]| v.iter().all(|b| f32::from_bits(**b).is_finite());
    for (i, c) in d.cmds.iter().enumerate() {
        let ok = match c {
            Cmd::M(x, y) => {
                if open {
                    return Err(format!("command #{i}: MoveTo inside an open contour (missing Close)"));
                }
                open = true;
                contours += 1;
                fin(&[x, y])
            }
            Cmd::Z => {
                if !open {
                    return Err(format!("command #{i}: Close without an open contour"));
                }
                open = false;
                true
            }
            Cmd::L(x, y) => {
                if !open {
                    return Err(format!("command #{i}: LineTo outside a contour"));
                }
                fin(&[x, y])
            }
            Cmd::Q(a, b, x, y) => {
                if !open {
                    return Err(format!("command #{i}: QuadTo outside a contour"));
                }
                fin(&[a, b, x, y])
            }
            Cmd::C(a, b, c2, d2, x, y) => {
                if !open {
                    return Err(format!("command #{i}: CurveTo outside a contour"));
                }
                fin(&[a, b, c2, d2, x, y])
            }
        };
        if !ok {
            return Err(format!("command #{i}: non-finite coordinate in `{}`", fmt_cmd(c)));
        }
    }
    if open {
        return Err(format!("stream of {} commands ends inside an open contour (missing Close)", d.cmds.len()));
    }
    Ok(contours)
}

fn check_metrics_finite(d: &Drawn) -> Result<(), String> {
    if let Ok((_, l, a)) = &d.res {
        for (n, v) in [("lsb", l), ("advance_width", a)] {
            if let Some(b) = v {
                if !f32::from_bits(*b).is_finite() {
                    return Err(format!("{n} is not finite"));
                }
            }
        }
    }
    Ok(())
}

fn new_instance(f: &FontEntry, outlines: &OutlineGlyphCollection, ppem64: u32, coords: &[F2Dot14], hint: &Hint) -> Result<HintingInstance, String> {
    let Hint::Hinted { engine, target, .. } = hint else { return Err("unhinted".into()) };
    HintingInstance::new(outlines, size_of(ppem64), LocationRef::new(coords), HintingOptions { engine: engine_of(*engine, outlines, font_key(f)), target: target_of(*target) })
        .map_err(|e| format!("{e:?}"))
}

fn reconfigure(inst: &mut HintingInstance, key: usize, outlines: &OutlineGlyphCollection, ppem64: u32, coords: &[F2Dot14], hint: &Hint) -> Result<(), String> {
    let Hint::Hinted { engine, target, .. } = hint else { return Err("unhinted".into()) };
    inst.reconfigure(outlines, size_of(ppem64), LocationRef::new(coords), HintingOptions { engine: engine_of(*engine, outlines, key), target: target_of(*target) })
        .map_err(|e| format!("{e:?}"))
}

/// Baseline: fresh instance per glyph (one shared fresh instance for the autohinter, whose construction is expensive),
/// library memory, first draw; computed in a fresh thread so that no thread-local state of the calling thread is visible.
struct Baseline {
    inst: Result<(), String>,
    draws: Vec<Option<Drawn>>, // None: glyph id not in the collection
    repeat_fail: Option<String>,
}

fn baseline_here(f: &FontEntry, cfg: &Cfg, gids: &[GlyphId]) -> Baseline {
    let outlines = f.font.outline_glyphs();
    let coords = coords_of(f.axes, &cfg.loc);
    let mut out = Baseline { inst: Ok(()), draws: vec![], repeat_fail: None };
    match &cfg.hint {
        Hint::Unhinted { harfbuzz } => {
            let how = How::Unhinted { size: size_of(cfg.ppem64), coords: &coords, harfbuzz: *harfbuzz };
            for g in gids {
                out.draws.push(outlines.get(*g).map(|gl| {
                    let a = draw_one(&gl, &how, None);
                    let b = draw_one(&gl, &how, None);
                    if !a.same(&b) && out.repeat_fail.is_none() {
                        out.repeat_fail = Some(format!("gid {}: {}", g.to_u32(), describe_diff(&a, &b)));
                    }
                    a
                }));
            }
        }
        Hint::Hinted { engine, pedantic, .. } => {
            let per_glyph = *engine == 0 || (*engine == 2 && f.instructed);
            let mut shared: Option<HintingInstance> = None;
            for (i, g) in gids.iter().enumerate() {
                if per_glyph || i == 0 {
                    match new_instance(f, &outlines, cfg.ppem64, &coords, &cfg.hint) {
                        Ok(inst) => shared = Some(inst),
                        Err(e) => {
                            out.inst = Err(e);
                            return out;
                        }
                    }
                }
                let inst = shared.as_ref().unwrap();
                let how = How::Hinted { inst, pedantic: *pedantic };
                out.draws.push(outlines.get(*g).map(|gl| {
                    let a = draw_one(&gl, &how, None);
                    let b = draw_one(&gl, &how, None);
                    if !a.same(&b) && out.repeat_fail.is_none() {
                        out.repeat_fail = Some(format!("gid {}: {}", g.to_u32(), describe_diff(&a, &b)));
                    }
                    a
                }));
            }
        }
    }
    out
}

fn baseline(f: &'static FontEntry, cfg: &Cfg, gids: &[GlyphId]) -> Result<Baseline, Fail> {
    let r = std::thread::scope(|s| {
        std::thread::Builder::new().stack_size(16 << 20).spawn_scoped(s, || guarded(|| baseline_here(f, cfg, gids))).expect("spawn baseline thread").join()
    });
    match r {
        Ok(r) => r,
        Err(_) => Err(fail("harness", "baseline thread died".into())),
    }
}

fn sel_font(sel: &FontSel, observed: &'static FontEntry) -> &'static FontEntry {
    match sel {
        FontSel::Same => observed,
        FontSel::Pick(r) => pick_font(*r),
        FontSel::Syn(r) => pick_syn(*r),
    }
}

/// Runs the reconfigure/draw history; returns the instance (if any reconfigure ever succeeded in creating one) and the
/// number of successful (re)configurations.
fn run_history(history: &[Step], observed: &'static FontEntry, obs: &Cfg, scratch: &mut Scratch, buf: &Buf, stats: &Stats) -> (Option<HintingInstance>, usize, usize) {
    let mut inst: Option<HintingInstance> = None;
    let mut ok_steps = 0;
    let mut other_format = 0;
    for st0 in history {
        // one-dimension neighbours of the observed configuration
        let tweaked;
        let st = match (st0.tweak, &obs.hint, &st0.hint) {
            (Some(k), Hint::Hinted { engine: oe, target: ot, pedantic }, Hint::Hinted { engine: se, target: stt, .. }) => {
                let mut t = Step { font: FontSel::Same, ppem64: obs.ppem64, loc: obs.loc.clone(), hint: Hint::Hinted { engine: *oe, target: *ot, pedantic: *pedantic }, draws: st0.draws.clone(), tweak: st0.tweak };
                match k % 4 {
                    0 => t.loc = st0.loc.clone(),
                    1 => t.ppem64 = st0.ppem64,
                    2 => t.hint = Hint::Hinted { engine: *oe, target: *stt, pedantic: *pedantic },
                    _ => t.hint = Hint::Hinted { engine: *se, target: *ot, pedantic: *pedantic },
                }
                stats.class(match k % 4 {
                    0 => "history-step=observed-K-other-location",
                    1 => "history-step=observed-K-other-size",
                    2 => "history-step=observed-K-other-target",
                    _ => "history-step=observed-K-other-engine",
                });
                tweaked = t;
                &tweaked
            }
            _ => st0,
        };
        let sf = sel_font(&st.font, observed);
        let so = sf.font.outline_glyphs();
        let coords = coords_of(sf.axes, &st.loc);
        let r = match inst.as_mut() {
            None => match new_instance(sf, &so, st.ppem64, &coords, &st.hint) {
                Ok(i) => {
                    inst = Some(i);
                    Ok(())
                }
                Err(e) => Err(e),
            },
            Some(i) => reconfigure(i, font_key(sf), &so, st.ppem64, &coords, &st.hint),
        };
        if r.is_err() {
            stats.class("history-step-reconfigure-err");
            continue;
        }
        ok_steps += 1;
        if sf.format != observed.format {
            other_format += 1;
        }
        let pedantic = matches!(st.hint, Hint::Hinted { pedantic: true, .. });
        let i = inst.as_ref().unwrap();
        let how = How::Hinted { inst: i, pedantic };
        for (raw, with_mem) in &st.draws {
            if let Some(gl) = so.get(pick_gid(sf, *raw)) {
                let _ = if *with_mem && buf.mode != 0 { draw_mem(&gl, &how, scratch, buf) } else { draw_one(&gl, &how, None) };
            }
        }
    }
    (inst, ok_steps, other_format)
}

// =============================================================================================
// stage 1: history / memory / zero location

#[derive(Clone, Debug, Serialize, Deserialize)]
struct Case {
    font: u32,
    cfg: Cfg,
    /// when cfg.loc is None: the variations pass an all-zero vector (0 = one per axis, n = n entries) instead
    zero_len: Option<u8>,
    gids: Vec<u32>,
    history: Vec<Step>,
    /// other glyphs drawn with the final configuration before the observed ones
    pre: Vec<(u32, bool)>,
    buf: Buf,
    via_clone: bool,
}

fn case_strategy() -> impl Strategy<Value = Case> {
    (
        any::<u32>(),
        obs_cfg_strategy(),
        prop_oneof![2 => Just(None), 1 => (0u8..6).prop_map(Some)],
        proptest::collection::vec(any::<u32>(), 1..=3),
        prop_oneof![1 => Just(vec![]).boxed(), 9 => proptest::collection::vec(step_strategy(), 1..=6).boxed()],
        proptest::collection::vec((any::<u32>(), any::<bool>()), 0..=20),
        buf_strategy(),
        any::<bool>(),
    )
        .prop_map(|(font, cfg, zero_len, gids, history, pre, buf, via_clone)| Case { font, cfg, zero_len, gids, history, pre, buf, via_clone })
}

fn compare(sig: &str, what: &str, f: &FontEntry, g: GlyphId, cfg: &Cfg, base: &Drawn, got: &Drawn) -> CaseResult {
    if base.same(got) {
        Ok(())
    } else {
        Err(fail(sig, format!("{what}: font {} gid {} cfg {:?}: {}", f.name, g.to_u32(), cfg, describe_diff(base, got))))
    }
}

fn check_wf(f: &FontEntry, g: GlyphId, cfg: &Cfg, d: &Drawn, stats: &Stats) -> CaseResult {
    if !d.is_ok() {
        return Ok(());
    }
    check_metrics_finite(d).map_err(|e| fail("metrics-not-finite", format!("font {} gid {} cfg {:?}: {e}", f.name, g.to_u32(), cfg)))?;
    if f.format == OutlineGlyphFormat::Glyf {
        let n = well_formed(d).map_err(|e| fail("malformed-stream", format!("font {} gid {} cfg {:?}: {e}", f.name, g.to_u32(), cfg)))?;
        if n > 0 {
            stats.class("wf-checked-nonempty");
        }
        if d.cmds.windows(2).any(|w| matches!(w[0], Cmd::M(..)) && w[1] == Cmd::Z) {
            stats.class("wf-single-point-contour");
        }
    }
    Ok(())
}

fn test_history(c: &Case, stats: &Stats) -> CaseResult {
    clear_styles();
    let f = pick_font(c.font);
    let outlines = f.font.outline_glyphs();
    let gids: Vec<GlyphId> = c.gids.iter().map(|r| pick_gid(f, *r)).collect();
    let buf = c.buf.clone();
    if buf.mode != 0 && hb_composite(f, &c.cfg.hint, &gids) && (buf.fill % 6 != 0 || buf.reuse) {
        stats.class("hb-style-composite-dirty-memory");
    }
    let base = baseline(f, &c.cfg, &gids)?;
    if let Some(e) = &base.repeat_fail {
        return Err(fail("repeat-mismatch", format!("second draw through the same fresh instance differs: font {} cfg {:?}: {e}", f.name, c.cfg)));
    }
    for (g, d) in gids.iter().zip(&base.draws) {
        if let Some(d) = d {
            check_wf(f, *g, &c.cfg, d, stats)?;
        }
    }
    // coordinates used by the variations
    let zero_variant = c.cfg.loc == Loc::None && c.zero_len.is_some();
    let var_loc = if zero_variant { Loc::Zeros(c.zero_len.unwrap()) } else { c.cfg.loc.clone() };
    let coords = coords_of(f.axes, &var_loc);
    let mut scratch = Scratch::default();
    let (inst, ok_steps, other_format) = run_history(&c.history, f, &c.cfg, &mut scratch, &buf, stats);

    let hinted = matches!(c.cfg.hint, Hint::Hinted { .. });
    let mut used: Option<HintingInstance> = inst;
    if hinted {
        let r = match used.as_mut() {
            None => match new_instance(f, &outlines, c.cfg.ppem64, &coords, &c.cfg.hint) {
                Ok(i) => {
                    used = Some(i);
                    Ok(())
                }
                Err(e) => Err(e),
            },
            Some(i) => reconfigure(i, font_key(f), &outlines, c.cfg.ppem64, &coords, &c.cfg.hint),
        };
        if r != base.inst {
            return Err(fail(
                "reconfigure-result",
                format!("font {} cfg {:?}: fresh HintingInstance::new -> {:?}, reconfigure after {} earlier configurations -> {:?}", f.name, c.cfg, base.inst, ok_steps, r),
            ));
        }
        if r.is_err() {
            stats.class("observed-config-rejected");
            return Ok(());
        }
    }
    let cloned;
    let used_ref: Option<&HintingInstance> = if c.via_clone && used.is_some() {
        cloned = used.as_ref().unwrap().clone();
        Some(&cloned)
    } else {
        used.as_ref()
    };
    let how = match &c.cfg.hint {
        Hint::Unhinted { harfbuzz } => How::Unhinted { size: size_of(c.cfg.ppem64), coords: &coords, harfbuzz: *harfbuzz },
        Hint::Hinted { pedantic, .. } => How::Hinted { inst: used_ref.unwrap(), pedantic: *pedantic },
    };
    // glyphs drawn before
    for (raw, with_mem) in &c.pre {
        if let Some(gl) = outlines.get(pick_gid(f, *raw)) {
            let _ = if *with_mem && buf.mode != 0 { draw_mem(&gl, &how, &mut scratch, &buf) } else { draw_one(&gl, &how, None) };
        }
    }
    let mut any_hinting = false;
    let mut any_ok = false;
    for (g, b) in gids.iter().zip(&base.draws) {
        let gl = outlines.get(*g);
        let (Some(gl), Some(b)) = (gl, b) else {
            stats.class("gid-not-in-collection");
            continue;
        };
        any_hinting |= gl.has_hinting() == Some(true);
        any_ok |= b.is_ok();
        let what = if ok_steps > 0 { "reused instance (library memory)" } else { "second instance (library memory)" };
        let d1 = draw_one(&gl, &how, None);
        compare(if zero_variant { "zero-location-mismatch" } else if hinted { "history-mismatch" } else { "draw-order-mismatch" }, what, f, *g, &c.cfg, b, &d1)?;
        if buf.mode != 0 {
            let d2 = draw_mem(&gl, &how, &mut scratch, &buf);
            compare(
                "memory-mismatch",
                &format!("caller memory ({} bytes advertised, mode {}, slack {}, start%8={}, fill {}, reuse {})", mem_need(&gl, hinted), buf.mode, buf.slack, buf.misalign, buf.fill, buf.reuse),
                f,
                *g,
                &c.cfg,
                b,
                &d2,
            )?;
            let d3 = draw_one(&gl, &how, None);
            compare("repeat-mismatch", "library memory after a caller-memory draw", f, *g, &c.cfg, b, &d3)?;
        }
    }
    // evidence
    stats.class(match f.format {
        OutlineGlyphFormat::Glyf => "fmt=glyf",
        OutlineGlyphFormat::Cff => "fmt=cff",
        OutlineGlyphFormat::Cff2 => "fmt=cff2",
    });
    if f.synthetic {
        stats.class("font=synthetic");
    } else if f.third_party {
        stats.class("font=third-party");
    }
    stats.class(match &c.cfg.hint {
        Hint::Unhinted { harfbuzz: false } => "K=unhinted",
        Hint::Unhinted { harfbuzz: true } => "K=unhinted-harfbuzz-style",
        Hint::Hinted { engine: 0, .. } => "K=interpreter",
        Hint::Hinted { engine: 1, .. } => "K=auto",
        Hint::Hinted { engine: 2, .. } => "K=autofallback",
        Hint::Hinted { .. } => "K=auto-precomputed-styles",
    });
    stats.class(match buf.mode {
        0 => "buf=library",
        1 => "buf=exact",
        _ => "buf=slack",
    });
    if buf.mode != 0 && buf.misalign % 4 != 0 {
        stats.class("buf=misaligned");
    }
    stats.class(&format!("history={}", ok_steps.min(6)));
    if other_format > 0 {
        stats.class("history-other-outline-format");
    }
    if zero_variant {
        stats.class("loc=zeros-vs-none");
    } else if c.cfg.loc != Loc::None {
        stats.class("loc=coords");
    } else {
        stats.class("loc=none");
    }
    if c.cfg.ppem64 == 0 {
        stats.class("size=unscaled");
    }
    if !any_ok {
        stats.class("all-draws-failed");
    }
    let nondefault = f.axes > 0 && coords.iter().any(|c| *c != F2Dot14::ZERO);
    let interp = interp_effective(f, &c.cfg.hint) && f.format == OutlineGlyphFormat::Glyf;
    if interp && any_hinting {
        stats.class("instructed-glyph-hinted");
    }
    if nondefault {
        stats.class("variable-nondefault");
    }
    if ok_steps >= 1 && any_ok && ((interp && any_hinting) || nondefault) {
        stats.nontrivial(hash_json(c));
        if stats.want_sample() {
            stats.sample(serde_json::json!({"stage": "history", "font": f.name, "gids": gids.iter().map(|g| g.to_u32()).collect::<Vec<_>>(), "cfg": c.cfg,
                "history": c.history.iter().map(|s| serde_json::json!({"font": sel_font(&s.font, f).name, "ppem64": s.ppem64, "hint": s.hint, "draws": s.draws.len()})).collect::<Vec<_>>(),
                "pre_draws": c.pre.len(), "buf": buf, "commands": base.draws.iter().flatten().map(|d| d.cmds.len()).collect::<Vec<_>>()}));
        }
    }
    Ok(())
}

// =============================================================================================
// stage 2: threads

#[derive(Clone, Debug, Serialize, Deserialize)]
struct TCase {
    font: u32,
    cfg: Cfg,
    zero_len: Option<u8>,
    gids: Vec<u32>,
    history: Vec<Step>,
    /// one entry per thread: permutation seed
    threads: Vec<u64>,
    rounds: u8,
    /// bit i: thread i draws through its own clone instead of the shared reference
    clone_mask: u16,
    /// bit i: thread i supplies caller memory
    mem_mask: u16,
    buf: Buf,
}

fn tcase_strategy() -> impl Strategy<Value = TCase> {
    (
        any::<u32>(),
        (ppem_strategy(), obs_loc_strategy(), prop_oneof![1 => Just(Hint::Unhinted { harfbuzz: false }).boxed(), 9 => hinted_strategy()]).prop_map(|(ppem64, loc, hint)| Cfg { ppem64, loc, hint }),
        prop_oneof![3 => Just(None), 1 => (0u8..6).prop_map(Some)],
        proptest::collection::vec(any::<u32>(), 4..=24),
        proptest::collection::vec(step_strategy(), 0..=2),
        proptest::collection::vec(any::<u64>(), 8..=12),
        1u8..=3,
        prop_oneof![3 => Just(0u16), 1 => any::<u16>()],
        any::<u16>(),
        buf_strategy(),
    )
        .prop_map(|(font, cfg, zero_len, gids, history, threads, rounds, clone_mask, mem_mask, buf)| TCase { font, cfg, zero_len, gids, history, threads, rounds, clone_mask, mem_mask, buf })
}

fn test_threads(c: &TCase, stats: &Stats) -> CaseResult {
    clear_styles();
    let f = pick_font(c.font);
    let outlines = f.font.outline_glyphs();
    let gids: Vec<GlyphId> = c.gids.iter().map(|r| pick_gid(f, *r)).collect();
    // baseline: single fresh instance per glyph (or shared for auto), fresh thread
    let base = baseline(f, &c.cfg, &gids)?;
    if let Some(e) = &base.repeat_fail {
        return Err(fail("repeat-mismatch", format!("second draw through the same fresh instance differs: font {} cfg {:?}: {e}", f.name, c.cfg)));
    }
    let zero_variant = c.cfg.loc == Loc::None && c.zero_len.is_some();
    let var_loc = if zero_variant { Loc::Zeros(c.zero_len.unwrap()) } else { c.cfg.loc.clone() };
    let coords = coords_of(f.axes, &var_loc);
    let mut scratch = Scratch::default();
    let (inst, ok_steps, _) = run_history(&c.history, f, &c.cfg, &mut scratch, &c.buf, stats);
    let hinted = matches!(c.cfg.hint, Hint::Hinted { .. });
    let mut used = inst;
    if hinted {
        let r = match used.as_mut() {
            None => match new_instance(f, &outlines, c.cfg.ppem64, &coords, &c.cfg.hint) {
                Ok(i) => {
                    used = Some(i);
                    Ok(())
                }
                Err(e) => Err(e),
            },
            Some(i) => reconfigure(i, font_key(f), &outlines, c.cfg.ppem64, &coords, &c.cfg.hint),
        };
        if r != base.inst {
            return Err(fail("reconfigure-result", format!("font {} cfg {:?}: fresh new -> {:?}, reconfigure after {} configurations -> {:?}", f.name, c.cfg, base.inst, ok_steps, r)));
        }
        if r.is_err() {
            stats.class("observed-config-rejected");
            return Ok(());
        }
    }
    let shared: Option<&HintingInstance> = used.as_ref();
    let font_ref: &FontRef<'static> = &f.font;
    let n = c.threads.len();
    let barrier = std::sync::Barrier::new(n);
    let results: Vec<CaseResult> = std::thread::scope(|s| {
        let mut hs = vec![];
        for (ti, seed) in c.threads.iter().enumerate() {
            let (barrier, base, gids, coords, cfg, buf) = (&barrier, &base, &gids, &coords, &c.cfg, &c.buf);
            let own_clone = c.clone_mask >> (ti % 16) & 1 != 0;
            let with_mem = c.mem_mask >> (ti % 16) & 1 != 0 && c.buf.mode != 0;
            let rounds = c.rounds;
            let seed = *seed;
            hs.push(
                std::thread::Builder::new()
                    .stack_size(16 << 20)
                    .spawn_scoped(s, move || -> CaseResult {
                        // every thread builds its own collection from the shared FontRef
                        let outlines = font_ref.outline_glyphs();
                        let cloned = if own_clone { shared.cloned() } else { None };
                        let inst: Option<&HintingInstance> = if own_clone { cloned.as_ref() } else { shared };
                        let how = match &cfg.hint {
                            Hint::Unhinted { harfbuzz } => How::Unhinted { size: size_of(cfg.ppem64), coords, harfbuzz: *harfbuzz },
                            Hint::Hinted { pedantic, .. } => How::Hinted { inst: inst.unwrap(), pedantic: *pedantic },
                        };
                        let mut order: Vec<usize> = (0..gids.len()).collect();
                        let mut p = seed;
                        let mut scratch = Scratch::default();
                        let mut tb = buf.clone();
                        tb.misalign = (buf.misalign + ti as u8) % 8;
                        barrier.wait();
                        let r = guarded(|| -> CaseResult {
                            for _ in 0..rounds {
                                for i in (1..order.len()).rev() {
                                    p = p.wrapping_mul(6364136223846793005).wrapping_add(1442695040888963407);
                                    order.swap(i, ((p >> 33) % (i as u64 + 1)) as usize);
                                }
                                for &k in &order {
                                    let (Some(gl), Some(b)) = (outlines.get(gids[k]), &base.draws[k]) else { continue };
                                    let d = if with_mem { draw_mem(&gl, &how, &mut scratch, &tb) } else { draw_one(&gl, &how, None) };
                                    if !b.same(&d) {
                                        return Err(fail(
                                            "thread-mismatch",
                                            format!("thread {ti} of {} ({}{}): font {} gid {} cfg {:?}: {}", n, if own_clone { "own clone" } else { "shared &HintingInstance" },
                                                if with_mem { ", caller memory" } else { "" }, f.name, gids[k].to_u32(), cfg, describe_diff(b, &d)),
                                        ));
                                    }
                                }
                            }
                            Ok(())
                        });
                        r.and_then(|r| r)
                    })
                    .expect("spawn"),
            );
        }
        hs.into_iter().map(|h| h.join().unwrap_or_else(|_| Err(fail("harness", "drawing thread died".into())))).collect()
    });
    for r in results {
        r?;
    }
    stats.evals((n * gids.len() * c.rounds as usize) as u64);
    stats.class(match &c.cfg.hint {
        Hint::Unhinted { .. } => "T:K=unhinted",
        Hint::Hinted { engine: 0, .. } => "T:K=interpreter",
        Hint::Hinted { engine: 2, .. } if f.instructed => "T:K=autofallback->interpreter",
        Hint::Hinted { .. } => "T:K=autohinter(lazy shared metrics)",
    });
    stats.class(&format!("T:threads={n}"));
    let any_hinting = gids.iter().any(|g| outlines.get(*g).map(|gl| gl.has_hinting() == Some(true)).unwrap_or(false));
    let any_ok = base.draws.iter().flatten().any(|d| d.is_ok());
    let nondefault = f.axes > 0 && coords.iter().any(|c| *c != F2Dot14::ZERO);
    let interp = interp_effective(f, &c.cfg.hint) && f.format == OutlineGlyphFormat::Glyf;
    let auto = hinted && !interp_effective(f, &c.cfg.hint) && f.format == OutlineGlyphFormat::Glyf;
    if any_ok && hinted && ((interp && any_hinting) || nondefault || auto) {
        stats.nontrivial(hash_json(c));
        if stats.want_sample() && ok_steps > 0 {
            stats.sample(serde_json::json!({"stage": "threads", "font": f.name, "cfg": c.cfg, "threads": n, "glyphs": gids.len(), "rounds": c.rounds, "history": ok_steps}));
        }
    }
    Ok(())
}

// =============================================================================================
// stage 3: the history of the process (static / global state): a child process recomputes baselines in reverse order

#[derive(Clone, Debug, Serialize, Deserialize)]
struct PItem {
    font: u32,
    cfg: Cfg,
    gid: u32,
}
#[derive(Clone, Debug, Serialize, Deserialize)]
struct PCase {
    items: Vec<PItem>,
}

fn pcase_strategy() -> impl Strategy<Value = PCase> {
    proptest::collection::vec((any::<u32>(), obs_cfg_strategy(), any::<u32>()).prop_map(|(font, cfg, gid)| PItem { font, cfg, gid }), 6..=20).prop_map(|items| PCase { items })
}

fn pitem_draw(it: &PItem) -> Option<(Result<(), String>, Option<Drawn>)> {
    let f = pick_font(it.font);
    let g = pick_gid(f, it.gid);
    let b = baseline_here(f, &it.cfg, &[g]);
    Some((b.inst, b.draws.into_iter().next().flatten()))
}

fn child_main() -> ! {
    use std::io::Read;
    let mut s = String::new();
    std::io::stdin().read_to_string(&mut s).expect("stdin");
    let c: PCase = serde_json::from_str(&s).expect("case");
    let mut out: Vec<Option<(Result<(), String>, Option<Drawn>)>> = vec![None; c.items.len()];
    for (i, it) in c.items.iter().enumerate().rev() {
        out[i] = std::panic::catch_unwind(|| pitem_draw(it)).unwrap_or(None);
    }
    println!("{}", serde_json::to_string(&out).unwrap());
    std::process::exit(0);
}

static INFRA: std::sync::Mutex<Vec<String>> = std::sync::Mutex::new(Vec::new());
/// trouble of the harness itself (process spawning) is infrastructure, never a verdict
fn infra(msg: String) -> CaseResult {
    INFRA.lock().unwrap().push(msg);
    Ok(())
}

fn test_process(c: &PCase, stats: &Stats) -> CaseResult {
    use std::io::Write;
    let Ok(exe) = std::env::current_exe() else { return infra("current_exe failed".into()) };
    let mut child = match std::process::Command::new(exe)
        .env("C12_CHILD", "1")
        .stdin(std::process::Stdio::piped())
        .stdout(std::process::Stdio::piped())
        .stderr(std::process::Stdio::null())
        .spawn()
    {
        Ok(c) => c,
        Err(e) => return infra(format!("fresh-process: spawn child: {e}")),
    };
    if let Err(e) = child.stdin.take().unwrap().write_all(serde_json::to_string(c).unwrap().as_bytes()) {
        let _ = child.kill();
        let _ = child.wait();
        return infra(format!("fresh-process: write to child: {e}"));
    }
    // this process: forward order, after whatever this process has done before
    let mine: Vec<Option<(Result<(), String>, Option<Drawn>)>> = c.items.iter().map(pitem_draw).collect();
    let out = match child.wait_with_output() {
        Ok(o) => o,
        Err(e) => return infra(format!("fresh-process: wait for child: {e}")),
    };
    let theirs: Vec<Option<(Result<(), String>, Option<Drawn>)>> = match serde_json::from_slice(&out.stdout) {
        Ok(t) => t,
        Err(e) => return infra(format!("fresh-process: child output undecodable ({e}); status {}", out.status)),
    };
    if theirs.len() != mine.len() {
        return infra("fresh-process: child returned a different number of items".into());
    }
    let mut nt = false;
    for (i, (a, b)) in theirs.iter().zip(&mine).enumerate() {
        let it = &c.items[i];
        let f = pick_font(it.font);
        let g = pick_gid(f, it.gid);
        match (a, b) {
            (Some((ia, da)), Some((ib, db))) => {
                if ia != ib {
                    return Err(fail("process-history-mismatch", format!("font {} cfg {:?}: HintingInstance::new in a fresh process -> {:?}, in this process -> {:?}", f.name, it.cfg, ia, ib)));
                }
                match (da, db) {
                    (Some(da), Some(db)) => {
                        compare("process-history-mismatch", "fresh process (baseline) vs this process", f, g, &it.cfg, da, db)?;
                        if da.is_ok() && !da.cmds.is_empty() && matches!(it.cfg.hint, Hint::Hinted { .. }) {
                            nt = true;
                        }
                    }
                    (None, None) => {}
                    _ => return Err(fail("process-history-mismatch", format!("font {} gid {}: glyph present in one process only", f.name, g.to_u32()))),
                }
            }
            (None, _) => return Err(fail("process-history-mismatch", format!("item {i} (font {} gid {} cfg {:?}): panic in the fresh process, none in this process", f.name, g.to_u32(), it.cfg))),
            (_, None) => unreachable!(),
        }
    }
    stats.evals(c.items.len() as u64);
    stats.class("P:batches");
    if nt {
        stats.nontrivial(hash_json(c));
    }
    Ok(())
}

// =============================================================================================
// stage 0: enumeration over the synthetic family (every ordered font pair x glyph x size pair x target class)

#[derive(Clone, Debug, Serialize, Deserialize)]
struct SynCase {
    first: u8,
    first_ppem: u16,
    second: u8,
    second_ppem: u16,
    target: u8,
    /// glyph of `first` drawn between the two configurations
    between: u8,
    gid: u8,
    misalign: u8,
    fill: u8,
}

const SYN_PPEMS: [u16; 4] = [11, 19, 20, 33];
const SYN_TARGETS: [u8; 3] = [0, 1, 11];

fn syn_count() -> u64 {
    (3 * 4 * 3 * 4 * 3 * SYN_GLYPHS) as u64
}
fn syn_case(i: u64) -> SynCase {
    let mut i = i;
    let mut take = |n: u64| {
        let r = i % n;
        i /= n;
        r
    };
    let gid = take(SYN_GLYPHS as u64) as u8;
    let target = SYN_TARGETS[take(3) as usize];
    let second_ppem = SYN_PPEMS[take(4) as usize];
    let second = take(3) as u8;
    let first_ppem = SYN_PPEMS[take(4) as usize];
    let first = take(3) as u8;
    SynCase { first, first_ppem, second, second_ppem, target, between: (gid.wrapping_mul(5).wrapping_add(first)) % SYN_GLYPHS as u8, gid, misalign: (gid + second) % 8, fill: (gid + first) % 6 }
}

fn test_syn(c: &SynCase, stats: &Stats) -> CaseResult {
    let syn = &corpus().syn;
    if syn.len() != 3 {
        return Err(fail("harness", "synthetic fonts missing".into()));
    }
    let fa = &corpus().fonts[syn[c.first as usize % 3] as usize];
    let fb = &corpus().fonts[syn[c.second as usize % 3] as usize];
    let hint = Hint::Hinted { engine: 0, target: c.target, pedantic: false };
    let cfg = Cfg { ppem64: c.second_ppem as u32 * 64, loc: Loc::None, hint: hint.clone() };
    let g = GlyphId::new(c.gid as u32);
    let base = baseline(fb, &cfg, &[g])?;
    let Some(b) = base.draws.first().cloned().flatten() else {
        return Err(fail("harness", format!("synthetic baseline missing: {:?}", base.inst)));
    };
    check_wf(fb, g, &cfg, &b, stats)?;
    let oa = fa.font.outline_glyphs();
    let ob = fb.font.outline_glyphs();
    let mut inst = new_instance(fa, &oa, c.first_ppem as u32 * 64, &[], &hint).map_err(|e| fail("harness", format!("synthetic font rejected: {e}")))?;
    if let Some(gl) = oa.get(GlyphId::new(c.between as u32)) {
        let _ = draw_one(&gl, &How::Hinted { inst: &inst, pedantic: false }, None);
    }
    reconfigure(&mut inst, font_key(fb), &ob, cfg.ppem64, &[], &hint).map_err(|e| fail("reconfigure-result", format!("fresh ok, reconfigure failed: {e}")))?;
    let gl = ob.get(g).unwrap();
    let how = How::Hinted { inst: &inst, pedantic: false };
    // writer glyph first, then the observed one
    if let Some(w) = ob.get(GlyphId::new(8)) {
        let _ = draw_one(&w, &how, None);
    }
    let d = draw_one(&gl, &how, None);
    compare("history-mismatch", &format!("instance configured for {}@{} before", fa.name, c.first_ppem), fb, g, &cfg, &b, &d)?;
    let buf = Buf { mode: 1, slack: 0, misalign: c.misalign, fill: c.fill, reuse: false };
    let mut scratch = Scratch::default();
    let d2 = draw_mem(&gl, &how, &mut scratch, &buf);
    compare("memory-mismatch", &format!("caller memory, start%8={}, fill {}", c.misalign, c.fill), fb, g, &cfg, &b, &d2)?;
    stats.class("S:pairs");
    if gl.has_hinting() == Some(true) && b.is_ok() {
        stats.nontrivial(hash_json(c));
    }
    Ok(())
}

// ---------------------------------------------------------------------------------------------
// stage: HarfBuzz-style unhinted draws of variable glyf fonts with *dirty* caller memory (regression stage for the repaired defect on
// composite glyphs; any other glyph must be unaffected by the buffer's prior content)

#[derive(Clone, Debug, Serialize, Deserialize)]
struct HbCase {
    font: String,
    gid: u32,
    fill: u8,
    misalign: u8,
    /// 0 = no location, 1 = +1 on every axis, 2 = -1 on every axis
    loc: u8,
    ppem64: u32,
}

fn hb_list() -> &'static Vec<(u32, u32)> {
    static L: OnceLock<Vec<(u32, u32)>> = OnceLock::new();
    L.get_or_init(|| {
        let mut v = vec![];
        for (i, f) in corpus().fonts.iter().enumerate() {
            if f.has_gvar && f.format == OutlineGlyphFormat::Glyf {
                for g in 0..f.nglyphs.min(40) {
                    v.push((i as u32, g));
                }
            }
        }
        v
    })
}
fn hb_count() -> u64 {
    hb_list().len() as u64 * 15
}
fn hb_case(i: u64) -> HbCase {
    let l = hb_list();
    let (fi, g) = l[(i / 15) as usize % l.len()];
    let k = i % 15;
    HbCase { font: corpus().fonts[fi as usize].name.clone(), gid: g, fill: (k % 5) as u8 + 1, misalign: (i % 8) as u8, loc: (k / 5) as u8, ppem64: if i % 2 == 0 { 0 } else { 16 * 64 } }
}
fn test_hb(c: &HbCase, stats: &Stats) -> CaseResult {
    let Some(f) = corpus().fonts.iter().find(|f| f.name == c.font) else { return Err(fail("harness", format!("font {} not in corpus", c.font))) };
    let o = f.font.outline_glyphs();
    let g = GlyphId::new(c.gid);
    let Some(gl) = o.get(g) else { return Ok(()) };
    let loc = match c.loc {
        0 => Loc::None,
        1 => Loc::Coords(vec![16384]),
        _ => Loc::Coords(vec![-16384]),
    };
    let coords = coords_of(f.axes, &loc);
    let how = How::Unhinted { size: size_of(c.ppem64), coords: &coords, harfbuzz: true };
    let b = draw_one(&gl, &how, None);
    let buf = Buf { mode: 1, slack: 0, misalign: c.misalign, fill: c.fill, reuse: false };
    let mut scratch = Scratch::default();
    let d = draw_mem(&gl, &how, &mut scratch, &buf);
    let cfg = Cfg { ppem64: c.ppem64, loc, hint: Hint::Unhinted { harfbuzz: true } };
    let comp = is_composite(f, g);
    stats.class(if comp { "HB:composite" } else { "HB:simple-or-empty" });
    if b.is_ok() && !b.cmds.is_empty() {
        stats.nontrivial(hash_json(c));
    }
    compare(if comp { HB_KNOWN_SIG } else { "memory-mismatch" }, &format!("HarfBuzz-style draw, caller memory with prior content (fill {}), start%8={}", c.fill, c.misalign), f, g, &cfg, &b, &d)
}

/// the synthetic programs must execute without error (pedantic) and the retained state must be visible in the outline,
/// otherwise the family proves nothing
fn synthetic_selftest() -> Result<serde_json::Value, String> {
    let c = corpus();
    if c.syn.len() != 3 {
        return Err(format!("expected 3 synthetic fonts with outlines, found {}", c.syn.len()));
    }
    let mut report = serde_json::Map::new();
    for (vi, &fi) in c.syn.iter().enumerate() {
        let f = &c.fonts[fi as usize];
        let o = f.font.outline_glyphs();
        for ppem in [12u32, 24] {
            let hint = Hint::Hinted { engine: 0, target: 0, pedantic: true };
            let inst = new_instance(f, &o, ppem * 64, &[], &hint).map_err(|e| format!("{} @{ppem}: {e}", f.name))?;
            let mut moved = vec![];
            for g in 0..SYN_GLYPHS as u32 {
                let gl = o.get(GlyphId::new(g)).ok_or("glyph missing")?;
                let h = draw_one(&gl, &How::Hinted { inst: &inst, pedantic: true }, None);
                let u = draw_one(&gl, &How::Unhinted { size: size_of(ppem * 64), coords: &[], harfbuzz: false }, None);
                // undefined function / opcode glyphs are expected to fail in pedantic mode in the fonts lacking the definition
                let expect_err = match (vi, g) {
                    (1, 4) | (1, 6) | (1, 7) | (2, 7) => true,
                    _ => false,
                };
                if h.is_ok() == expect_err {
                    return Err(format!("{} @{ppem} gid {g}: pedantic hinted draw -> {:?}, expected {}", f.name, h.res, if expect_err { "an error" } else { "success" }));
                }
                if h.is_ok() && !h.same(&Drawn { res: h.res.clone(), cmds: u.cmds.clone() }) {
                    moved.push(g);
                }
            }
            report.insert(format!("{}@{ppem}:glyphs-moved-by-hinting", f.name), serde_json::json!(moved));
            // A: every reader glyph must be moved
            if vi == 0 {
                for g in [1u32, 2, 3, 4, 5, 6, 7, 8, 9, 11] {
                    if !moved.contains(&g) {
                        return Err(format!("{} @{ppem}: glyph {g} is not affected by its program", f.name));
                    }
                }
            }
        }
    }
    Ok(serde_json::Value::Object(report))
}

// =============================================================================================

// =============================================================================================
// stage: generated instructed fonts. fpgm / prep / glyph programs are assembled from generated (producer, consumer) pairs:
// a producer leaves one value on the interpreter stack — by regular means or by every misuse the interpreter tolerates in
// non-pedantic mode (CINDEX/MINDEX with k <= 0, k = depth, k > depth, huge; RS/RCVT of never-written, negative or
// out-of-range cells; DEPTH after underflowing pops; coordinates/distances of twilight or glyph points never written or
// out of range; CALL of undefined functions; undefined opcodes; arithmetic on an empty stack; arbitrary short sequences of
// stack/arithmetic opcodes) — and a consumer feeds that value into a point movement (SHPIX, MSIRP, SCFS, WCVTP+MIAP,
// WS+RS+SHPIX, as a point number, as a loop count). Whatever the value is, it must not depend on the scratch memory
// (library vs caller memory with any prior content / leftovers of previous draws) nor on the instance's earlier configuration.

fn ix_strategy() -> BoxedStrategy<i16> {
    prop_oneof![8 => -3i16..=12, 1 => Just(-1i16), 1 => Just(i16::MIN), 1 => Just(i16::MAX), 2 => 12i16..=300, 1 => any::<i16>()].boxed()
}
fn val_strategy() -> BoxedStrategy<i16> {
    prop_oneof![4 => -256i16..=256, 1 => Just(64i16), 1 => Just(0i16), 1 => any::<i16>()].boxed()
}

const SAFE_OPS: [u8; 32] = [
    0x20, 0x21, 0x22, 0x23, 0x24, 0x25, 0x26, 0x8A, 0x60, 0x61, 0x62, 0x63, 0x64, 0x65, 0x66, 0x67, 0x8B, 0x8C, 0x50, 0x54, 0x5A, 0x5B, 0x5C, 0x43, 0x45, 0x4B,
    0x4C, 0x68, 0x6C, 0x56, 0x57, 0x24,
];
const UNUSED_OPS: [u8; 8] = [0x28, 0x7B, 0x83, 0x84, 0x8F, 0x90, 0x91, 0x92];

#[derive(Clone, Debug, Serialize, Deserialize)]
enum Prod {
    Const(i16),
    CIndex { extra: Vec<i16>, k: i16, mindex: bool },
    CIndexBig { a: i16, b: i16, mindex: bool },
    Rs(i16),
    Rcvt(i16),
    DepthAfterPops(u8),
    Gc { tw: bool, pt: i16, orig: bool },
    Md { tw: bool, a: i16, b: i16, orig: bool },
    Call(i16),
    Unused(u8),
    ClearThen(u8),
    Mppem,
    GetInfo(i16),
    Raw { pre: Vec<i16>, ops: Vec<u8> },
}

fn prod_strategy() -> BoxedStrategy<Prod> {
    prop_oneof![
        2 => val_strategy().prop_map(Prod::Const),
        4 => (proptest::collection::vec(val_strategy(), 0..4), ix_strategy(), any::<bool>()).prop_map(|(extra, k, mindex)| Prod::CIndex { extra, k, mindex }),
        1 => (any::<i16>(), any::<i16>(), any::<bool>()).prop_map(|(a, b, mindex)| Prod::CIndexBig { a, b, mindex }),
        3 => ix_strategy().prop_map(Prod::Rs),
        3 => ix_strategy().prop_map(Prod::Rcvt),
        2 => (0u8..6).prop_map(Prod::DepthAfterPops),
        3 => (any::<bool>(), ix_strategy(), any::<bool>()).prop_map(|(tw, pt, orig)| Prod::Gc { tw, pt, orig }),
        2 => (any::<bool>(), ix_strategy(), ix_strategy(), any::<bool>()).prop_map(|(tw, a, b, orig)| Prod::Md { tw, a, b, orig }),
        2 => ix_strategy().prop_map(Prod::Call),
        1 => (0u8..8).prop_map(Prod::Unused),
        2 => (0u8..4).prop_map(Prod::ClearThen),
        1 => Just(Prod::Mppem),
        1 => val_strategy().prop_map(Prod::GetInfo),
        3 => (proptest::collection::vec(val_strategy(), 0..4), proptest::collection::vec(0u8..32, 1..6)).prop_map(|(pre, ops)| Prod::Raw { pre, ops }),
    ]
    .boxed()
}

fn pw(v: &mut Vec<u8>, x: i16) {
    v.push(0xB8);
    v.extend_from_slice(&x.to_be_bytes());
}

fn emit_prod(v: &mut Vec<u8>, p: &Prod) {
    match p {
        Prod::Const(x) => pw(v, *x),
        Prod::CIndex { extra, k, mindex } => {
            for e in extra {
                pw(v, *e);
            }
            pw(v, *k);
            v.push(if *mindex { 0x26 } else { 0x25 });
        }
        Prod::CIndexBig { a, b, mindex } => {
            pw(v, *a);
            pw(v, *b);
            v.push(0x63);
            v.push(if *mindex { 0x26 } else { 0x25 });
        }
        Prod::Rs(i) => {
            pw(v, *i);
            v.push(op::RS);
        }
        Prod::Rcvt(i) => {
            pw(v, *i);
            v.push(op::RCVT);
        }
        Prod::DepthAfterPops(n) => {
            for _ in 0..*n {
                v.push(0x21);
            }
            v.push(0x24);
        }
        Prod::Gc { tw, pt, orig } => {
            v.extend_from_slice(&[0xB0, if *tw { 0 } else { 1 }, op::SZP2]);
            pw(v, *pt);
            v.push(if *orig { 0x47 } else { 0x46 });
            v.extend_from_slice(&[0xB0, 1, op::SZP2]);
        }
        Prod::Md { tw, a, b, orig } => {
            v.extend_from_slice(&[0xB0, if *tw { 0 } else { 1 }, op::SZPS]);
            pw(v, *a);
            pw(v, *b);
            v.push(if *orig { 0x4A } else { 0x49 });
            v.extend_from_slice(&[0xB0, 1, op::SZPS]);
        }
        Prod::Call(f) => {
            pw(v, *f);
            v.push(op::CALL);
        }
        Prod::Unused(s) => v.push(UNUSED_OPS[*s as usize % 8]),
        Prod::ClearThen(k) => {
            v.push(0x22);
            match k % 4 {
                0 => v.push(op::ADD),
                1 => v.push(0x20),
                2 => {
                    pw(v, 77);
                    v.push(0x23);
                }
                _ => {
                    pw(v, 77);
                    v.push(0x8A);
                }
            }
        }
        Prod::Mppem => v.push(op::MPPEM),
        Prod::GetInfo(s) => {
            pw(v, *s);
            v.push(0x88);
        }
        Prod::Raw { pre, ops } => {
            for e in pre {
                pw(v, *e);
            }
            for o in ops {
                v.push(SAFE_OPS[*o as usize % 32]);
            }
        }
    }
}

#[derive(Clone, Debug, Serialize, Deserialize)]
enum Cons {
    Shpix { p: i16 },
    Msirp { rp0: i16, p: i16 },
    Scfs { p: i16 },
    WcvtpMiap { c: i16, p: i16 },
    WsRsShpix { s: i16, p: i16 },
    AsPoint,
    AsLoop { p: i16 },
}

fn cons_strategy() -> BoxedStrategy<Cons> {
    prop_oneof![
        5 => ix_strategy().prop_map(|p| Cons::Shpix { p }),
        2 => (ix_strategy(), ix_strategy()).prop_map(|(rp0, p)| Cons::Msirp { rp0, p }),
        2 => ix_strategy().prop_map(|p| Cons::Scfs { p }),
        2 => (ix_strategy(), ix_strategy()).prop_map(|(c, p)| Cons::WcvtpMiap { c, p }),
        2 => (ix_strategy(), ix_strategy()).prop_map(|(s, p)| Cons::WsRsShpix { s, p }),
        1 => Just(Cons::AsPoint),
        1 => ix_strategy().prop_map(|p| Cons::AsLoop { p }),
    ]
    .boxed()
}

#[derive(Clone, Debug, Serialize, Deserialize)]
struct GOp {
    x_axis: bool,
    /// the consumer works on the twilight zone
    tw: bool,
    prod: Prod,
    cons: Cons,
}

fn gop_strategy(tw_weight: u32) -> BoxedStrategy<GOp> {
    (prop_oneof![5 => Just(false), 1 => Just(true)], prop_oneof![6 => Just(false), tw_weight => Just(true)], prod_strategy(), cons_strategy())
        .prop_map(|(x_axis, tw, prod, cons)| GOp { x_axis, tw, prod, cons })
        .boxed()
}

fn emit_gop(v: &mut Vec<u8>, o: &GOp) {
    v.push(if o.x_axis { 0x01 } else { 0x00 });
    let zone_in = |v: &mut Vec<u8>| {
        if o.tw {
            v.extend_from_slice(&[0xB0, 0, op::SZPS]);
        }
    };
    match &o.cons {
        Cons::Shpix { p } => {
            pw(v, *p);
            v.push(op::MDAP0);
            pw(v, *p);
            emit_prod(v, &o.prod);
            zone_in(v);
            v.push(op::SHPIX);
        }
        Cons::Msirp { rp0, p } => {
            pw(v, *rp0);
            v.push(0x10);
            pw(v, *p);
            emit_prod(v, &o.prod);
            zone_in(v);
            v.push(0x3A);
        }
        Cons::Scfs { p } => {
            pw(v, *p);
            emit_prod(v, &o.prod);
            zone_in(v);
            v.push(0x48);
        }
        Cons::WcvtpMiap { c, p } => {
            pw(v, *c);
            emit_prod(v, &o.prod);
            v.push(op::WCVTP);
            pw(v, *p);
            pw(v, *c);
            zone_in(v);
            v.push(op::MIAP0);
        }
        Cons::WsRsShpix { s, p } => {
            pw(v, *s);
            emit_prod(v, &o.prod);
            v.push(op::WS);
            pw(v, *p);
            v.push(op::MDAP0);
            pw(v, *p);
            pw(v, *s);
            v.push(op::RS);
            zone_in(v);
            v.push(op::SHPIX);
        }
        Cons::AsPoint => {
            emit_prod(v, &o.prod);
            zone_in(v);
            v.push(0x2F);
        }
        Cons::AsLoop { p } => {
            emit_prod(v, &o.prod);
            v.push(0x17);
            pw(v, *p);
            pw(v, 64);
            zone_in(v);
            v.push(op::SHPIX);
        }
    }
    v.extend_from_slice(&[0xB0, 1, op::SZPS]);
}

#[derive(Clone, Debug, Serialize, Deserialize)]
struct GenFont {
    twilight: u8,
    storage: u8,
    fdefs: u8,
    idefs: u8,
    stack: u8,
    cvt: Vec<i16>,
    /// (key, is IDEF, body): fpgm definitions; the body leaves one value
    defs: Vec<(u8, bool, Prod)>,
    prep: Vec<GOp>,
    glyphs: Vec<Vec<GOp>>,
}

fn genfont_strategy() -> BoxedStrategy<GenFont> {
    (
        (0u8..6, 0u8..9, prop_oneof![1 => 0u8..3, 4 => 6u8..10], prop_oneof![1 => Just(0u8), 3 => 2u8..5], 0u8..24),
        proptest::collection::vec(-400i16..900, 0..9),
        proptest::collection::vec((0u8..8, prop_oneof![4 => Just(false), 1 => Just(true)], prod_strategy()), 0..4),
        prop_oneof![1 => Just(vec![]).boxed(), 1 => proptest::collection::vec(gop_strategy(18), 1..3).boxed()],
        proptest::collection::vec(proptest::collection::vec(gop_strategy(1), 1..4), 2..6),
    )
        .prop_map(|((twilight, storage, fdefs, idefs, stack), cvt, defs, prep, glyphs)| GenFont { twilight, storage, fdefs, idefs, stack, cvt, defs, prep, glyphs })
        .boxed()
}

fn build_genfont(g: &GenFont) -> Vec<u8> {
    let sq = |x: i16, y: i16, w: i16, h: i16| -> Vec<Pt> { vec![(x, y, true), (x + w, y, true), (x + w, y + h, true), (x, y + h, true)] };
    let mut fpgm = vec![];
    for (key, idef, body) in &g.defs {
        let k = if *idef { UNUSED_OPS[*key as usize % 8] as i16 } else { *key as i16 };
        pw(&mut fpgm, k);
        fpgm.push(if *idef { op::IDEF } else { op::FDEF });
        emit_prod(&mut fpgm, body);
        fpgm.push(op::ENDF);
    }
    let mut prep = vec![];
    for o in &g.prep {
        emit_gop(&mut prep, o);
    }
    let mut glyphs: Vec<Vec<u8>> = vec![vec![]];
    for ops in &g.glyphs {
        let mut p = vec![];
        for o in ops {
            emit_gop(&mut p, o);
        }
        glyphs.push(simple_glyph(&[sq(0, 0, 500, 700), sq(100, 100, 300, 500)], &p));
    }
    // reference: the same outline with a program that moves nothing
    glyphs.push(simple_glyph(&[sq(0, 0, 500, 700), sq(100, 100, 300, 500)], &[0x00]));
    let n = glyphs.len();
    let mut glyf = vec![];
    let mut offsets = vec![0u32];
    for gl in &glyphs {
        glyf.extend_from_slice(gl);
        offsets.push(glyf.len() as u32);
    }
    let mut cvt = vec![];
    for c in &g.cvt {
        cvt.extend_from_slice(&c.to_be_bytes());
    }
    let mut extra = vec![(*b"fpgm", fpgm), (*b"prep", prep), (*b"maxp", maxp_with(n as u16, g.twilight as u16, g.storage as u16, g.fdefs as u16, g.idefs as u16, g.stack as u16))];
    if !cvt.is_empty() {
        extra.push((*b"cvt ", cvt));
    }
    Kit { num_glyphs: n as u16, upem: 1000, glyf: Some((glyf, offsets)), h_metrics: (0..n).map(|i| (600 + i as u16 * 10, 20)).collect(), extra, ..Default::default() }.build()
}

#[derive(Clone, Debug, Serialize, Deserialize)]
struct GenCase {
    a: GenFont,
    b: GenFont,
    ppem_a: u32,
    ppem_b: u32,
    target_a: u8,
    target_b: u8,
    pedantic: bool,
    buf: Buf,
    order: u64,
}

fn gencase_strategy() -> impl Strategy<Value = GenCase> {
    (
        genfont_strategy(),
        genfont_strategy(),
        ppem_strategy(),
        ppem_strategy(),
        prop_oneof![3 => Just(0u8), 2 => 1u8..17],
        prop_oneof![3 => Just(0u8), 2 => 1u8..17],
        prop_oneof![6 => Just(false), 1 => Just(true)],
        buf_strategy(),
        any::<u64>(),
    )
        .prop_map(|(a, b, ppem_a, ppem_b, target_a, target_b, pedantic, mut buf, order)| {
            if buf.mode == 0 {
                buf.mode = 1;
            }
            GenCase { a, b, ppem_a, ppem_b, target_a, target_b, pedantic, buf, order }
        })
}

fn mk_instance(outlines: &OutlineGlyphCollection, ppem64: u32, coords: &[F2Dot14], hint: &Hint) -> Result<HintingInstance, String> {
    let Hint::Hinted { engine, target, .. } = hint else { return Err("unhinted".into()) };
    HintingInstance::new(outlines, size_of(ppem64), LocationRef::new(coords), HintingOptions { engine: engine_of(*engine, outlines, 0), target: target_of(*target) })
        .map_err(|e| format!("{e:?}"))
}

fn permute(n: usize, seed: u64) -> Vec<usize> {
    let mut order: Vec<usize> = (0..n).collect();
    let mut p = seed;
    for i in (1..n).rev() {
        p = p.wrapping_mul(6364136223846793005).wrapping_add(1442695040888963407);
        order.swap(i, ((p >> 33) % (i as u64 + 1)) as usize);
    }
    order
}

fn cmp_local(sig: &str, what: &str, font: &str, g: u32, base: &Drawn, got: &Drawn) -> CaseResult {
    if base.same(got) {
        Ok(())
    } else {
        Err(fail(sig, format!("{what}: {font} gid {g}: {}", describe_diff(base, got))))
    }
}

fn test_gen(c: &GenCase, stats: &Stats) -> CaseResult {
    let (da, db) = (build_genfont(&c.a), build_genfont(&c.b));
    let (Ok(fa), Ok(fb)) = (FontRef::new(&da), FontRef::new(&db)) else { return infra("generated font does not open".into()) };
    let (oa, ob) = (fa.outline_glyphs(), fb.outline_glyphs());
    let hint_a = Hint::Hinted { engine: 0, target: c.target_a, pedantic: false };
    let hint_b = Hint::Hinted { engine: 0, target: c.target_b, pedantic: c.pedantic };
    let nb = c.b.glyphs.len() as u32 + 2;
    // baseline: fresh instance per glyph, library (zero-filled) memory
    let mut base: Vec<Drawn> = vec![];
    let mut base_inst: Result<(), String> = Ok(());
    let mut moved = 0;
    for g in 0..nb {
        let inst = match mk_instance(&ob, c.ppem_b, &[], &hint_b) {
            Ok(i) => i,
            Err(e) => {
                base_inst = Err(e);
                break;
            }
        };
        let Some(gl) = ob.get(GlyphId::new(g)) else { return infra("generated glyph missing".into()) };
        let how = How::Hinted { inst: &inst, pedantic: c.pedantic };
        let d = draw_one(&gl, &how, None);
        let d2 = draw_one(&gl, &how, None);
        cmp_local("repeat-mismatch", "second draw through the same fresh instance", "generated font B", g, &d, &d2)?;
        if d.is_ok() {
            check_metrics_finite(&d).map_err(|e| fail("metrics-not-finite", format!("generated font gid {g}: {e}")))?;
            well_formed(&d).map_err(|e| fail("malformed-stream", format!("generated font gid {g}: {e}")))?;
        }
        base.push(d);
    }
    // glyphs whose program changed the outline relative to the reference glyph (same outline, inert program)
    if let (Ok(()), Some(r)) = (&base_inst, base.last()) {
        moved = base[1..base.len() - 1].iter().filter(|d| d.is_ok() && r.is_ok() && d.cmds != r.cmds).count();
    }
    let order = permute(nb as usize, c.order);
    let mut scratch = Scratch::default();
    // memory: second fresh instance, one caller buffer for the whole sequence
    if base_inst.is_ok() {
        let inst = mk_instance(&ob, c.ppem_b, &[], &hint_b).map_err(|e| fail("reconfigure-result", format!("second HintingInstance::new failed where the first succeeded: {e}")))?;
        let how = How::Hinted { inst: &inst, pedantic: c.pedantic };
        for &k in &order {
            let gl = ob.get(GlyphId::new(k as u32)).unwrap();
            let d = draw_mem(&gl, &how, &mut scratch, &c.buf);
            cmp_local("memory-mismatch", &format!("caller memory (mode {}, start%8={}, fill {}, reuse {})", c.buf.mode, c.buf.misalign, c.buf.fill, c.buf.reuse), "generated font B", k as u32, &base[k], &d)?;
        }
    }
    // history: instance configured for font A first
    let mut hist = false;
    if let Ok(mut inst) = mk_instance(&oa, c.ppem_a, &[], &hint_a) {
        hist = true;
        for g in 0..c.a.glyphs.len() as u32 + 2 {
            if let Some(gl) = oa.get(GlyphId::new(g)) {
                let _ = draw_mem(&gl, &How::Hinted { inst: &inst, pedantic: false }, &mut scratch, &c.buf);
            }
        }
        let r = reconfigure(&mut inst, 0, &ob, c.ppem_b, &[], &hint_b);
        if r != base_inst {
            return Err(fail("reconfigure-result", format!("generated font B: fresh new -> {:?}, reconfigure after font A -> {:?}", base_inst, r)));
        }
        if r.is_ok() {
            let how = How::Hinted { inst: &inst, pedantic: c.pedantic };
            for &k in &order {
                let gl = ob.get(GlyphId::new(k as u32)).unwrap();
                let d = draw_one(&gl, &how, None);
                cmp_local("history-mismatch", "instance configured for generated font A before", "generated font B", k as u32, &base[k], &d)?;
                let d = draw_mem(&gl, &how, &mut scratch, &c.buf);
                cmp_local("memory-mismatch", "reused instance, caller memory", "generated font B", k as u32, &base[k], &d)?;
            }
        }
    }
    stats.class(if base_inst.is_ok() { "G:instance-ok" } else { "G:instance-rejected(fpgm/prep error)" });
    if hist {
        stats.class("G:history-instance-ok");
    }
    if moved > 0 {
        stats.class("G:program-moved-points");
        stats.nontrivial(hash_json(c));
        if stats.want_sample() && moved >= 2 {
            stats.sample(serde_json::json!({"stage": "generated-programs", "glyph_programs": c.b.glyphs, "prep": c.b.prep.len(), "ppem64": c.ppem_b, "target": c.target_b, "buf": c.buf, "glyphs_moved": moved}));
        }
    }
    Ok(())
}

// =============================================================================================
// stage: corpus variable fonts with small structural edits of gvar (some glyph's variation data unlocatable / empty / short),
// drawn at non-default locations after other glyphs with the same caller buffer

#[derive(Clone, Debug, Serialize, Deserialize)]
enum GvarEdit {
    GlyphCountMinus(u8),
    OffsetsEqual { g: u32 },
    OffsetPastEnd { g: u32, by: u32 },
    TupleCountZero { g: u32, keep_flags: bool },
    Truncate { g: u32, keep: u8 },
    SharedPointsNoData { g: u32 },
    Byte { g: u32, off: u8, val: u8 },
    HeaderField { which: u8, delta: i8 },
}

fn gsel_strategy() -> BoxedStrategy<u32> {
    prop_oneof![2 => Just(u32::MAX), 1 => Just(0u32), 4 => any::<u32>()].boxed()
}

fn gvar_edit_strategy() -> BoxedStrategy<GvarEdit> {
    prop_oneof![
        3 => (1u8..=4).prop_map(GvarEdit::GlyphCountMinus),
        2 => gsel_strategy().prop_map(|g| GvarEdit::OffsetsEqual { g }),
        2 => (gsel_strategy(), prop_oneof![Just(0u32), Just(2u32), Just(1000u32), Just(0x7FFF_0000u32)]).prop_map(|(g, by)| GvarEdit::OffsetPastEnd { g, by }),
        2 => (gsel_strategy(), any::<bool>()).prop_map(|(g, keep_flags)| GvarEdit::TupleCountZero { g, keep_flags }),
        2 => (gsel_strategy(), 0u8..24).prop_map(|(g, keep)| GvarEdit::Truncate { g, keep }),
        2 => gsel_strategy().prop_map(|g| GvarEdit::SharedPointsNoData { g }),
        2 => (gsel_strategy(), 0u8..32, prop_oneof![Just(0u8), Just(0xFFu8), Just(0x80u8), any::<u8>()]).prop_map(|(g, off, val)| GvarEdit::Byte { g, off, val }),
        1 => (0u8..4, prop_oneof![Just(-1i8), Just(1i8), Just(-2i8), Just(4i8)]).prop_map(|(which, delta)| GvarEdit::HeaderField { which, delta }),
    ]
    .boxed()
}

fn rd16(t: &[u8], o: usize) -> Option<u16> {
    t.get(o..o + 2).map(|b| u16::from_be_bytes([b[0], b[1]]))
}
fn rd32(t: &[u8], o: usize) -> Option<u32> {
    t.get(o..o + 4).map(|b| u32::from_be_bytes([b[0], b[1], b[2], b[3]]))
}
fn wr16(t: &mut [u8], o: usize, v: u16) {
    if let Some(b) = t.get_mut(o..o + 2) {
        b.copy_from_slice(&v.to_be_bytes());
    }
}
fn wr32(t: &mut [u8], o: usize, v: u32) {
    if let Some(b) = t.get_mut(o..o + 4) {
        b.copy_from_slice(&v.to_be_bytes());
    }
}

struct GvarView {
    count: usize,
    long: bool,
    array: usize,
}
impl GvarView {
    fn new(t: &[u8]) -> Option<GvarView> {
        Some(GvarView { count: rd16(t, 12)? as usize, long: rd16(t, 14)? & 1 != 0, array: rd32(t, 16)? as usize })
    }
    fn off(&self, t: &[u8], i: usize) -> Option<u32> {
        if self.long {
            rd32(t, 20 + 4 * i)
        } else {
            rd16(t, 20 + 2 * i).map(|v| v as u32 * 2)
        }
    }
    fn set_off(&self, t: &mut [u8], i: usize, v: u32) {
        if self.long {
            wr32(t, 20 + 4 * i, v)
        } else {
            wr16(t, 20 + 2 * i, (v / 2).min(0xFFFF) as u16)
        }
    }
    fn g(&self, raw: u32) -> usize {
        if raw == u32::MAX {
            self.count.saturating_sub(1)
        } else {
            idx(raw, self.count.max(1))
        }
    }
}

fn apply_gvar_edit(t: &mut Vec<u8>, e: &GvarEdit) {
    let Some(v) = GvarView::new(t) else { return };
    match e {
        GvarEdit::GlyphCountMinus(n) => wr16(t, 12, (v.count as u16).saturating_sub(*n as u16)),
        GvarEdit::OffsetsEqual { g } => {
            let g = v.g(*g);
            if let Some(o) = v.off(t, g) {
                v.set_off(t, g + 1, o);
            }
        }
        GvarEdit::OffsetPastEnd { g, by } => {
            let g = v.g(*g);
            let end = (t.len().saturating_sub(v.array)) as u32;
            v.set_off(t, g + 1, end.saturating_add(*by));
        }
        GvarEdit::TupleCountZero { g, keep_flags } => {
            let g = v.g(*g);
            if let Some(o) = v.off(t, g) {
                let p = v.array + o as usize;
                if let Some(c) = rd16(t, p) {
                    wr16(t, p, if *keep_flags { c & 0xF000 } else { 0 });
                }
            }
        }
        GvarEdit::Truncate { g, keep } => {
            let g = v.g(*g);
            if let (Some(a), Some(b)) = (v.off(t, g), v.off(t, g + 1)) {
                let n = a.saturating_add(*keep as u32);
                if n < b {
                    v.set_off(t, g + 1, n);
                }
            }
        }
        GvarEdit::SharedPointsNoData { g } => {
            let g = v.g(*g);
            if let (Some(a), Some(b)) = (v.off(t, g), v.off(t, g + 1)) {
                let p = v.array + a as usize;
                if let Some(c) = rd16(t, p) {
                    wr16(t, p, c | 0x8000);
                    wr16(t, p + 2, b.saturating_sub(a).min(0xFFFF) as u16);
                }
            }
        }
        GvarEdit::Byte { g, off, val } => {
            let g = v.g(*g);
            if let Some(a) = v.off(t, g) {
                if let Some(b) = t.get_mut(v.array + a as usize + *off as usize) {
                    *b = *val;
                }
            }
        }
        GvarEdit::HeaderField { which, delta } => {
            let d = *delta as i32;
            match which % 4 {
                0 => {
                    let x = rd16(t, 4).unwrap_or(0);
                    wr16(t, 4, (x as i32 + d).clamp(0, 0xFFFF) as u16)
                }
                1 => {
                    let x = rd16(t, 6).unwrap_or(0);
                    wr16(t, 6, (x as i32 + d).clamp(0, 0xFFFF) as u16)
                }
                2 => {
                    let x = rd32(t, 8).unwrap_or(0);
                    wr32(t, 8, (x as i64 + d as i64).max(0) as u32)
                }
                _ => {
                    let x = rd32(t, 16).unwrap_or(0);
                    wr32(t, 16, (x as i64 + d as i64).max(0) as u32)
                }
            }
        }
    }
}

/// (index into corpus fonts, sfnt version, tables) of the glyf fonts with gvar
fn gvar_fonts() -> &'static Vec<(usize, u32, Vec<([u8; 4], Vec<u8>)>)> {
    static L: OnceLock<Vec<(usize, u32, Vec<([u8; 4], Vec<u8>)>)>> = OnceLock::new();
    L.get_or_init(|| {
        let mut v = vec![];
        for (i, f) in corpus().fonts.iter().enumerate() {
            if f.has_gvar && f.format == OutlineGlyphFormat::Glyf && !f.name.contains('#') {
                if let Some((ver, tables)) = vcore::sfnt::split_tables(f.font.data.as_bytes()) {
                    if tables.iter().any(|t| &t.0 == b"gvar") {
                        v.push((i, ver, tables));
                    }
                }
            }
        }
        v
    })
}

#[derive(Clone, Debug, Serialize, Deserialize)]
struct VCase {
    font: u32,
    edits: Vec<GvarEdit>,
    coords: Vec<i16>,
    ppem64: u32,
    hint: Hint,
    gids: Vec<u32>,
    buf: Buf,
    order_ppem64: u32,
}

fn vcase_strategy() -> impl Strategy<Value = VCase> {
    (
        any::<u32>(),
        proptest::collection::vec(gvar_edit_strategy(), 1..=3),
        proptest::collection::vec(prop_oneof![2 => Just(16384i16), 2 => Just(-16384i16), 3 => (-16384i16..=16384).prop_map(|x| if x == 0 { 4915 } else { x })], 1..=4),
        ppem_strategy(),
        prop_oneof![
            4 => Just(Hint::Unhinted { harfbuzz: false }),
            2 => Just(Hint::Unhinted { harfbuzz: true }),
            4 => hinted_strategy(),
        ],
        proptest::collection::vec(gsel_strategy(), 2..=6),
        buf_strategy(),
        ppem_strategy(),
    )
        .prop_map(|(font, edits, coords, ppem64, hint, gids, mut buf, order_ppem64)| {
            if buf.mode == 0 {
                buf.mode = 1;
            }
            VCase { font, edits, coords, ppem64, hint, gids, buf, order_ppem64 }
        })
}

fn test_gvar(c: &VCase, stats: &Stats) -> CaseResult {
    let l = gvar_fonts();
    if l.is_empty() {
        return infra("no variable glyf fonts in the corpus".into());
    }
    let (fi, ver, tables) = &l[idx(c.font, l.len())];
    let orig = &corpus().fonts[*fi];
    let mut tables = tables.clone();
    let mut changed = false;
    for t in tables.iter_mut() {
        if &t.0 == b"gvar" {
            let before = t.1.clone();
            for e in &c.edits {
                apply_gvar_edit(&mut t.1, e);
            }
            changed = before != t.1;
        }
    }
    let bytes = vcore::sfnt::assemble(*ver, &tables);
    let Ok(font) = FontRef::new(&bytes) else {
        stats.class("V:derived-font-rejected");
        return Ok(());
    };
    let o = font.outline_glyphs();
    if o.format().is_none() {
        stats.class("V:derived-font-rejected");
        return Ok(());
    }
    let n = orig.nglyphs;
    let coords = coords_of(orig.axes, &Loc::Coords(c.coords.clone()));
    let gids: Vec<u32> = c.gids.iter().map(|r| if *r == u32::MAX { n - 1 } else { idx(*r, n as usize) as u32 }).collect();
    let hinted = matches!(c.hint, Hint::Hinted { .. });
    let pedantic = matches!(c.hint, Hint::Hinted { pedantic: true, .. });
    let hb = matches!(c.hint, Hint::Unhinted { harfbuzz: true });
    let size = size_of(c.ppem64);
    // baseline: fresh instance per glyph, zero-filled library memory
    let mut base: Vec<Option<Drawn>> = vec![];
    let mut base_inst: Result<(), String> = Ok(());
    let mut visible = false;
    for g in &gids {
        let Some(gl) = o.get(GlyphId::new(*g)) else {
            base.push(None);
            continue;
        };
        let inst = if hinted {
            match mk_instance(&o, c.ppem64, &coords, &c.hint) {
                Ok(i) => Some(i),
                Err(e) => {
                    base_inst = Err(e);
                    break;
                }
            }
        } else {
            None
        };
        let how = match &inst {
            Some(i) => How::Hinted { inst: i, pedantic },
            None => How::Unhinted { size, coords: &coords, harfbuzz: hb },
        };
        let d = draw_one(&gl, &how, None);
        if d.is_ok() {
            check_metrics_finite(&d).map_err(|e| fail("metrics-not-finite", format!("derived {} gid {g}: {e}", orig.name)))?;
            well_formed(&d).map_err(|e| fail("malformed-stream", format!("derived {} gid {g} edits {:?}: {e}", orig.name, c.edits)))?;
            if !hinted {
                if let Some(og) = orig.font.outline_glyphs().get(GlyphId::new(*g)) {
                    if !draw_one(&og, &how, None).same(&d) {
                        visible = true;
                    }
                }
            }
        }
        base.push(Some(d));
    }
    let what = format!("derived from {} by {:?}, coords {:?}, {:?} @ppem64 {}", orig.name, c.edits, c.coords, c.hint, c.ppem64);
    let mut scratch = Scratch::default();
    // the same glyph sequence with one caller buffer; hinted: an instance that was configured for the original font before
    let mut inst: Option<HintingInstance> = None;
    if hinted {
        let oo = orig.font.outline_glyphs();
        let mut i = match mk_instance(&oo, c.order_ppem64, &[], &c.hint) {
            Ok(i) => {
                if let Some(gl) = oo.get(GlyphId::new(gids[0])) {
                    let _ = draw_mem(&gl, &How::Hinted { inst: &i, pedantic: false }, &mut scratch, &c.buf);
                }
                Some(i)
            }
            Err(_) => None,
        };
        let r = match i.as_mut() {
            Some(i) => reconfigure(i, 0, &o, c.ppem64, &coords, &c.hint),
            None => mk_instance(&o, c.ppem64, &coords, &c.hint).map(|x| i = Some(x)),
        };
        if r != base_inst {
            return Err(fail("reconfigure-result", format!("{what}: fresh new -> {:?}, reused instance -> {:?}", base_inst, r)));
        }
        if r.is_err() {
            stats.class("V:instance-rejected");
            return Ok(());
        }
        inst = i;
    }
    let how = match &inst {
        Some(i) => How::Hinted { inst: i, pedantic },
        None => How::Unhinted { size, coords: &coords, harfbuzz: hb },
    };
    let mut any_ok = false;
    for (g, b) in gids.iter().zip(&base) {
        let (Some(gl), Some(b)) = (o.get(GlyphId::new(*g)), b) else { continue };
        any_ok |= b.is_ok() && !b.cmds.is_empty();
        let d = draw_mem(&gl, &how, &mut scratch, &c.buf);
        cmp_local("memory-mismatch", &format!("{what}: caller buffer shared by the sequence {gids:?} (mode {}, start%8={}, fill {}, reuse {})", c.buf.mode, c.buf.misalign, c.buf.fill, c.buf.reuse), "", *g, b, &d)?;
        let d = draw_one(&gl, &how, None);
        cmp_local(if hinted { "history-mismatch" } else { "draw-order-mismatch" }, &format!("{what}: library memory, after the sequence"), "", *g, b, &d)?;
    }
    stats.class(if changed { "V:gvar-changed" } else { "V:edit-without-effect" });
    if visible {
        stats.class("V:edit-visible-in-outline");
    }
    if changed && any_ok {
        stats.nontrivial(hash_json(c));
        if stats.want_sample() && visible {
            stats.sample(serde_json::json!({"stage": "gvar-edits", "font": orig.name, "edits": c.edits, "coords": c.coords, "gids": gids, "hint": c.hint, "buf": c.buf}));
        }
    }
    Ok(())
}

fn main() {
    if std::env::var("C12_CHILD").is_ok() {
        child_main();
    }
    let ctx = Ctx::from_args("C12");
    let c = corpus();
    if std::env::var("C12_SURVEY").is_ok() {
        for f in &c.fonts {
            println!("{:40} glyphs {:5} axes {} fmt {:?} instructed {} third {} syn {}", f.name, f.nglyphs, f.axes, f.format, f.instructed, f.third_party, f.synthetic);
        }
        if let Some(f) = c.fonts.iter().find(|f| f.name == "Roboto-Regular.ttf") {
            let gl = f.font.outline_glyphs().get(GlyphId::new(40)).unwrap();
            for hb in [false, true] {
                let d = draw_one(&gl, &How::Unhinted { size: size_of(16 * 64), coords: &[], harfbuzz: hb }, None);
                println!("Roboto gid 40 @16ppem harfbuzz-style={hb}: {:?} first {}", d.res, d.cmds.first().map(fmt_cmd).unwrap_or_default());
            }
        }
    }
    ctx.set_rule(
        "case = (font from corpus+vendored hinted fonts+3 hand-assembled instructed fonts, 1-3 glyph ids, K = (size grid/fractional/unscaled, location none|coords, unhinted|engine x 17 targets x pedantic), \
         optional all-zero location variant, history of 0-6 reconfigure calls with other fonts/K's each followed by 0-20 draws, 0-20 earlier draws with K, buffer mode none|exact|slack x start%8 x prior content, clone). \
         Non-trivial: >= 1 earlier successful configuration of the instance and a successful observed draw and (TrueType glyph with instructions hinted by the interpreter, or variable font at a non-default location); \
         thread stage: hinted draw of such a glyph (or any autohinted glyf glyph: lazily computed shared metrics) by 8-12 threads; distinct by hash of the case.",
    );
    ctx.assume("baseline = first draw through a fresh instance with library memory in a fresh thread; equality is f32 bit equality of every pen argument and of lsb/advance, Debug text equality of errors");
    ctx.assume("HintingInstance: Sync + Send is asserted at compile time, so threads share one instance by reference");
    ctx.note(
        "corpus",
        serde_json::json!({"fonts_with_outlines": c.fonts.len(), "glyf": c.fonts.iter().filter(|f| f.format == OutlineGlyphFormat::Glyf).count(),
            "cff": c.fonts.iter().filter(|f| f.format == OutlineGlyphFormat::Cff).count(), "cff2": c.fonts.iter().filter(|f| f.format == OutlineGlyphFormat::Cff2).count(),
            "variable": c.fonts.iter().filter(|f| f.axes > 0).count(), "instructed": c.fonts.iter().filter(|f| f.instructed).count(),
            "third_party": c.fonts.iter().filter(|f| f.third_party).map(|f| f.name.clone()).collect::<Vec<_>>()}),
    );
    match synthetic_selftest() {
        Ok(v) => ctx.note("synthetic_selftest", v),
        Err(e) => ctx.infra_error(format!("synthetic font self-test failed: {e}")),
    }
    ctx.index_stage("synthetic-pairs", Isolation::Threads, syn_count(), syn_case, test_syn);
    ctx.index_stage("known-hb-dirty-memory", Isolation::Threads, hb_count(), hb_case, test_hb);
    ctx.prop_stage("generated-programs", Isolation::Threads, ctx.n(150_000, 1_500_000), gencase_strategy, test_gen);
    ctx.prop_stage("gvar-edits", Isolation::Threads, ctx.n(20_000, 200_000), vcase_strategy, test_gvar);
    ctx.prop_stage("history", Isolation::Threads, ctx.n(50_000, 600_000), case_strategy, test_history);
    ctx.prop_stage("threads", Isolation::Threads, ctx.n(2_500, 25_000), tcase_strategy, test_threads);
    ctx.prop_stage("fresh-process", Isolation::Threads, ctx.n(400, 3_000), pcase_strategy, test_process);
    for m in INFRA.lock().unwrap().drain(..) {
        ctx.infra_error(m);
    }
    ctx.finish();
}
