//! C19 — IFT patch selection follows the specified intersection and grouping rules.
//!
//! A structured model of `IFT `/`IFTX` mapping tables (format 1 over a cmap'd font, format 2 entry trees) is
//! serialised by a harness encoder; subset definitions are generated in ⊆-chains D1 ⊆ D2 ⊆ … ⊆ all.
//! Oracles: (a) reference intersection written from the rules quoted in the code (spec sections
//! "check entry intersection", "interpreting format 1/2") == `intersecting_patches` as a multiset of (uri, format);
//! (b) metamorphic monotonicity along the chain and against the all-inclusive definition; (c) invariants of the
//! group chosen by `PatchGroup::select_next_patches`; (d) the select → fetch → apply loop makes progress and ends.
use incremental_font_transfer::{
    patch_group::{PatchGroup, UriStatus},
    patchmap::{intersecting_patches, DesignSpace, FeatureSet, PatchFormat, SubsetDefinition},
};
use proptest::prelude::*;
use read_fonts::{
    collections::{IntSet, RangeSet},
    types::{Fixed, Tag},
    FontRef,
};
use serde::{Deserialize, Serialize};
use shared_brotli_patch_decoder::NoopBrotliDecoder;
use std::cmp::Ordering;
use std::collections::{BTreeMap, BTreeSet, HashMap, VecDeque};
use vcore::*;

type T4 = [u8; 4];
/// sorted by tag
const FEATS: [&T4; 6] = [b"c2sc", b"dlig", b"kern", b"liga", b"rlig", b"smcp"];
const AXES: [&T4; 4] = [b"wght", b"wdth", b"slnt", b"opsz"];
/// the last one has no variable: every entry of the table resolves to the same URI
const TEMPLATES: [&str; 5] = ["p/{id}", "q/{d1}/{d2}{d3}{d4}/{id}", "r/{id64}", "//h.x/{id}.ift", "same"];
const MAX_CP: u32 = 0x10FFFF;

// =============================================================================================
// Case (replay format)
// =============================================================================================
type Seg = (u8, i32, i32);

#[derive(Clone, Debug, Serialize, Deserialize)]
struct FontSpec {
    num_glyphs: u16,
    /// (code point, raw gid) — gid is reduced modulo num_glyphs; gid 0 = "missing glyph"
    cmap: Vec<(u32, u16)>,
}
#[derive(Clone, Debug, Serialize, Deserialize)]
struct CpEnc {
    /// 0: no code-point bits, 1: bias 0, 2: 16-bit bias, 3: 24-bit bias
    mode: u8,
    bias_frac: u8,
    /// sparse bit set branch factor code 0..4 → 2, 4, 8, 32
    bf: u8,
    /// use the "all zero = filled node" command for completely populated nodes
    filled: bool,
    /// tree one level higher than necessary
    tall: bool,
}
#[derive(Clone, Debug, Serialize, Deserialize)]
struct EntrySpec {
    cps: Vec<u32>,
    enc: CpEnc,
    has_fds: bool,
    feats: Vec<u8>,
    ds: Vec<Seg>,
    children: Vec<u32>,
    conj: bool,
    delta: Option<i32>,
    id_str: Option<Vec<u8>>,
    fmt: Option<u8>,
    ignored: bool,
    /// copy the key (code points, features, design space) of an earlier entry: produces ties
    same_as: Option<u32>,
}
#[derive(Clone, Debug, Serialize, Deserialize)]
struct F2Spec {
    default_fmt: u8,
    template: u8,
    string_ids: bool,
    cff: u8,
    gap: u8,
    str_first: bool,
    entries: Vec<EntrySpec>,
}
#[derive(Clone, Debug, Serialize, Deserialize)]
struct FeatRecSpec {
    tag: u8,
    first_new: u16,
    maps: Vec<(u16, u16)>,
}
#[derive(Clone, Debug, Serialize, Deserialize)]
struct F1Spec {
    patch_format: u8,
    template: u8,
    cff: u8,
    max_gm: u16,
    n_extra: u16,
    first_mapped: u16,
    /// the entry indices actually used by the glyph map / entry map records (reduced to 0..=max_entry_index)
    palette: Vec<u16>,
    /// per glyph: index into the palette (0 = entry 0)
    glyph_pick: Vec<u8>,
    feats: Vec<FeatRecSpec>,
    applied: Vec<u16>,
    empty_feature_map: bool,
}
#[derive(Clone, Debug, Serialize, Deserialize)]
enum TableSpec {
    F1(F1Spec),
    F2(F2Spec),
}
#[derive(Clone, Debug, Serialize, Deserialize)]
struct Step {
    cps: Vec<u32>,
    feats: Vec<u8>,
    ds: Vec<Seg>,
    /// switch the code-point set to "everything except these" (minus what the chain already contains)
    invert: Option<Vec<u32>>,
    feats_all: bool,
    ds_all: bool,
}
#[derive(Clone, Debug, Serialize, Deserialize)]
struct Case {
    font: FontSpec,
    ift: Option<TableSpec>,
    iftx: Option<TableSpec>,
    steps: Vec<Step>,
    /// which definition of the chain drives the extension loop
    run_def: u8,
    near_compat: bool,
}

// =============================================================================================
// Normalised model
// =============================================================================================
#[derive(Clone, Debug)]
struct E2 {
    cps: BTreeSet<u32>,
    mode: u8,
    bias: u32,
    bf: u8,
    filled: bool,
    tall: bool,
    has_fds: bool,
    feats: Vec<T4>,
    ds: Vec<(T4, i32, i32)>,
    children: Vec<usize>,
    conj: bool,
    delta: Option<i32>,
    id_str: Option<Vec<u8>>,
    fmt: Option<u8>,
    ignored: bool,
    uri: String,
}
#[derive(Clone, Debug)]
struct F2 {
    compat: [u32; 4],
    default_fmt: u8,
    template: &'static str,
    string_ids: bool,
    cff: u8,
    gap: u8,
    str_first: bool,
    entries: Vec<E2>,
}
#[derive(Clone, Debug)]
struct F1 {
    compat: [u32; 4],
    patch_format: u8,
    template: &'static str,
    cff: u8,
    max_entry: u16,
    max_gm: u16,
    first_mapped: u16,
    /// entry index of glyph first_mapped + k
    glyph_entries: Vec<u16>,
    recs: Vec<(T4, u16, Vec<(u16, u16)>)>,
    applied: BTreeSet<u16>,
    empty_feature_map: bool,
}
#[derive(Clone, Debug)]
enum Tab {
    F1(F1),
    F2(F2),
}
#[derive(Clone, Debug)]
struct World {
    num_glyphs: u16,
    cmap: BTreeMap<u32, u16>,
    tabs: [Option<Tab>; 2],
}

fn scale(raw: u32, n: usize) -> usize {
    ((raw as u64 * n as u64) >> 32) as usize
}

// ---- URI template expansion, from the rules documented in uri_templates.rs / the spec's "URI templates" ----
fn b32hex(bytes: &[u8]) -> String {
    let alpha = b"0123456789ABCDEFGHIJKLMNOPQRSTUV";
    let mut out = String::new();
    let (mut acc, mut nbits) = (0u32, 0u32);
    for b in bytes {
        acc = (acc << 8) | *b as u32;
        nbits += 8;
        while nbits >= 5 {
            nbits -= 5;
            out.push(alpha[((acc >> nbits) & 31) as usize] as char);
        }
        acc &= (1u32 << nbits) - 1;
    }
    if nbits > 0 {
        out.push(alpha[((acc << (5 - nbits)) & 31) as usize] as char);
    }
    out
}
fn b64url_pct(bytes: &[u8]) -> String {
    let alpha = b"ABCDEFGHIJKLMNOPQRSTUVWXYZabcdefghijklmnopqrstuvwxyz0123456789-_";
    let mut out = String::new();
    for ch in bytes.chunks(3) {
        let v = (ch[0] as u32) << 16 | (*ch.get(1).unwrap_or(&0) as u32) << 8 | *ch.get(2).unwrap_or(&0) as u32;
        out.push(alpha[(v >> 18 & 63) as usize] as char);
        out.push(alpha[(v >> 12 & 63) as usize] as char);
        if ch.len() > 1 {
            out.push(alpha[(v >> 6 & 63) as usize] as char);
        } else {
            out.push_str("%3D");
        }
        if ch.len() > 2 {
            out.push(alpha[(v & 63) as usize] as char);
        } else {
            out.push_str("%3D");
        }
    }
    out
}
fn numeric_id_bytes(id: u32) -> Vec<u8> {
    let b = id.to_be_bytes();
    let skip = b.iter().take_while(|x| **x == 0).count().min(3);
    b[skip..].to_vec()
}
fn expand(template: &str, id: &[u8]) -> String {
    let ids = b32hex(id);
    let digit = |k: usize| -> char { ids.len().checked_sub(k).and_then(|i| ids.as_bytes().get(i)).map(|b| *b as char).unwrap_or('_') };
    template
        .replace("{id64}", &b64url_pct(id))
        .replace("{id}", &ids)
        .replace("{d1}", &digit(1).to_string())
        .replace("{d2}", &digit(2).to_string())
        .replace("{d3}", &digit(3).to_string())
        .replace("{d4}", &digit(4).to_string())
}

fn norm_seg(s: &Seg) -> (T4, i32, i32) {
    (*AXES[s.0 as usize % AXES.len()], s.1.min(s.2), s.1.max(s.2))
}

impl World {
    fn build(c: &Case) -> World {
        let num_glyphs = c.font.num_glyphs.clamp(2, 400);
        let mut cmap = BTreeMap::new();
        for (cp, g) in &c.font.cmap {
            cmap.insert((*cp).min(MAX_CP), g % num_glyphs);
        }
        let (c0, c1) = if c.near_compat { ([1, 2, 3, 4], [1, 2, 3, 5]) } else { ([1, 2, 3, 4], [0x0900_0000, 8, 7, 0xFFFF_FFFF]) };
        let mk = |t: &Option<TableSpec>, compat: [u32; 4]| -> Option<Tab> {
            t.as_ref().map(|t| match t {
                TableSpec::F1(s) => Tab::F1(norm_f1(s, compat, num_glyphs)),
                TableSpec::F2(s) => Tab::F2(norm_f2(s, compat)),
            })
        };
        let mut tabs = [mk(&c.ift, c0), mk(&c.iftx, c1)];
        if tabs[0].is_none() && tabs[1].is_none() {
            // only reachable from hand-edited replay files
            tabs[0] = Some(Tab::F2(F2 { compat: c0, default_fmt: 3, template: TEMPLATES[0], string_ids: false, cff: 0, gap: 0, str_first: false, entries: vec![] }));
        }
        World { num_glyphs, cmap, tabs }
    }
    fn n_entries(&self) -> usize {
        self.tabs
            .iter()
            .flatten()
            .map(|t| match t {
                Tab::F1(f) => f.max_entry as usize,
                Tab::F2(f) => f.entries.len(),
            })
            .sum()
    }
    fn font_bytes(&self) -> Vec<u8> {
        self.font_bytes_with(&mut |_, _| {})
    }
    /// `edit(table index, encoded mapping table)` may change the bytes before they go into the font
    fn font_bytes_with(&self, edit: &mut dyn FnMut(usize, &mut Vec<u8>)) -> Vec<u8> {
        let n = self.num_glyphs as usize;
        let mut glyf = vec![];
        let mut offs = vec![0u32];
        for i in 0..n {
            for _ in 0..(2 * (i % 3)) {
                glyf.push(0x10u8.wrapping_add(i as u8));
            }
            offs.push(glyf.len() as u32);
        }
        let mut extra: Vec<(T4, Vec<u8>)> = vec![(*b"cmap", cmap12_bytes(&self.cmap)), (*b"tab1", b"abcdef\n".to_vec())];
        for (k, tag) in [*b"IFT ", *b"IFTX"].into_iter().enumerate() {
            if let Some(t) = &self.tabs[k] {
                let mut b = encode_tab(t, self.num_glyphs);
                edit(k, &mut b);
                extra.push((tag, b));
            }
        }
        fontkit::Kit { num_glyphs: self.num_glyphs, upem: 1000, glyf: Some((glyf, offs)), extra, ..Default::default() }.build()
    }
}

fn norm_f2(s: &F2Spec, compat: [u32; 4]) -> F2 {
    let template = TEMPLATES[s.template as usize % TEMPLATES.len()];
    let mut entries: Vec<E2> = vec![];
    let mut last_num: i64 = 0;
    let mut last_str: Vec<u8> = vec![];
    for (i, e) in s.entries.iter().enumerate() {
        let (mut cps, mut has_fds, mut feats, mut ds): (BTreeSet<u32>, bool, Vec<T4>, Vec<(T4, i32, i32)>) = (
            e.cps.iter().map(|c| (*c).min(MAX_CP)).collect(),
            e.has_fds,
            e.feats.iter().take(255).map(|f| *FEATS[*f as usize % FEATS.len()]).collect(),
            e.ds.iter().map(norm_seg).collect(),
        );
        if let (Some(k), true) = (e.same_as, i > 0) {
            let src = &entries[scale(k, i)];
            cps = src.cps.clone();
            has_fds = src.has_fds;
            feats = src.feats.clone();
            ds = src.ds.clone();
        }
        if !has_fds {
            feats.clear();
            ds.clear();
        }
        let mut mode = e.enc.mode % 4;
        if !cps.is_empty() && mode == 0 {
            mode = 1;
        }
        let min_cp = cps.iter().next().copied().unwrap_or(e.enc.bias_frac as u32 * 3);
        let bias = match mode {
            2 => (min_cp.min(0xFFFF) as u64 * e.enc.bias_frac as u64 / 255) as u32,
            3 => (min_cp.min(0xFF_FFFF) as u64 * e.enc.bias_frac as u64 / 255) as u32,
            _ => 0,
        };
        let children: Vec<usize> = if i == 0 { vec![] } else { e.children.iter().take(127).map(|r| scale(*r, i)).collect() };
        // ids
        let (delta, id_str, id_bytes) = if s.string_ids {
            if let Some(st) = &e.id_str {
                last_str = st.clone();
            }
            (None, e.id_str.clone(), last_str.clone())
        } else {
            // id_i = id_{i-1} + 1 + delta, kept inside 0..=u32::MAX by adjusting the delta
            let d = e.delta.map(|d| (d as i64).clamp(-(last_num + 1), 0x7F_FFFF).max(-0x80_0000));
            last_num = last_num + 1 + d.unwrap_or(0);
            (d.map(|d| d as i32), None, numeric_id_bytes(last_num as u32))
        };
        entries.push(E2 {
            cps,
            mode,
            bias,
            bf: e.enc.bf % 4,
            filled: e.enc.filled,
            tall: e.enc.tall,
            has_fds,
            feats,
            ds,
            children,
            conj: e.conj,
            delta,
            id_str,
            fmt: e.fmt.map(|f| 1 + (f.wrapping_sub(1)) % 3),
            ignored: e.ignored,
            uri: expand(template, &id_bytes),
        });
    }
    F2 { compat, default_fmt: 1 + (s.default_fmt.wrapping_sub(1)) % 3, template, string_ids: s.string_ids, cff: s.cff % 4, gap: s.gap, str_first: s.str_first, entries }
}

fn norm_f1(s: &F1Spec, compat: [u32; 4], num_glyphs: u16) -> F1 {
    let max_gm = s.max_gm.min(60_000);
    let max_entry = max_gm.saturating_add(s.n_extra.min(5_000));
    let first_mapped = s.first_mapped.min(num_glyphs);
    // palette values: anything in 0..=max_entry (those above max_gm are skipped by the glyph map rule)
    let pal: Vec<u16> = s.palette.iter().map(|p| p % (max_entry as u32 + 1).min(65_535) as u16).collect();
    let pick = |k: u8| -> u16 {
        if k == 0 || pal.is_empty() {
            0
        } else {
            pal[(k as usize - 1) % pal.len()]
        }
    };
    let glyph_entries: Vec<u16> = (first_mapped..num_glyphs).map(|g| pick(*s.glyph_pick.get(g as usize % s.glyph_pick.len().max(1)).unwrap_or(&0))).collect();
    let mut by_tag: BTreeMap<T4, (u16, Vec<(u16, u16)>)> = BTreeMap::new();
    for r in &s.feats {
        let tag = *FEATS[r.tag as usize % FEATS.len()];
        let maps: Vec<(u16, u16)> = r.maps.iter().take(if max_entry < 256 { 255 } else { 400 }).map(|(a, b)| (a % (max_entry as u32 + 1).min(65_535) as u16, b % (max_entry as u32 + 1).min(65_535) as u16)).collect();
        by_tag.entry(tag).or_insert((r.first_new % (max_entry as u32 + 1).min(65_535) as u16, maps));
    }
    let recs = by_tag.into_iter().map(|(t, (f, m))| (t, f, m)).collect();
    let applied = s.applied.iter().map(|a| a % (max_entry as u32 + 1).min(65_535) as u16).collect();
    F1 {
        compat,
        patch_format: 1 + (s.patch_format.wrapping_sub(1)) % 3,
        template: TEMPLATES[s.template as usize % TEMPLATES.len()],
        cff: s.cff % 4,
        max_entry,
        max_gm,
        first_mapped,
        glyph_entries,
        recs,
        applied,
        empty_feature_map: s.empty_feature_map,
    }
}

// =============================================================================================
// Encoders (harness side; layout from resources/codegen_inputs/ift.rs and the fixtures in font-test-data)
// =============================================================================================
fn be16(v: &mut Vec<u8>, x: u16) {
    v.extend_from_slice(&x.to_be_bytes());
}
fn be24(v: &mut Vec<u8>, x: u32) {
    v.extend_from_slice(&x.to_be_bytes()[1..]);
}
fn be32(v: &mut Vec<u8>, x: u32) {
    v.extend_from_slice(&x.to_be_bytes());
}

fn cmap12_bytes(m: &BTreeMap<u32, u16>) -> Vec<u8> {
    let mut v = vec![];
    be16(&mut v, 0);
    be16(&mut v, 1);
    be16(&mut v, 3);
    be16(&mut v, 10);
    be32(&mut v, 12);
    be16(&mut v, 12);
    be16(&mut v, 0);
    be32(&mut v, 16 + 12 * m.len() as u32);
    be32(&mut v, 0);
    be32(&mut v, m.len() as u32);
    for (cp, g) in m {
        be32(&mut v, *cp);
        be32(&mut v, *cp);
        be32(&mut v, *g as u32);
    }
    v
}

/// Sparse bit set encoding (spec "sparse bit set decoding" read backwards): header byte = branch factor code |
/// height << 2, then the nodes breadth first, each `bf` bits, least significant bit first, packed contiguously.
fn sbs_encode(vals: &BTreeSet<u32>, bf_code: u8, filled: bool, tall: bool) -> Vec<u8> {
    let bf = [2u64, 4, 8, 32][bf_code as usize % 4];
    let max_h = [31u32, 16, 11, 7][bf_code as usize % 4];
    let Some(max) = vals.iter().next_back().copied() else {
        return vec![bf_code % 4];
    };
    let mut h = 1u32;
    while bf.pow(h) <= max as u64 {
        h += 1;
    }
    if tall && h < max_h && bf.pow(h + 1) <= (1u64 << 40) {
        h += 1;
    }
    let sorted: Vec<u64> = vals.iter().map(|v| *v as u64).collect();
    let mut bits: Vec<bool> = vec![];
    let mut queue: VecDeque<(u64, u32, usize, usize)> = VecDeque::new();
    queue.push_back((0, 1, 0, sorted.len()));
    while let Some((start, depth, lo, hi)) = queue.pop_front() {
        let size = bf.pow(h - depth + 1);
        if filled && (hi - lo) as u64 == size {
            bits.extend(std::iter::repeat(false).take(bf as usize));
            continue;
        }
        let cs = size / bf;
        let mut p = lo;
        for i in 0..bf {
            let end = start + (i + 1) * cs; // exclusive
            let q = p + sorted[p..hi].partition_point(|v| *v < end);
            bits.push(q > p);
            if q > p && depth < h {
                queue.push_back((start + i * cs, depth + 1, p, q));
            }
            p = q;
        }
    }
    let mut out = vec![(bf_code % 4) | ((h as u8) << 2)];
    out.resize(1 + bits.len().div_ceil(8), 0);
    for (k, b) in bits.iter().enumerate() {
        if *b {
            out[1 + k / 8] |= 1 << (k % 8);
        }
    }
    out
}

fn encode_f2(t: &F2) -> Vec<u8> {
    let mut v = vec![2u8, 0, 0, 0, t.cff];
    for c in t.compat {
        be32(&mut v, c);
    }
    v.push(t.default_fmt);
    be24(&mut v, t.entries.len() as u32);
    let off_pos = v.len();
    be32(&mut v, 0);
    be32(&mut v, 0);
    be16(&mut v, t.template.len() as u16);
    v.extend_from_slice(t.template.as_bytes());
    if t.cff & 1 != 0 {
        be32(&mut v, 456);
    }
    if t.cff & 2 != 0 {
        be32(&mut v, 789);
    }
    for k in 0..t.gap % 7 {
        v.push(0xA0 | k);
    }
    let mut strdata: Vec<u8> = vec![];
    for e in &t.entries {
        if let Some(s) = &e.id_str {
            strdata.extend_from_slice(s);
        }
    }
    strdata.push(0x5A); // never empty
    let put_str = |v: &mut Vec<u8>| {
        if t.string_ids {
            let off = v.len() as u32;
            v[off_pos + 4..off_pos + 8].copy_from_slice(&off.to_be_bytes());
            v.extend_from_slice(&strdata);
        }
    };
    if t.str_first {
        put_str(&mut v);
    }
    let off = v.len() as u32;
    v[off_pos..off_pos + 4].copy_from_slice(&off.to_be_bytes());
    for e in &t.entries {
        let has_id = if t.string_ids { e.id_str.is_some() } else { e.delta.is_some() };
        let mut flags = 0u8;
        if e.has_fds {
            flags |= 1;
        }
        if !e.children.is_empty() {
            flags |= 2;
        }
        if has_id {
            flags |= 4;
        }
        if e.fmt.is_some() {
            flags |= 8;
        }
        flags |= match e.mode {
            1 => 0x10,
            2 => 0x20,
            3 => 0x30,
            _ => 0,
        };
        if e.ignored {
            flags |= 0x40;
        }
        v.push(flags);
        if e.has_fds {
            v.push(e.feats.len() as u8);
            for f in &e.feats {
                v.extend_from_slice(f);
            }
            be16(&mut v, e.ds.len() as u16);
            for (a, s, en) in &e.ds {
                v.extend_from_slice(a);
                be32(&mut v, *s as u32);
                be32(&mut v, *en as u32);
            }
        }
        if !e.children.is_empty() {
            v.push(e.children.len() as u8 | if e.conj { 0x80 } else { 0 });
            for c in &e.children {
                be24(&mut v, *c as u32);
            }
        }
        if has_id {
            if t.string_ids {
                be16(&mut v, e.id_str.as_ref().map(|s| s.len()).unwrap_or(0) as u16);
            } else {
                v.extend_from_slice(&e.delta.unwrap_or(0).to_be_bytes()[1..]);
            }
        }
        if let Some(f) = e.fmt {
            v.push(f);
        }
        if e.mode != 0 {
            match e.mode {
                2 => be16(&mut v, e.bias as u16),
                3 => be24(&mut v, e.bias),
                _ => {}
            }
            let rel: BTreeSet<u32> = e.cps.iter().map(|c| c - e.bias).collect();
            v.extend_from_slice(&sbs_encode(&rel, e.bf, e.filled, e.tall));
        }
    }
    if !t.str_first {
        put_str(&mut v);
    }
    v
}

fn encode_f1(t: &F1, num_glyphs: u16) -> Vec<u8> {
    let wide = t.max_entry >= 256;
    let put = |v: &mut Vec<u8>, x: u16| {
        if wide {
            be16(v, x);
        } else {
            v.push(x as u8);
        }
    };
    let mut v = vec![1u8, 0, 0, 0, t.cff];
    for c in t.compat {
        be32(&mut v, c);
    }
    be16(&mut v, t.max_entry);
    be16(&mut v, t.max_gm);
    be24(&mut v, num_glyphs as u32);
    let off_pos = v.len();
    be32(&mut v, 0);
    be32(&mut v, 0);
    let mut bitmap = vec![0u8; (t.max_entry as usize + 8) / 8];
    for a in &t.applied {
        bitmap[*a as usize / 8] |= 1 << (a % 8);
    }
    v.extend_from_slice(&bitmap);
    be16(&mut v, t.template.len() as u16);
    v.extend_from_slice(t.template.as_bytes());
    v.push(t.patch_format);
    if t.cff & 1 != 0 {
        be32(&mut v, 456);
    }
    if t.cff & 2 != 0 {
        be32(&mut v, 789);
    }
    let off = v.len() as u32;
    v[off_pos..off_pos + 4].copy_from_slice(&off.to_be_bytes());
    be16(&mut v, t.first_mapped);
    for e in &t.glyph_entries {
        put(&mut v, *e);
    }
    if !t.recs.is_empty() || t.empty_feature_map {
        let off = v.len() as u32;
        v[off_pos + 4..off_pos + 8].copy_from_slice(&off.to_be_bytes());
        be16(&mut v, t.recs.len() as u16);
        for (tag, first_new, maps) in &t.recs {
            v.extend_from_slice(tag);
            put(&mut v, *first_new);
            put(&mut v, maps.len() as u16);
        }
        for (_, _, maps) in &t.recs {
            for (a, b) in maps {
                put(&mut v, *a);
                put(&mut v, *b);
            }
        }
    }
    v
}
fn encode_tab(t: &Tab, num_glyphs: u16) -> Vec<u8> {
    match t {
        Tab::F1(f) => encode_f1(f, num_glyphs),
        Tab::F2(f) => encode_f2(f),
    }
}

fn compat_bytes(c: [u32; 4]) -> Vec<u8> {
    c.iter().flat_map(|x| x.to_be_bytes()).collect()
}
/// glyph keyed patch carrying `glyf` data (font-test-data `glyf_u16_glyph_patches` layout)
fn glyph_keyed_patch(compat: [u32; 4], gids: &[u16], datas: &[Vec<u8>]) -> Vec<u8> {
    let mut payload = vec![];
    be32(&mut payload, gids.len() as u32);
    payload.push(1);
    for g in gids {
        be16(&mut payload, *g);
    }
    payload.extend_from_slice(b"glyf");
    let header_len = payload.len() + 4 * (gids.len() + 1);
    let mut off = header_len as u32;
    for d in datas {
        be32(&mut payload, off);
        off += d.len() as u32;
    }
    be32(&mut payload, off);
    for d in datas {
        payload.extend_from_slice(d);
    }
    let mut v = b"ifgk".to_vec();
    be32(&mut v, 0);
    v.push(0);
    v.extend_from_slice(&compat_bytes(compat));
    be32(&mut v, payload.len() as u32);
    v.extend_from_slice(&payload);
    v
}
/// table keyed patch replacing whole tables (transparent decoder: the stream is the new table)
fn table_keyed_patch(compat: [u32; 4], tables: &[(T4, Vec<u8>)]) -> Vec<u8> {
    let mut v = b"iftk".to_vec();
    be32(&mut v, 0);
    v.extend_from_slice(&compat_bytes(compat));
    be16(&mut v, tables.len() as u16);
    let mut off = (v.len() + 4 * (tables.len() + 1)) as u32;
    for (_, d) in tables {
        be32(&mut v, off);
        off += 9 + d.len() as u32;
    }
    be32(&mut v, off);
    for (tag, d) in tables {
        v.extend_from_slice(tag);
        v.push(1); // REPLACE_TABLE
        be32(&mut v, d.len() as u32);
        v.extend_from_slice(d);
    }
    v
}

// =============================================================================================
// Subset definitions
// =============================================================================================
#[derive(Clone, Debug, PartialEq)]
struct DefM {
    /// true: every code point except `cps`
    inv: bool,
    cps: BTreeSet<u32>,
    /// None = all features
    feats: Option<BTreeSet<T4>>,
    /// None = all of design space
    ds: Option<BTreeMap<T4, Vec<(i32, i32)>>>,
}
impl DefM {
    fn has_cp(&self, c: u32) -> bool {
        self.inv != self.cps.contains(&c)
    }
    fn is_all(&self) -> bool {
        self.inv && self.cps.is_empty() && self.feats.is_none() && self.ds.is_none()
    }
    fn is_empty(&self) -> bool {
        !self.inv && self.cps.is_empty() && self.feats.as_ref().is_some_and(|f| f.is_empty()) && self.ds.as_ref().is_some_and(|d| d.is_empty())
    }
    fn to_lib(&self) -> SubsetDefinition {
        let mut cps = IntSet::<u32>::empty();
        for c in &self.cps {
            cps.insert(*c);
        }
        if self.inv {
            cps.invert();
        }
        let feats = match &self.feats {
            None => FeatureSet::All,
            Some(f) => FeatureSet::Set(f.iter().map(|t| Tag::new(t)).collect()),
        };
        let ds = match &self.ds {
            None => DesignSpace::All,
            Some(m) => {
                let mut out: HashMap<Tag, RangeSet<Fixed>> = HashMap::new();
                for (t, segs) in m {
                    let rs = out.entry(Tag::new(t)).or_default();
                    for (s, e) in segs {
                        rs.insert(Fixed::from_bits(*s)..=Fixed::from_bits(*e));
                    }
                }
                DesignSpace::Ranges(out)
            }
        };
        SubsetDefinition::new(cps, feats, ds)
    }
    fn describe(&self) -> String {
        format!(
            "cps={}{:x?} feats={} ds={}",
            if self.inv { "ALL-" } else { "" },
            self.cps,
            match &self.feats {
                None => "ALL".to_string(),
                Some(f) => format!("{:?}", f.iter().map(|t| String::from_utf8_lossy(t).to_string()).collect::<Vec<_>>()),
            },
            match &self.ds {
                None => "ALL".to_string(),
                Some(d) => format!("{:?}", d.iter().map(|(t, s)| (String::from_utf8_lossy(t).to_string(), s.clone())).collect::<Vec<_>>()),
            }
        )
    }
}
/// D_0 = step_0, D_k = D_{k-1} ∪ step_k, then the all-inclusive definition: a ⊆-chain by construction
fn chain(c: &Case) -> Vec<DefM> {
    let mut cur = DefM { inv: false, cps: BTreeSet::new(), feats: Some(BTreeSet::new()), ds: Some(BTreeMap::new()) };
    let mut out = vec![];
    for s in &c.steps {
        if let (Some(excl), false) = (&s.invert, cur.inv) {
            let x: BTreeSet<u32> = excl.iter().map(|c| (*c).min(MAX_CP)).filter(|c| !cur.cps.contains(c)).collect();
            cur.inv = true;
            cur.cps = x;
        }
        for cp in &s.cps {
            let cp = (*cp).min(MAX_CP);
            if cur.inv {
                cur.cps.remove(&cp);
            } else {
                cur.cps.insert(cp);
            }
        }
        if s.feats_all {
            cur.feats = None;
        }
        if let Some(f) = &mut cur.feats {
            f.extend(s.feats.iter().map(|x| *FEATS[*x as usize % FEATS.len()]));
        }
        if s.ds_all {
            cur.ds = None;
        }
        if let Some(d) = &mut cur.ds {
            for seg in &s.ds {
                let (t, a, b) = norm_seg(seg);
                d.entry(t).or_default().push((a, b));
            }
        }
        out.push(cur.clone());
    }
    out.push(DefM { inv: true, cps: BTreeSet::new(), feats: None, ds: None });
    out
}

// =============================================================================================
// Reference: which entries are offered, and how large their intersection is
// =============================================================================================
#[derive(Clone, Debug)]
struct Cand {
    table: u8,
    order: usize,
    uri: String,
    /// 1 fully invalidating table keyed, 2 partially invalidating table keyed, 3 glyph keyed
    fmt: u8,
    cp: u64,
    feat: usize,
    ds: Vec<(T4, i64)>,
}

/// ranges over the discrete 16.16 domain: overlapping or adjacent ranges are one range
fn norm_ranges(v: &[(i32, i32)]) -> Vec<(i32, i32)> {
    let mut s: Vec<(i32, i32)> = v.iter().copied().filter(|(a, b)| a <= b).collect();
    s.sort_unstable();
    let mut out: Vec<(i32, i32)> = vec![];
    for (a, b) in s {
        if let Some(l) = out.last_mut() {
            if a as i64 <= l.1 as i64 + 1 {
                l.1 = l.1.max(b);
                continue;
            }
        }
        out.push((a, b));
    }
    out
}
fn isect_ranges(a: &[(i32, i32)], b: &[(i32, i32)]) -> Vec<(i32, i32)> {
    let mut out = vec![];
    for (s1, e1) in a {
        for (s2, e2) in b {
            let (s, e) = (*s1.max(s2), *e1.min(e2));
            if s <= e {
                out.push((s, e));
            }
        }
    }
    norm_ranges(&out)
}
fn measure(r: &[(i32, i32)]) -> i64 {
    r.iter().map(|(a, b)| *b as i64 - *a as i64).sum()
}

/// Format 2, "check entry intersection": per dimension an empty entry set is a wildcard, otherwise the entry set
/// must share an element with the definition's set (design space: a segment pair on the same axis that overlaps);
/// then the child condition (all / at least one of the referenced earlier entries intersect).
fn offered_f2(t: &F2, table: u8, d: &DefM, out: &mut Vec<Cand>) {
    let mut hit: Vec<bool> = Vec::with_capacity(t.entries.len());
    for e in &t.entries {
        let cp_ok = e.cps.is_empty() || e.cps.iter().any(|c| d.has_cp(*c));
        let feat_ok = e.feats.is_empty()
            || match &d.feats {
                None => true,
                Some(f) => e.feats.iter().any(|x| f.contains(x)),
            };
        let ds_ok = e.ds.is_empty()
            || match &d.ds {
                None => true,
                Some(m) => e.ds.iter().any(|(a, s, en)| m.get(a).is_some_and(|segs| segs.iter().any(|(s2, e2)| s2 <= en && s <= e2))),
            };
        let mut h = cp_ok && feat_ok && ds_ok;
        if h && !e.children.is_empty() {
            h = if e.conj { e.children.iter().all(|c| hit[*c]) } else { e.children.iter().any(|c| hit[*c]) };
        }
        hit.push(h);
    }
    for (i, e) in t.entries.iter().enumerate() {
        if !hit[i] || e.ignored {
            continue;
        }
        let fmt = e.fmt.unwrap_or(t.default_fmt);
        let cp = e.cps.iter().filter(|c| d.has_cp(**c)).count() as u64;
        let fset: BTreeSet<T4> = e.feats.iter().copied().collect();
        let feat = match &d.feats {
            None => fset.len(),
            Some(f) => fset.iter().filter(|x| f.contains(*x)).count(),
        };
        let mut by_axis: BTreeMap<T4, Vec<(i32, i32)>> = BTreeMap::new();
        for (a, s, en) in &e.ds {
            by_axis.entry(*a).or_default().push((*s, *en));
        }
        let mut ds = vec![];
        for (a, segs) in &by_axis {
            let en = norm_ranges(segs);
            let common = match &d.ds {
                None => en,
                Some(m) => match m.get(a) {
                    None => vec![],
                    Some(dsegs) => isect_ranges(&en, &norm_ranges(dsegs)),
                },
            };
            if !common.is_empty() {
                ds.push((*a, measure(&common)));
            }
        }
        out.push(Cand { table, order: i, uri: e.uri.clone(), fmt, cp, feat, ds });
    }
}

/// Format 1: glyph g belongs to entry glyphMap[g] (entry 0 below firstMappedGlyph); an entry's code points are
/// those the cmap sends to its glyphs; a feature record (tag, first..last → new entry) adds an entry that matches
/// when the tag is requested and one of the entries first..=last matches. Entry 0 and applied entries are not offered.
fn offered_f1(w: &World, t: &F1, table: u8, d: &DefM, out: &mut Vec<Cand>) {
    // code points of the definition reaching each glyph-map entry
    let mut hits: BTreeMap<u16, BTreeSet<u32>> = BTreeMap::new();
    for (cp, g) in &w.cmap {
        if *g == 0 || !d.has_cp(*cp) {
            continue; // glyph 0 is "no mapping"
        }
        let entry = if *g < t.first_mapped { 0 } else { t.glyph_entries[(*g - t.first_mapped) as usize] };
        if entry > t.max_gm {
            continue;
        }
        hits.entry(entry).or_default().insert(*cp);
    }
    let mut matched: BTreeMap<u16, (BTreeSet<u32>, BTreeSet<T4>)> = hits.iter().map(|(k, v)| (*k, (v.clone(), BTreeSet::new()))).collect();
    for (tag, first_new, maps) in &t.recs {
        let requested = match &d.feats {
            None => true,
            Some(f) => f.contains(tag),
        };
        if !requested {
            continue;
        }
        for (k, (first, last)) in maps.iter().enumerate() {
            let Some(j) = (*first_new as usize).checked_add(k).filter(|j| *j <= u16::MAX as usize) else { continue };
            let j = j as u16;
            if first > last || *last > t.max_gm || j <= t.max_gm || j > t.max_entry {
                continue;
            }
            let mut cps = BTreeSet::new();
            let mut any = false;
            for (_, v) in hits.range(*first..=*last) {
                any = true;
                cps.extend(v.iter().copied());
            }
            if any {
                let m = matched.entry(j).or_default();
                m.0.extend(cps);
                m.1.insert(*tag);
            }
        }
    }
    for (i, (cps, tags)) in &matched {
        if *i == 0 || t.applied.contains(i) {
            continue;
        }
        out.push(Cand { table, order: *i as usize, uri: expand(t.template, &numeric_id_bytes(*i as u32)), fmt: t.patch_format, cp: cps.len() as u64, feat: tags.len(), ds: vec![] });
    }
}
fn offered(w: &World, d: &DefM) -> Vec<Cand> {
    let mut out = vec![];
    for (k, t) in w.tabs.iter().enumerate() {
        match t {
            Some(Tab::F1(f)) => offered_f1(w, f, k as u8, d, &mut out),
            Some(Tab::F2(f)) => offered_f2(f, k as u8, d, &mut out),
            None => {}
        }
    }
    out
}

type Ms = BTreeMap<(String, u8), usize>;
fn ms_of_cands(c: &[Cand]) -> Ms {
    let mut m = Ms::new();
    for x in c {
        *m.entry((x.uri.clone(), x.fmt)).or_insert(0) += 1;
    }
    m
}
fn fmt_code(f: PatchFormat) -> u8 {
    match f {
        PatchFormat::TableKeyed { fully_invalidating: true } => 1,
        PatchFormat::TableKeyed { fully_invalidating: false } => 2,
        PatchFormat::GlyphKeyed => 3,
    }
}
fn lib_offered(font: &FontRef, d: &DefM) -> Result<Ms, Fail> {
    let got = intersecting_patches(font, &d.to_lib()).map_err(|e| fail("unexpected-err", format!("intersecting_patches failed on a well-formed table: {e} (def {})", d.describe())))?;
    let mut m = Ms::new();
    for p in &got {
        let u = p.uri_string().map_err(|_| fail("unexpected-err", "uri_string failed on a valid template".into()))?;
        *m.entry((u, fmt_code(p.encoding()))).or_insert(0) += 1;
    }
    Ok(m)
}
fn ms_subset(a: &Ms, b: &Ms) -> bool {
    a.iter().all(|(k, n)| b.get(k).copied().unwrap_or(0) >= *n)
}
fn fail(sig: &str, msg: String) -> Fail {
    Fail::new(format!("c19|{sig}"), msg)
}

// ---- selection invariants ----
/// the documented candidate order: code points, then features, then design space (axis-wise, sorted by tag),
/// and on a tie the earlier entry is the greater one
fn key_cmp(a: &Cand, b: &Cand) -> Ordering {
    a.cp.cmp(&b.cp).then(a.feat.cmp(&b.feat)).then_with(|| a.ds.cmp(&b.ds)).then(b.order.cmp(&a.order))
}
fn is_max<'a>(c: &Cand, mut pool: impl Iterator<Item = &'a Cand>) -> bool {
    pool.all(|o| key_cmp(o, c) != Ordering::Greater)
}
/// Is there a reading of the URI list as a group that satisfies the property: either one fully invalidating
/// candidate that is maximal among the fully invalidating ones, or at most one partially invalidating candidate per
/// table (each maximal among its table's candidates not already used by the other table) plus glyph keyed ones.
fn check_group(uris: &[String], cands: &[Cand]) -> Result<&'static str, Fail> {
    let set: BTreeSet<&String> = uris.iter().collect();
    if set.len() != uris.len() {
        return Err(fail("select-duplicate-uri", format!("group lists a URI twice: {uris:?}")));
    }
    for u in uris {
        if !cands.iter().any(|c| c.uri == *u) {
            return Err(fail("select-not-offered", format!("group contains {u:?} which no intersecting entry produces; uris {uris:?}")));
        }
    }
    if uris.is_empty() {
        return Ok("empty");
    }
    if uris.len() == 1 && cands.iter().any(|c| c.uri == uris[0] && c.fmt == 1 && is_max(c, cands.iter().filter(|o| o.fmt == 1))) {
        return Ok("full");
    }
    let reading = |strict: bool| -> bool {
        let n = uris.len();
        for pi in 0..=n {
            for px in 0..=n {
                if pi < n && pi == px {
                    continue;
                }
                let others_ok = (0..n).filter(|k| *k != pi && *k != px).all(|k| cands.iter().any(|c| c.uri == uris[k] && c.fmt == 3));
                if !others_ok {
                    continue;
                }
                let side = |me: usize, other: usize, table: u8| -> bool {
                    if me == n {
                        return true;
                    }
                    let other_uri = uris.get(other);
                    cands.iter().any(|c| c.uri == uris[me] && c.fmt == 2 && c.table == table && (!strict || is_max(c, cands.iter().filter(|o| o.fmt == 2 && o.table == table && Some(&o.uri) != other_uri))))
                };
                if side(pi, px, 0) && side(px, pi, 1) {
                    return true;
                }
            }
        }
        false
    };
    if reading(true) {
        return Ok(if uris.len() == 1 { "mixed-1" } else { "mixed-n" });
    }
    let show: Vec<String> = cands.iter().map(|c| format!("[t{} #{} {} fmt{} key=({},{},{:?})]", c.table, c.order, c.uri, c.fmt, c.cp, c.feat, c.ds)).collect();
    if reading(false) || (uris.len() == 1 && cands.iter().any(|c| c.uri == uris[0] && c.fmt == 1)) {
        return Err(fail("select-not-max", format!("the invalidating patch of the group is not the candidate with the largest intersection / earliest entry: group {uris:?}; candidates {show:?}")));
    }
    Err(fail("select-grouping", format!("group {uris:?} has more than one invalidating patch of a table, or something next to a fully invalidating one; candidates {show:?}")))
}

// =============================================================================================
// Stage 1: intersection, monotonicity, selection
// =============================================================================================
fn classify_world(w: &World, stats: &Stats) -> bool {
    let mut structured = false;
    for (k, t) in w.tabs.iter().enumerate() {
        let name = ["ift", "iftx"][k];
        match t {
            None => {}
            Some(Tab::F1(f)) => {
                stats.class(&format!("table:{name}=format1{}", if f.max_entry >= 256 { "-16bit" } else { "-8bit" }));
                if !f.recs.is_empty() {
                    stats.class("f1:feature-map");
                    structured = true;
                }
                if !f.applied.is_empty() {
                    stats.class("f1:applied-bits");
                }
            }
            Some(Tab::F2(f)) => {
                stats.class(&format!("table:{name}=format2"));
                let mut seen = [false; 8];
                for e in &f.entries {
                    let dims = (!e.cps.is_empty()) as u8 + (!e.feats.is_empty()) as u8 + (!e.ds.is_empty()) as u8;
                    if !e.children.is_empty() || dims >= 2 {
                        structured = true;
                    }
                    seen[0] |= !e.children.is_empty() && e.conj;
                    seen[1] |= !e.children.is_empty() && !e.conj;
                    seen[2] |= e.mode == 2;
                    seen[3] |= e.mode == 3;
                    seen[4] |= e.ignored;
                    seen[5] |= e.fmt.is_some();
                    seen[6] |= e.ds.len() >= 2 && e.ds.iter().any(|a| e.ds.iter().filter(|b| b.0 == a.0).count() >= 2);
                    seen[7] |= e.mode != 0 && e.cps.is_empty();
                }
                for (s, n) in seen.iter().zip(["f2:children-conj", "f2:children-disj", "f2:bias16", "f2:bias24", "f2:ignored", "f2:entry-format", "f2:several-segments-per-axis", "f2:encoded-empty-cp-set"]) {
                    if *s {
                        stats.class(n);
                    }
                }
                if f.string_ids {
                    stats.class("f2:string-ids");
                }
            }
        }
    }
    if w.tabs[0].is_some() && w.tabs[1].is_some() {
        stats.class("table:both");
    }
    structured
}

fn test_select(c: &Case, stats: &Stats) -> CaseResult {
    let w = World::build(c);
    let bytes = w.font_bytes();
    let font = FontRef::new(&bytes).map_err(|e| fail("harness-font", format!("FontRef::new: {e}")))?;
    let defs = chain(c);
    let all = defs.last().unwrap();
    let all_ms = lib_offered(&font, all)?;
    let all_total: usize = all_ms.values().sum();
    let structured = classify_world(&w, stats);
    let mut prev: Option<Ms> = None;
    let mut partial = false;
    for d in &defs {
        stats.evals(1);
        let got = lib_offered(&font, d)?;
        let cands = offered(&w, d);
        let want = ms_of_cands(&cands);
        // (a)
        if got != want {
            return Err(fail("intersect-mismatch", format!("def {}: intersecting_patches offers {got:?}, the reference {want:?}", d.describe())));
        }
        // (b) — on the library's own answers only
        if let Some(p) = &prev {
            if !ms_subset(p, &got) {
                return Err(fail("monotone-chain", format!("offered(D) ⊄ offered(D') for D ⊆ D' = {}: before {p:?}, after {got:?}", d.describe())));
            }
        }
        if !ms_subset(&got, &all_ms) {
            return Err(fail("monotone-all", format!("offered({}) ⊄ offered(all): {got:?} vs {all_ms:?}", d.describe())));
        }
        // (c)
        let group = PatchGroup::select_next_patches(font.clone(), &d.to_lib()).map_err(|e| fail("unexpected-err", format!("select_next_patches failed: {e} (def {})", d.describe())))?;
        let uris: Vec<String> = group.uris().map(|s| s.to_string()).collect();
        let kind = check_group(&uris, &cands)?;
        // distribution
        let total: usize = got.values().sum();
        if !d.is_all() && !d.is_empty() && total > 0 && total < all_total {
            partial = true;
        }
        stats.class(&format!("group:{kind}"));
        if kind == "empty" && !cands.is_empty() {
            stats.class("group:empty-despite-candidates");
        }
        let inval: Vec<&Cand> = cands.iter().filter(|c| c.fmt != 3).collect();
        if inval.iter().any(|a| inval.iter().any(|b| (a.table, a.order) != (b.table, b.order) && a.fmt == b.fmt && a.table == b.table && a.uri != b.uri && (a.cp, a.feat, &a.ds) == (b.cp, b.feat, &b.ds))) {
            stats.class("select:tie-between-invalidating");
        }
        if cands.iter().any(|a| cands.iter().any(|b| (a.table, a.order) != (b.table, b.order) && a.uri == b.uri)) {
            stats.class(if cands.iter().any(|a| cands.iter().any(|b| a.table != b.table && a.uri == b.uri)) { "select:same-uri-across-tables" } else { "select:same-uri-within-table" });
        }
        if inval.iter().any(|c| !c.ds.is_empty()) {
            stats.class("select:design-space-measure");
        }
        if d.inv && !d.is_all() {
            stats.class("def:inverted-cps");
        }
        if d.is_empty() {
            stats.class("def:empty");
        }
        prev = Some(got);
    }
    if structured && partial {
        stats.nontrivial(hash_json(c));
        if stats.want_sample() {
            let d = &defs[0];
            stats.sample(serde_json::json!({"stage": "select", "tables": [w.tabs[0].as_ref().map(tab_summary), w.tabs[1].as_ref().map(tab_summary)],
                "chain_len": defs.len(), "first_def": d.describe(), "offered_first": offered(&w, d).iter().map(|c| c.uri.clone()).collect::<Vec<_>>(), "offered_all": all_total}));
        }
    }
    Ok(())
}
fn tab_summary(t: &Tab) -> String {
    match t {
        Tab::F1(f) => format!("format1 fmt{} max_entry={} max_gm={} feature_records={} applied={:?} template={}", f.patch_format, f.max_entry, f.max_gm, f.recs.len(), f.applied, f.template),
        Tab::F2(f) => format!(
            "format2 default_fmt{} template={} entries=[{}]",
            f.default_fmt,
            f.template,
            f.entries.iter().map(|e| format!("{{cps:{} feats:{} ds:{} children:{:?}{} fmt:{:?}{} uri:{}}}", e.cps.len(), e.feats.len(), e.ds.len(), e.children, if e.conj { "&" } else { "|" }, e.fmt, if e.ignored { " ignored" } else { "" }, e.uri)).collect::<Vec<_>>().join(", ")
        ),
    }
}

// =============================================================================================
// Stage 2: extension loop
// =============================================================================================
enum Plan {
    /// the table keyed patch replaces mapping table `0`/`1` by this state
    Tk(usize, Tab),
    /// glyph keyed; Some((table, entry)) when exactly one offered entry produces the URI
    Gk(Option<(usize, usize)>),
}
fn make_patch(w: &World, cands: &[Cand], uri: &str) -> (Vec<u8>, Plan) {
    let mine: Vec<&Cand> = cands.iter().filter(|c| c.uri == uri).collect();
    let compat_of = |t: usize| match w.tabs[t].as_ref().unwrap() {
        Tab::F1(f) => f.compat,
        Tab::F2(f) => f.compat,
    };
    // invalidating reading first: the best fully invalidating candidate, else IFT's, else IFTX's partial one
    let inval = mine.iter().filter(|c| c.fmt == 1).max_by(|a, b| key_cmp(a, b)).or_else(|| mine.iter().filter(|c| c.fmt == 2).min_by_key(|c| c.table));
    if let Some(c) = inval {
        let t = c.table as usize;
        let mut tab = w.tabs[t].clone().unwrap();
        match &mut tab {
            Tab::F2(f) => {
                let dflt = f.default_fmt;
                for e in f.entries.iter_mut() {
                    if e.uri == uri && e.fmt.unwrap_or(dflt) != 3 {
                        e.ignored = true;
                    }
                }
            }
            Tab::F1(f) => {
                if f.template.contains('{') {
                    f.applied.insert(c.order as u16);
                } else {
                    f.applied.extend(1..=f.max_entry); // one URI for the whole table
                }
            }
        }
        let tag = [*b"IFT ", *b"IFTX"][t];
        let new_tab1: Vec<u8> = format!("patched by {uri}\n").into_bytes();
        let bytes = table_keyed_patch(compat_of(t), &[(tag, encode_tab(&tab, w.num_glyphs)), (*b"tab1", new_tab1)]);
        return (bytes, Plan::Tk(t, tab));
    }
    let t = mine.iter().map(|c| c.table).min().unwrap_or(0) as usize;
    let h = fnv64(uri.as_bytes());
    let n = w.num_glyphs as u64;
    let mut gids: BTreeSet<u16> = BTreeSet::new();
    for k in 0..(1 + h % 3) {
        gids.insert((1 + (h >> (8 * k + 8)) % (n - 1)) as u16);
    }
    let gids: Vec<u16> = gids.into_iter().collect();
    let datas: Vec<Vec<u8>> = gids.iter().map(|g| vec![(h >> 56) as u8 ^ *g as u8; ((h >> 3) as usize + *g as usize) % 7]).collect();
    let exact = if mine.len() == 1 { Some((mine[0].table as usize, mine[0].order)) } else { None };
    (glyph_keyed_patch(compat_of(t), &gids, &datas), Plan::Gk(exact))
}

fn test_extend(c: &Case, stats: &Stats) -> CaseResult {
    let mut w = World::build(c);
    let defs = chain(c);
    let d = &defs[c.run_def as usize % defs.len()];
    let lib_def = d.to_lib();
    let bound = w.n_entries() + 1;
    let mut bytes = w.font_bytes();
    let mut status: HashMap<String, UriStatus> = HashMap::new();
    let mut applied: BTreeSet<String> = BTreeSet::new();
    let mut exact = true;
    let mut ok_rounds = 0usize;
    let (mut tk_rounds, mut gk_rounds) = (0usize, 0usize);
    let mut end = "fixpoint";
    let mut round = 0usize;
    loop {
        let font = FontRef::new(&bytes).map_err(|e| fail("progress-font", format!("patched font does not open: {e}")))?;
        let cands = offered(&w, d);
        let group = match PatchGroup::select_next_patches(font.clone(), &lib_def) {
            Ok(g) => g,
            Err(e) => {
                if exact {
                    return Err(fail("unexpected-err", format!("round {round}: select_next_patches failed on a well-formed font: {e}")));
                }
                end = "select-err";
                break;
            }
        };
        if !group.has_uris() {
            // not a verdict (the statement only speaks about rounds that have URIs); oracle (a) owns the offer itself
            if exact && !cands.is_empty() {
                stats.class("extend:stopped-with-candidates-left");
            }
            break;
        }
        if round >= bound {
            return Err(fail("progress-no-termination", format!("still URIs to fetch after {round} rounds with {} mapping entries", bound - 1)));
        }
        round += 1;
        let uris: Vec<String> = group.uris().map(|s| s.to_string()).collect();
        let mut plans: BTreeMap<String, Plan> = BTreeMap::new();
        if let Some(u) = uris.iter().find(|u| !cands.iter().any(|c| c.uri == **u)) {
            if exact {
                return Err(fail("select-not-offered", format!("round {round}: group contains {u:?} which no intersecting entry of the (model-tracked) font produces; uris {uris:?}")));
            }
            end = "unknown-uri(model-inexact)";
            break;
        }
        if exact {
            // oracle (c) again, on mapping tables whose applied / ignored bits were written by the library itself
            check_group(&uris, &cands)?;
        }
        for u in &uris {
            if applied.contains(u) {
                continue;
            }
            let (patch, plan) = make_patch(&w, &cands, u);
            status.insert(u.clone(), UriStatus::Pending(patch));
            plans.insert(u.clone(), plan);
        }
        stats.evals(1);
        match group.apply_next_patches_with_decoder(&mut status, &NoopBrotliDecoder) {
            Err(_) => {
                // an error is an allowed outcome; it must not have "applied" anything new silently is C18's business
                end = "apply-err";
                break;
            }
            Ok(new_bytes) => {
                let newly: Vec<String> = uris.iter().filter(|u| !applied.contains(*u) && status.get(*u) == Some(&UriStatus::Applied)).cloned().collect();
                if newly.is_empty() {
                    return Err(fail("progress-none", format!("round {round}: apply returned Ok but no URI that was never applied before became applied; group {uris:?}")));
                }
                ok_rounds += 1;
                let mut was_tk = false;
                for u in &newly {
                    match plans.remove(u) {
                        Some(Plan::Tk(t, tab)) => {
                            w.tabs[t] = Some(tab);
                            was_tk = true;
                        }
                        Some(Plan::Gk(Some((t, i)))) => match w.tabs[t].as_mut().unwrap() {
                            Tab::F2(f) => f.entries[i].ignored = true,
                            Tab::F1(f) => {
                                f.applied.insert(i as u16);
                            }
                        },
                        Some(Plan::Gk(None)) | None => exact = false,
                    }
                    applied.insert(u.clone());
                }
                if was_tk {
                    tk_rounds += 1;
                    if newly.len() != 1 {
                        return Err(fail("progress-invalidating-not-alone", format!("round {round}: a table keyed patch was applied together with other patches: {newly:?}")));
                    }
                } else {
                    gk_rounds += 1;
                }
                bytes = new_bytes;
                if exact {
                    // the applied entries are no longer "un-applied": the offer on the new font is the reference's
                    let nf = FontRef::new(&bytes).map_err(|e| fail("progress-font", format!("patched font does not open: {e}")))?;
                    let got = lib_offered(&nf, d)?;
                    let want = ms_of_cands(&offered(&w, d));
                    if got != want {
                        return Err(fail("progress-state-mismatch", format!("round {round}: after applying {newly:?} the font offers {got:?}, the reference (entries of applied patches marked) {want:?}")));
                    }
                }
            }
        }
    }
    stats.class(&format!("extend:end={end}"));
    stats.class(match ok_rounds {
        0 => "extend:ok-rounds=0",
        1 => "extend:ok-rounds=1",
        2..=3 => "extend:ok-rounds=2..3",
        _ => "extend:ok-rounds>=4",
    });
    if tk_rounds > 0 && gk_rounds > 0 {
        stats.class("extend:table-keyed-then-glyph-keyed");
    }
    if !exact {
        stats.class("extend:model-inexact(shared-uri)");
    }
    if ok_rounds >= 2 || (ok_rounds >= 1 && exact && !d.is_all() && !d.is_empty()) {
        stats.nontrivial(hash_json(c));
        if stats.want_sample() {
            stats.sample(serde_json::json!({"stage": "extend", "def": d.describe(), "ok_rounds": ok_rounds, "table_keyed_rounds": tk_rounds, "glyph_keyed_rounds": gk_rounds, "end": end,
                "applied": applied.iter().collect::<Vec<_>>(), "entries": bound - 1}));
        }
    }
    Ok(())
}

// =============================================================================================
// Stage 3: monotonicity alone, on mapping tables the reference does not model (byte edits behind the header)
// =============================================================================================
#[derive(Clone, Debug, Serialize, Deserialize)]
struct HavocCase {
    base: Case,
    /// (IFTX instead of IFT, position, kind, value)
    edits: Vec<(bool, u32, u8, u8)>,
}
fn test_havoc(hc: &HavocCase, stats: &Stats) -> CaseResult {
    let w = World::build(&hc.base);
    let mut changed = false;
    let bytes = w.font_bytes_with(&mut |k, b| {
        // format byte, reserved, flags and compatibility id stay: still "a format 1/2 mapping table" with distinct ids
        const KEEP: usize = 21;
        if b.len() <= KEEP {
            return;
        }
        let before = b.clone();
        for (tab, pos, kind, val) in &hc.edits {
            if *tab as usize != k {
                continue;
            }
            let p = KEEP + scale(*pos, b.len() - KEEP);
            match kind % 4 {
                0 => b[p] ^= *val | 1,
                1 => b[p] = *val,
                2 => b[p] = if val & 1 == 0 { 0 } else { 0xFF },
                _ => {
                    if p + 1 < b.len() {
                        b.swap(p, p + 1)
                    }
                }
            }
        }
        changed |= *b != before;
    });
    let font = FontRef::new(&bytes).map_err(|e| fail("harness-font", format!("FontRef::new: {e}")))?;
    let defs = chain(&hc.base);
    let mut res: Vec<Option<Ms>> = vec![];
    for d in &defs {
        stats.evals(1);
        let lib = d.to_lib();
        let Ok(r) = guarded(|| intersecting_patches(&font, &lib)) else {
            stats.class("havoc:panic(totality is C02's)");
            return Ok(());
        };
        let ms = r.ok().and_then(|list| {
            let mut m = Ms::new();
            for p in &list {
                *m.entry((p.uri_string().ok()?, fmt_code(p.encoding()))).or_insert(0) += 1;
            }
            Some(m)
        });
        if let Some(m) = &ms {
            // group invariants that need no model
            if let Ok(Ok(g)) = guarded(|| PatchGroup::select_next_patches(font.clone(), &lib)) {
                let uris: Vec<String> = g.uris().map(|s| s.to_string()).collect();
                let set: BTreeSet<&String> = uris.iter().collect();
                if set.len() != uris.len() {
                    return Err(fail("select-duplicate-uri", format!("(edited table) group lists a URI twice: {uris:?}")));
                }
                if let Some(u) = uris.iter().find(|u| !m.keys().any(|k| k.0 == **u)) {
                    return Err(fail("select-not-offered", format!("(edited table) group contains {u:?}, not among the intersecting patches {m:?}")));
                }
            }
        }
        res.push(ms);
    }
    let all = res.last().unwrap();
    let mut prev: Option<&Ms> = None;
    let mut strict_part = false;
    for (d, r) in defs.iter().zip(&res) {
        let Some(r) = r else { continue };
        if let Some(p) = prev {
            if !ms_subset(p, r) {
                return Err(fail("monotone-chain", format!("(edited table) offered(D) ⊄ offered(D') for D ⊆ D' = {}: before {p:?}, after {r:?}", d.describe())));
            }
        }
        if let Some(a) = all {
            if !ms_subset(r, a) {
                return Err(fail("monotone-all", format!("(edited table) offered({}) ⊄ offered(all): {r:?} vs {a:?}", d.describe())));
            }
            let (n, na): (usize, usize) = (r.values().sum(), a.values().sum());
            strict_part |= n > 0 && n < na;
        }
        prev = Some(r);
    }
    let oks = res.iter().filter(|r| r.is_some()).count();
    stats.class(if oks == 0 {
        "havoc:table-rejected"
    } else if oks == res.len() {
        "havoc:table-accepted"
    } else {
        "havoc:accepted-for-some-definitions"
    });
    if changed && oks == res.len() && strict_part {
        stats.nontrivial(hash_json(hc));
    }
    Ok(())
}

// =============================================================================================
// Generators
// =============================================================================================
fn cp_strategy() -> BoxedStrategy<u32> {
    prop_oneof![
        10 => 0x20u32..0x50,
        3 => 0x400u32..0x418,
        1 => Just(0x1F600u32),
        2 => 0x10000u32..0x10010,
        1 => 0xFFF8u32..0x10008,
        1 => Just(0xFFFFu32),
        1 => Just(MAX_CP),
        1 => Just(0u32),
        1 => 0x20u32..0x200,
    ]
    .boxed()
}
fn coord() -> BoxedStrategy<i32> {
    prop_oneof![
        6 => (-6i32..16).prop_map(|k| k * 0x8000),
        2 => (-6i32..16, -1i32..=1).prop_map(|(k, d)| k * 0x8000 + d),
        1 => (100i32..=900).prop_map(|v| v << 16),
    ]
    .boxed()
}
fn seg_strategy() -> BoxedStrategy<Seg> {
    (prop_oneof![3 => Just(0u8), 3 => Just(1u8), 2 => Just(2u8), 1 => Just(3u8)], coord(), coord()).boxed()
}
fn vec_or_empty<T: std::fmt::Debug + Clone + 'static>(s: BoxedStrategy<T>, empty_w: u32, max: usize) -> BoxedStrategy<Vec<T>> {
    prop_oneof![empty_w => Just(vec![]), 10 => proptest::collection::vec(s, 1..max)].boxed()
}
fn entry_strategy() -> BoxedStrategy<EntrySpec> {
    let enc = (0u8..4, any::<u8>(), 0u8..4, any::<bool>(), proptest::bool::weighted(0.15)).prop_map(|(mode, bias_frac, bf, filled, tall)| CpEnc { mode, bias_frac, bf, filled, tall });
    let cps = prop_oneof![
        4 => Just(vec![]),
        10 => proptest::collection::vec(cp_strategy(), 1..6),
        2 => (0x20u32..0x48, 1u32..40).prop_map(|(a, n)| (a..a + n).collect::<Vec<u32>>()),
        1 => (prop_oneof![Just(0x40u32), Just(0x10000u32), Just(0x400u32)], prop_oneof![Just(16u32), Just(32u32), Just(64u32)]).prop_map(|(a, n)| (a..a + n).collect::<Vec<u32>>()),
    ];
    let delta = prop_oneof![
        12 => Just(None),
        2 => Just(Some(0i32)),
        3 => Just(Some(-1i32)),
        1 => Just(Some(-2i32)),
        2 => (1i32..5).prop_map(Some),
        1 => (200i32..70_000).prop_map(Some),
        1 => Just(Some(0x7F_FFFFi32)),
        1 => (-40i32..-2).prop_map(Some),
    ];
    let id_str = prop_oneof![3 => Just(None), 5 => proptest::collection::vec(prop_oneof![Just(0u8), Just(b'a'), Just(b'b'), Just(0xFFu8), any::<u8>()], 0..4).prop_map(Some)];
    let fmt = prop_oneof![5 => Just(None), 1 => Just(Some(1u8)), 2 => Just(Some(2u8)), 2 => Just(Some(3u8))];
    let a = (cps, enc, any::<bool>(), vec_or_empty((0u8..6).boxed(), 6, 4), vec_or_empty(seg_strategy(), 6, 5));
    let b = (vec_or_empty(any::<u32>().boxed(), 16, 5), any::<bool>(), delta, id_str, fmt, proptest::bool::weighted(0.15), prop_oneof![7 => Just(None), 1 => any::<u32>().prop_map(Some)]);
    (a, b)
        .prop_map(|((cps, enc, has_fds, feats, ds), (children, conj, delta, id_str, fmt, ignored, same_as))| EntrySpec { cps, enc, has_fds, feats, ds, children, conj, delta, id_str, fmt, ignored, same_as })
        .boxed()
}
fn template_strategy() -> BoxedStrategy<u8> {
    prop_oneof![6 => Just(0u8), 1 => Just(1u8), 1 => Just(2u8), 1 => Just(3u8), 1 => Just(4u8)].boxed()
}
fn f2_strategy(max_entries: usize) -> BoxedStrategy<F2Spec> {
    let n = prop_oneof![12 => 1usize..8, 3 => 8usize..max_entries.max(9), 1 => Just(0usize)];
    (
        // invalidating defaults are as frequent as glyph keyed ones: selection has something to decide
        prop_oneof![2 => Just(1u8), 4 => Just(2u8), 4 => Just(3u8)],
        template_strategy(),
        proptest::bool::weighted(0.2),
        prop_oneof![6 => Just(0u8), 1 => 1u8..4],
        prop_oneof![4 => Just(0u8), 1 => any::<u8>()],
        any::<bool>(),
        n.prop_flat_map(|n| proptest::collection::vec(entry_strategy(), n..=n)),
    )
        .prop_map(|(default_fmt, template, string_ids, cff, gap, str_first, entries)| F2Spec { default_fmt, template, string_ids, cff, gap, str_first, entries })
        .boxed()
}
fn f1_strategy() -> BoxedStrategy<F1Spec> {
    let max_gm = prop_oneof![10 => 0u16..8, 1 => Just(254u16), 1 => Just(255u16), 1 => Just(256u16), 1 => 257u16..400];
    let n_extra = prop_oneof![4 => Just(0u16), 8 => 1u16..6, 1 => 250u16..262];
    let rec = (0u8..6, any::<u16>(), proptest::collection::vec((any::<u16>(), any::<u16>()), 0..4)).prop_map(|(tag, first_new, maps)| FeatRecSpec { tag, first_new, maps });
    (
        (prop_oneof![1 => Just(1u8), 3 => Just(2u8), 4 => Just(3u8)], template_strategy(), prop_oneof![6 => Just(0u8), 1 => 1u8..4], max_gm, n_extra, prop_oneof![3 => Just(0u16), 3 => 1u16..6, 1 => any::<u16>()]),
        (proptest::collection::vec(any::<u16>(), 1..6), proptest::collection::vec(0u8..7, 1..40), vec_or_empty(rec.boxed(), 5, 4), vec_or_empty(any::<u16>().boxed(), 10, 4), proptest::bool::weighted(0.1), any::<u16>()),
    )
        .prop_map(|((patch_format, template, cff, max_gm, n_extra, first_mapped), (palette, glyph_pick, feats, applied, empty_feature_map, salt))| {
            // shape the raw numbers so that most records are valid: palette inside the glyph map range, new entries above it
            let max_entry = max_gm.saturating_add(n_extra);
            let palette: Vec<u16> = palette.iter().enumerate().map(|(k, p)| if k == 0 && salt % 7 == 0 { *p } else { p % (max_gm as u32 + 1) as u16 }).collect();
            let feats = feats
                .into_iter()
                .map(|mut r| {
                    if r.first_new % 11 != 0 && n_extra > 0 {
                        r.first_new = max_gm + 1 + r.first_new % n_extra;
                    }
                    for (k, m) in r.maps.iter_mut().enumerate() {
                        if (m.0 as usize + k) % 13 != 0 {
                            let a = if m.0 % 5 == 0 { 0 } else { palette[m.0 as usize % palette.len()] % (max_gm as u32 + 1) as u16 };
                            let b = if m.1 % 3 == 0 { a } else { (a as u32 + (m.1 % 4) as u32).min(max_gm as u32) as u16 };
                            *m = (a.min(b), a.max(b));
                        }
                    }
                    r
                })
                .collect();
            let applied = applied.iter().map(|a| if a % 3 == 0 { a % (max_entry as u32 + 1) as u16 } else { palette[*a as usize % palette.len()] }).collect();
            F1Spec { patch_format, template, cff, max_gm, n_extra, first_mapped, palette, glyph_pick, feats, applied, empty_feature_map }
        })
        .boxed()
}
fn table_strategy(max_entries: usize) -> BoxedStrategy<TableSpec> {
    prop_oneof![3 => f2_strategy(max_entries).prop_map(TableSpec::F2), 1 => f1_strategy().prop_map(TableSpec::F1)].boxed()
}
fn step_strategy() -> BoxedStrategy<Step> {
    (
        vec_or_empty(cp_strategy(), 3, 6),
        vec_or_empty((0u8..6).boxed(), 6, 3),
        vec_or_empty(seg_strategy(), 6, 3),
        prop_oneof![9 => Just(None), 1 => proptest::collection::vec(cp_strategy(), 0..8).prop_map(Some)],
        proptest::bool::weighted(0.1),
        proptest::bool::weighted(0.1),
    )
        .prop_map(|(cps, feats, ds, invert, feats_all, ds_all)| Step { cps, feats, ds, invert, feats_all, ds_all })
        .boxed()
}
fn case_strategy(max_entries: usize, max_steps: usize) -> impl Strategy<Value = Case> {
    let font = (2u16..40, proptest::collection::vec((cp_strategy(), prop_oneof![1 => Just(0u16), 12 => any::<u16>()]), 0..24)).prop_map(|(num_glyphs, cmap)| FontSpec { num_glyphs, cmap });
    let tables = prop_oneof![
        4 => table_strategy(max_entries).prop_map(|t| (Some(t), None)),
        2 => table_strategy(max_entries).prop_map(|t| (None, Some(t))),
        5 => (table_strategy(max_entries), table_strategy(max_entries)).prop_map(|(a, b)| (Some(a), Some(b))),
    ];
    (font, tables, proptest::collection::vec(step_strategy(), 1..=max_steps), any::<u8>(), any::<bool>()).prop_map(|(font, (ift, iftx), steps, run_def, near_compat)| Case { font, ift, iftx, steps, run_def, near_compat })
}

fn main() {
    let ctx = Ctx::from_args("C19");
    ctx.set_rule(
        "Structured IFT/IFTX mapping tables (format 2 entry trees: code points in all three bias encodings and four sparse-bit-set branch factors, feature tags, \
         design-space segments, conjunctive/disjunctive children, id deltas / string ids, per-entry formats, ignored flags; format 1: glyph map + feature map + applied \
         bitmap, 8/16-bit widths, over a generated cmap) x ⊆-chains of subset definitions ending in the all-inclusive one. Non-trivial (select): a table has an entry \
         with a child reference or >= 2 constrained dimensions (format 1: a feature map) and some definition that is neither empty nor all is offered a non-empty strict \
         part of offered(all). Non-trivial (extend): >= 2 successful apply rounds, or one with the post-state compared against the model. Non-trivial (monotone-havoc: the same tables \
         with 1-3 byte edits behind the compatibility id, monotonicity and model-free group invariants only): the edit changed the table, every definition was answered and \
         one got a non-empty strict part of offered(all). Distinct by hash of the case.",
    );
    ctx.assume("the reference intersection/URI expansion/encoders are harness code written from the rules quoted in patchmap.rs, ift.rs and the font-test-data fixtures; NoopBrotliDecoder is transparent");
    ctx.prop_stage("select", Isolation::Threads, ctx.n(160_000, 1_200_000), || case_strategy(26, 4), test_select);
    ctx.prop_stage("extend", Isolation::Threads, ctx.n(50_000, 360_000), || case_strategy(14, 3), test_extend);
    ctx.prop_stage(
        "monotone-havoc",
        Isolation::Threads,
        ctx.n(60_000, 450_000),
        || (case_strategy(12, 4), proptest::collection::vec((any::<bool>(), any::<u32>(), 0u8..4, prop_oneof![Just(0u8), Just(1u8), Just(0xFFu8), Just(0x80u8), any::<u8>()]), 1..4)).prop_map(|(base, edits)| HavocCase { base, edits }),
        test_havoc,
    );
    ctx.finish();
}
