//! C05 — offset packing is sound: every offset resolves to its target or packing fails.
//!
//! Three routes:
//!  * public: a harness `FontWrite` DAG type compiled with `write_fonts::dump_table`, checked by an independent
//!    byte walker (no knowledge of the packer's order);
//!  * hook: `write_fonts::verif::pack_mock_graph` (no dedup, explicit link positions, adjustments, final layout);
//!  * real tables: big `Gpos` tables (PairPos / MarkBase) that force splitting and extension promotion, re-read
//!    with read-fonts and compared pair by pair / attachment by attachment with the input.
use proptest::prelude::*;
use serde::{Deserialize, Serialize};
use std::collections::{BTreeMap, BTreeSet};
use vcore::*;
use write_fonts::validate::{Validate, ValidationCtx};
use write_fonts::verif::{pack_mock_graph, MockLink, MockNode};
use write_fonts::{dump_table, FontWrite, TableWriter};

// =============================================================================================
// Graph specs (the replay format of all graph stages)

#[derive(Clone, Debug, Serialize, Deserialize, PartialEq)]
struct SLink {
    /// index of the target node (always greater than the index of the node holding the link)
    to: u32,
    /// offset width in bytes: 2, 3 or 4
    w: u8,
    /// offset adjustment (hook route only; the public API always writes 0)
    adj: u32,
}

#[derive(Clone, Debug, Serialize, Deserialize, PartialEq)]
struct SNode {
    /// payload bytes (the link fields come on top of that)
    size: u32,
    /// number of payload bytes before the block of link fields (<= size)
    lead: u32,
    /// payload content selector; nodes with equal stamp, size, lead and links have identical bytes
    stamp: u32,
    links: Vec<SLink>,
    /// explicit payload (dedup-adversarial family); `size` equals its length
    #[serde(default, skip_serializing_if = "Option::is_none")]
    raw: Option<Vec<u8>>,
}

impl SNode {
    fn payload(&self) -> Vec<u8> {
        match &self.raw {
            Some(r) => r.clone(),
            None => fill(self.stamp, self.size as usize),
        }
    }
    /// two nodes have equal payloads iff their content ids are equal (LCG payloads of >= 8 bytes differ iff the stamps differ)
    fn content_id(&self) -> (u64, Vec<u8>) {
        if self.raw.is_some() || self.size < 8 {
            (0, self.payload())
        } else {
            (self.stamp as u64 | 1 << 63, vec![])
        }
    }
}

#[derive(Clone, Debug, Serialize, Deserialize)]
struct Spec {
    nodes: Vec<SNode>,
    /// run the public `dump_table` route (off when re-serialising shared subtrees would cost too much)
    public: bool,
    /// run the hook route
    hook: bool,
    /// the generator rewrote link widths to be a function of the target node (known finding excluded by construction)
    /// and the raw widths did mix 16-bit and wider links into one node (or nested 32-bit targets were demoted)
    norm: bool,
    /// object-id order of the hook route: 0 = ids ascend with the node index (parents before children),
    /// 1 = root first, then descending node index (children before parents, as the public route numbers objects), 2 = both
    #[serde(default)]
    hook_order: u8,
}

impl Spec {
    fn node_len(&self, i: usize) -> usize {
        self.nodes[i].size as usize + self.nodes[i].links.iter().map(|l| l.w as usize).sum::<usize>()
    }
    fn total_len(&self) -> usize {
        (0..self.nodes.len()).map(|i| self.node_len(i)).sum()
    }
    /// generator invariants; a hand-edited replay file that breaks them is ignored
    fn well_formed(&self) -> bool {
        !self.nodes.is_empty()
            && self.nodes.iter().enumerate().all(|(i, n)| {
                n.lead <= n.size
                    && n.raw.as_ref().map(|r| r.len() == n.size as usize).unwrap_or(true)
                    && n.size <= 1 << 25
                    && n.links.iter().all(|l| (l.to as usize) > i && (l.to as usize) < self.nodes.len() && (2..=4).contains(&l.w) && l.adj as usize <= self.node_len(i))
            })
            && self.indegrees().iter().skip(1).all(|d| *d > 0)
    }
    fn indegrees(&self) -> Vec<u32> {
        let mut d = vec![0u32; self.nodes.len()];
        for n in &self.nodes {
            for l in &n.links {
                if let Some(x) = d.get_mut(l.to as usize) {
                    *x += 1;
                }
            }
        }
        d
    }
    /// content classes: nodes that the public route's object deduplication merges into one object
    /// (equal bytes and equal links); without `dedup` every node is its own class
    fn classes(&self, dedup: bool) -> Vec<u32> {
        let n = self.nodes.len();
        if !dedup {
            return (0..n as u32).collect();
        }
        let mut class = vec![0u32; n];
        let mut keys: BTreeMap<(u32, (u64, Vec<u8>), u32, Vec<(u32, u8)>), u32> = BTreeMap::new();
        for i in (0..n).rev() {
            let nd = &self.nodes[i];
            // payloads of >= 8 bytes differ iff the stamps differ (see `fill`); shorter ones are compared by value
            let id = nd.content_id();
            let links: Vec<(u32, u8)> = nd.links.iter().map(|l| (class[l.to as usize], l.w)).collect();
            let key = (nd.size, id, if links.is_empty() { 0 } else { nd.lead }, links);
            let next = keys.len() as u32;
            class[i] = *keys.entry(key).or_insert(next);
        }
        class
    }
    /// number of objects that are the target of both a 16-bit and a wider link (the known finding's predicate);
    /// `dedup`: objects as the public route sees them (after merging identical nodes)
    fn mixed_nodes(&self, dedup: bool) -> usize {
        let class = self.classes(dedup);
        let mut narrow = vec![false; self.nodes.len()];
        let mut wide = vec![false; self.nodes.len()];
        for n in &self.nodes {
            for l in &n.links {
                if l.w == 2 {
                    narrow[class[l.to as usize] as usize] = true;
                } else {
                    wide[class[l.to as usize] as usize] = true;
                }
            }
        }
        (0..self.nodes.len()).filter(|i| narrow[*i] && wide[*i]).count()
    }
    /// some target of a 32-bit link is a proper descendant of another target of a 32-bit link (covers every graph in
    /// which one space root lies inside another space root's subgraph: the second known finding's predicate)
    fn nested32(&self) -> bool {
        let n = self.nodes.len();
        let mut t32 = vec![false; n];
        for nd in &self.nodes {
            for l in &nd.links {
                if l.w == 4 {
                    t32[l.to as usize] = true;
                }
            }
        }
        let mut below = vec![false; n];
        for i in 0..n {
            if t32[i] && below[i] {
                return true;
            }
            if t32[i] || below[i] {
                for l in &self.nodes[i].links {
                    below[l.to as usize] = true;
                }
            }
        }
        false
    }
    /// bytes the public route writes while serialising (shared subtrees are re-serialised per reference)
    fn public_write_cost(&self) -> (u64, u64) {
        let n = self.nodes.len();
        let mut writes = vec![0u64; n];
        writes[0] = 1;
        let (mut bytes, mut count) = (0u64, 0u64);
        for i in 0..n {
            let w = writes[i];
            bytes = bytes.saturating_add(w.saturating_mul(self.node_len(i) as u64));
            count = count.saturating_add(w);
            for l in &self.nodes[i].links {
                let t = l.to as usize;
                writes[t] = writes[t].saturating_add(w);
            }
        }
        (bytes, count)
    }
}

/// payload bytes: an LCG stream seeded by the stamp (distinct stamps differ within the first 8 bytes)
fn fill(stamp: u32, size: usize) -> Vec<u8> {
    let mut v = Vec::with_capacity(size + 8);
    let mut x: u64 = (stamp as u64 + 1).wrapping_mul(0x9E37_79B9_7F4A_7C15);
    while v.len() < size {
        x = x.wrapping_mul(6364136223846793005).wrapping_add(1442695040888963407);
        v.extend_from_slice(&(x ^ (x >> 29)).to_be_bytes());
    }
    v.truncate(size);
    v
}

/// materialised node: payload before / after the block of link fields
struct Mat {
    pre: Vec<u8>,
    post: Vec<u8>,
    len: usize,
}

fn materialise(spec: &Spec) -> Vec<Mat> {
    spec.nodes
        .iter()
        .enumerate()
        .map(|(i, n)| {
            let mut p = n.payload();
            let post = p.split_off(n.lead as usize);
            Mat { pre: p, post, len: spec.node_len(i) }
        })
        .collect()
}

// ---------------------------------------------------------------------------------------------
// public route: an external FontWrite type

struct PubNode<'a> {
    spec: &'a Spec,
    mats: &'a [Mat],
    i: usize,
}
impl FontWrite for PubNode<'_> {
    fn write_into(&self, w: &mut TableWriter) {
        let m = &self.mats[self.i];
        w.write_slice(&m.pre);
        for l in &self.spec.nodes[self.i].links {
            w.write_offset(&PubNode { spec: self.spec, mats: self.mats, i: l.to as usize }, l.w as usize);
        }
        w.write_slice(&m.post);
    }
}
impl Validate for PubNode<'_> {
    fn validate_impl(&self, _: &mut ValidationCtx) {}
}

// ---------------------------------------------------------------------------------------------
// the oracle: byte walker

fn fail(route: &str, what: &str, msg: String) -> Fail {
    Fail::new(format!("c05|{route}|{what}"), msg)
}

/// Check that `bytes[pos..]` starts with a byte-for-byte copy of node `i` whose link fields, decoded at their
/// width, lead (recursively) to copies of the linked nodes. `seen` memoises verified (position, node) pairs.
fn walk(bytes: &[u8], spec: &Spec, mats: &[Mat], use_adj: bool, route: &str, pos: usize, i: usize, seen: &mut BTreeSet<(usize, usize)>) -> CaseResult {
    let mut stack = vec![(pos, i, usize::MAX, usize::MAX)];
    while let Some((pos, i, from, via)) = stack.pop() {
        if !seen.insert((pos, i)) {
            continue;
        }
        let ctx = || if from == usize::MAX { format!("node {i} at {pos}") } else { format!("node {i} at {pos} (reached from node {from} link #{via})") };
        let m = &mats[i];
        let end = pos.checked_add(m.len).filter(|e| *e <= bytes.len());
        let Some(end) = end else {
            return Err(fail(route, "target-oob", format!("{}: object of {} bytes does not fit in the {} output bytes", ctx(), m.len, bytes.len())));
        };
        let node = &spec.nodes[i];
        let fields: usize = node.links.iter().map(|l| l.w as usize).sum();
        if bytes[pos..pos + m.pre.len()] != m.pre[..] || bytes[pos + m.pre.len() + fields..end] != m.post[..] {
            return Err(fail(route, "not-a-copy", format!("{}: bytes differ from the object's payload (len {})", ctx(), m.len)));
        }
        let mut q = pos + m.pre.len();
        for (k, l) in node.links.iter().enumerate() {
            let v = bytes[q..q + l.w as usize].iter().fold(0usize, |a, b| (a << 8) | *b as usize);
            q += l.w as usize;
            let base = pos + if use_adj { l.adj as usize } else { 0 };
            stack.push((base + v, l.to as usize, i, k));
        }
    }
    Ok(())
}

fn spec_summary(spec: &Spec) -> serde_json::Value {
    let n = spec.nodes.len();
    let show = n.min(12);
    serde_json::json!({
        "nodes": n,
        "sizes": spec.nodes.iter().take(show).map(|x| x.size).collect::<Vec<_>>(),
        "links": spec.nodes.iter().take(show).map(|x| x.links.iter().map(|l| format!("{}/{}{}", l.to, l.w as u32 * 8, if l.adj > 0 { format!("-{}", l.adj) } else { String::new() })).collect::<Vec<_>>()).collect::<Vec<_>>(),
        "total": spec.total_len(),
    })
}

struct Outcome {
    packed: bool,
    out_len: usize,
    duplicated: bool,
}

fn prefix_panic(f: Fail, spec: &Spec, route: &str) -> Fail {
    // the known finding is "panic X on a graph with a node reached by both 16-bit and wider links"; the same panic
    // on a graph without such a node is a different (new) failure
    // likewise for the second known finding (nested space roots)
    let kind = format!("panic{}{}", if spec.mixed_nodes(route == "public") > 0 { "-mixed-width" } else { "" }, if spec.nested32() { "-nested32" } else { "" });
    Fail::new(format!("c05|{kind}|{}", f.sig), format!("{route} route: {} on an acyclic graph {}", f.msg, spec_summary(spec)))
}

fn run_public(spec: &Spec, mats: &[Mat]) -> Result<Outcome, Fail> {
    let root = PubNode { spec, mats, i: 0 };
    let res = guarded(|| dump_table(&root)).map_err(|f| prefix_panic(f, spec, "public"))?;
    match res {
        Err(write_fonts::error::Error::PackingFailed(_)) => Ok(Outcome { packed: false, out_len: 0, duplicated: false }),
        Err(e) => Err(fail("public", "unexpected-error", format!("dump_table returned {e} for a mock graph"))),
        Ok(bytes) => {
            let mut seen = BTreeSet::new();
            walk(&bytes, spec, mats, false, "public", 0, 0, &mut seen)?;
            Ok(Outcome { packed: true, out_len: bytes.len(), duplicated: bytes.len() > spec.total_len() })
        }
    }
}

fn run_hook(spec: &Spec, mats: &[Mat], descending: bool, stats: &Stats) -> Result<Outcome, Fail> {
    let n = spec.nodes.len();
    // slot k of the slice handed to the hook holds node perm[k]; slot 0 must be the root
    let perm: Vec<usize> = if descending { std::iter::once(0).chain((1..n).rev()).collect() } else { (0..n).collect() };
    let mut slot = vec![0usize; n];
    for (k, i) in perm.iter().enumerate() {
        slot[*i] = k;
    }
    let nodes: Vec<MockNode> = perm
        .iter()
        .map(|i| {
            let (nd, m) = (&spec.nodes[*i], &mats[*i]);
            let mut bytes = Vec::with_capacity(m.len);
            bytes.extend_from_slice(&m.pre);
            let mut links = vec![];
            for l in &nd.links {
                links.push(MockLink { target: slot[l.to as usize], width: l.w, pos: bytes.len() as u32, adjustment: l.adj });
                bytes.extend(std::iter::repeat(0xEE).take(l.w as usize));
            }
            bytes.extend_from_slice(&m.post);
            MockNode { bytes, links }
        })
        .collect();
    let res = guarded(|| pack_mock_graph(&nodes)).map_err(|f| prefix_panic(f, spec, if descending { "hook (object ids descending)" } else { "hook (object ids ascending)" }))?;
    let Some(mut p) = res else {
        return Ok(Outcome { packed: false, out_len: 0, duplicated: false });
    };
    for e in p.layout.iter_mut() {
        e.0 = e.0.map(|k| perm.get(k).copied().unwrap_or(usize::MAX));
    }
    let bytes = &p.bytes;
    // (a) the layout tiles the output: entries in order, contiguous, no overlap, total = output length
    let mut at = 0u64;
    let mut starts: BTreeMap<usize, Vec<(usize, Option<usize>)>> = BTreeMap::new();
    let mut placed = vec![0u32; spec.nodes.len()];
    for (k, (idx, pos, len)) in p.layout.iter().enumerate() {
        if *pos as u64 != at {
            return Err(fail("hook", "layout-not-tiling", format!("layout entry {k} {:?} starts at {pos}, previous entries end at {at}", idx)));
        }
        at += *len as u64;
        if let Some(i) = idx {
            if *i >= spec.nodes.len() || mats[*i].len != *len as usize {
                return Err(fail("hook", "layout-length", format!("layout entry {k} says node {i} with length {len}, the node has {} bytes", mats.get(*i).map(|m| m.len).unwrap_or(0))));
            }
            placed[*i] += 1;
            if placed[*i] > 1 {
                return Err(fail("hook", "layout-duplicate-id", format!("input node {i} is laid out twice under its own id")));
            }
        }
        starts.entry(*pos as usize).or_default().push((*len as usize, *idx));
    }
    if at != bytes.len() as u64 {
        return Err(fail("hook", "layout-not-tiling", format!("layout covers {at} bytes, output has {}", bytes.len())));
    }
    if p.layout.first().map(|e| (e.0, e.1)) != Some((Some(0), 0)) {
        return Err(fail("hook", "root-not-first", format!("first layout entry is {:?}, expected the root at 0", p.layout.first())));
    }
    // (b) from the root: every link resolves to a copy of its target; every reachable node is therefore present
    let mut seen = BTreeSet::new();
    walk(bytes, spec, mats, true, "hook", 0, 0, &mut seen)?;
    // (c) every object the layout attributes to an input node is a correct copy of that node
    for (idx, pos, _) in &p.layout {
        if let Some(i) = idx {
            walk(bytes, spec, mats, true, "hook", *pos as usize, *i, &mut seen)?;
        }
    }
    // (d) every verified copy coincides with a laid-out object of the same length (offsets land on object starts)
    for (pos, i) in &seen {
        let ok = starts.get(pos).map(|v| v.iter().any(|(len, _)| *len == mats[*i].len)).unwrap_or(false);
        if !ok {
            return Err(fail("hook", "target-not-an-object", format!("a link to node {i} resolves to {pos}, which is not the start of a laid-out object of {} bytes", mats[*i].len)));
        }
    }
    // (e) objects created during packing must be copies of some input object (they are duplicates)
    let covered: BTreeSet<(usize, usize)> = seen.iter().map(|(pos, i)| (*pos, mats[*i].len)).collect();
    let mut created = 0;
    for (idx, pos, len) in &p.layout {
        if idx.is_none() {
            created += 1;
            if !covered.contains(&(*pos as usize, *len as usize)) {
                // not referenced by anything we walked: identify it by content
                let mut found = false;
                for i in 0..spec.nodes.len() {
                    if mats[i].len == *len as usize {
                        let mut tmp = seen.clone();
                        if walk(bytes, spec, mats, true, "hook", *pos as usize, i, &mut tmp).is_ok() {
                            found = true;
                            break;
                        }
                    }
                }
                if !found {
                    return Err(fail("hook", "unidentified-object", format!("the object created during packing at {pos} (len {len}) is not a copy of any input object")));
                }
                stats.class("hook:unreferenced_duplicate_in_output");
            }
        }
    }
    Ok(Outcome { packed: true, out_len: bytes.len(), duplicated: created > 0 })
}

fn test_graph(spec: &Spec, stats: &Stats) -> CaseResult {
    if !spec.well_formed() {
        stats.class("ignored:malformed_spec");
        return Ok(());
    }
    if spec.norm {
        stats.class_n("excluded_known", 1);
    }
    let mats = materialise(spec);
    let total = spec.total_len();
    let shared = spec.indegrees().iter().any(|d| *d > 1);
    let narrow = spec.nodes.iter().any(|n| n.links.iter().any(|l| l.w < 4));
    let needs_resolution = total > 65_535 && narrow;
    let mixed = spec.mixed_nodes(false) > 0 || (spec.public && spec.mixed_nodes(true) > 0);
    let mut any_packed = false;
    let mut outcomes = vec![];
    // development aid: C05_ROUTES=public|hook restricts the routes (never set by registered commands)
    let only_route = std::env::var("C05_ROUTES").ok();
    let (run_pub, run_hk) = (!matches!(only_route.as_deref(), Some("hook") | Some("hook-desc")), only_route.as_deref() != Some("public"));
    if spec.public && run_pub {
        let o = run_public(spec, &mats)?;
        stats.class(if o.packed { "public:packed" } else { "public:unpackable" });
        if o.packed && o.out_len > 65_535 {
            stats.class("public:packed>64K");
        }
        if o.duplicated {
            stats.class("public:needed_duplication");
        }
        any_packed |= o.packed;
        outcomes.push(("public", o));
    }
    for descending in [false, true] {
        if !spec.hook || !run_hk || (spec.hook_order != 2 && (spec.hook_order == 1) != descending) || (only_route.as_deref() == Some("hook-desc") && !descending) {
            continue;
        }
        let o = run_hook(spec, &mats, descending, stats)?;
        stats.class(if o.packed { "hook:packed" } else { "hook:unpackable" });
        if o.packed && o.out_len > 65_535 {
            stats.class("hook:packed>64K");
        }
        if o.duplicated {
            stats.class("hook:needed_duplication");
        }
        any_packed |= o.packed;
        outcomes.push((if descending { "hook(ids descending)" } else { "hook(ids ascending)" }, o));
    }
    if spec.nested32() {
        stats.class("has_nested_32bit_targets");
    }
    if outcomes.len() >= 2 && outcomes.iter().any(|o| o.1.packed != outcomes[0].1.packed) {
        stats.class("routes_disagree_on_packability(informational)");
    }
    stats.class(match spec.nodes.len() {
        0..=5 => "nodes<=5",
        6..=14 => "nodes=6..14",
        15..=60 => "nodes=15..60",
        _ => "nodes>60",
    });
    if shared {
        stats.class("has_shared_node");
    }
    if needs_resolution {
        stats.class("over64K_behind_narrow_link");
    }
    if mixed {
        stats.class("has_mixed_width_target");
    }
    if spec.nodes.iter().any(|n| n.links.iter().any(|l| l.w == 3)) {
        stats.class("has_24bit_link");
    }
    if spec.hook && spec.nodes.iter().any(|n| n.links.iter().any(|l| l.adj > 0)) {
        stats.class("has_adjustment");
    }
    if any_packed && (needs_resolution || shared) {
        stats.nontrivial(hash_json(&spec.nodes));
        if stats.want_sample() && needs_resolution && shared {
            let mut s = spec_summary(spec);
            s["outcomes"] = serde_json::json!(outcomes.iter().map(|(r, o)| format!("{r}:{}", if o.packed { format!("{} bytes", o.out_len) } else { "PackingFailed".into() })).collect::<Vec<_>>());
            stats.sample(s);
        }
    }
    Ok(())
}

// =============================================================================================
// exhaustive enumeration of small shapes

const FULL_SIZES: &[u32] = &[0, 1, 2, 10, 32_760, 32_768, 65_530, 65_536, 70_000, 140_000];

#[derive(Clone)]
struct Block {
    n: usize,
    sizes: &'static [u32],
    /// Some(widths): every node > 0 has a non-empty set of parents and ONE width for all its incoming links
    by_target: Option<&'static [u8]>,
    /// otherwise: every ordered pair (i<j) carries one of these link bundles (first = no link)
    edge_opts: &'static [&'static [u8]],
    /// also enumerate the reversed link order
    rev: bool,
}

impl Block {
    fn count(&self) -> u64 {
        let mut c = (self.sizes.len() as u64).pow(self.n as u32) * if self.rev { 2 } else { 1 };
        for j in 1..self.n {
            c *= match self.by_target {
                Some(w) => ((1u64 << j) - 1) * w.len() as u64,
                None => (self.edge_opts.len() as u64).pow(j as u32) - 1,
            };
        }
        c
    }
    fn decode(&self, mut idx: u64) -> Spec {
        let mut take = |radix: u64| {
            let d = idx % radix;
            idx /= radix;
            d
        };
        let rev = self.rev && take(2) == 1;
        let mut nodes: Vec<SNode> = (0..self.n)
            .map(|i| {
                let s = self.sizes[take(self.sizes.len() as u64) as usize];
                SNode { size: s, lead: s, stamp: i as u32, links: vec![], raw: None }
            })
            .collect();
        for j in 1..self.n {
            match self.by_target {
                Some(ws) => {
                    let parents = take((1u64 << j) - 1) + 1;
                    let w = ws[take(ws.len() as u64) as usize];
                    for i in 0..j {
                        if parents >> i & 1 == 1 {
                            nodes[i].links.push(SLink { to: j as u32, w, adj: 0 });
                        }
                    }
                }
                None => {
                    let k = self.edge_opts.len() as u64;
                    let mut d = take(k.pow(j as u32) - 1) + 1;
                    for i in 0..j {
                        for w in self.edge_opts[(d % k) as usize] {
                            nodes[i].links.push(SLink { to: j as u32, w: *w, adj: 0 });
                        }
                        d /= k;
                    }
                }
            }
        }
        if rev {
            for n in nodes.iter_mut() {
                n.links.reverse();
            }
        }
        let mut spec = Spec { nodes, public: true, hook: true, norm: false, hook_order: 2 };
        if self.by_target.is_some() && spec.mixed_nodes(true) > 0 {
            // identical nodes (e.g. two empty leaves) with different incoming widths are merged by the public route's
            // deduplication into one object with mixed incoming widths: known finding, hook route only
            spec.public = false;
            spec.norm = true;
        }
        spec
    }
}

fn decode_blocks(blocks: &[Block], mut idx: u64) -> Spec {
    for b in blocks {
        let c = b.count();
        if idx < c {
            return b.decode(idx);
        }
        idx -= c;
    }
    blocks[0].decode(0)
}

/// hand-written shapes around the known finding (the first one is the reproduction from DESIGN.md C05-F)
fn known_shapes() -> Vec<Spec> {
    let mk = |sizes: &[u32], links: &[(u32, u32, u8)]| {
        let mut nodes: Vec<SNode> = sizes.iter().enumerate().map(|(i, s)| SNode { size: *s, lead: *s, stamp: i as u32, links: vec![], raw: None }).collect();
        for (a, b, w) in links {
            nodes[*a as usize].links.push(SLink { to: *b, w: *w, adj: 0 });
        }
        Spec { nodes, public: true, hook: true, norm: false, hook_order: 2 }
    };
    vec![
        mk(&[4, 65_530, 4, 4], &[(0, 2, 4), (0, 2, 2), (0, 1, 4), (1, 3, 2), (2, 3, 2)]),
        mk(&[65_536, 0, 0], &[(0, 1, 4), (0, 1, 2), (0, 2, 2), (1, 2, 2)]),
        mk(&[4, 65_530, 4, 4], &[(0, 2, 2), (0, 1, 4), (1, 3, 2), (2, 3, 2)]),
        mk(&[4, 65_530, 4, 4], &[(0, 2, 4), (0, 1, 4), (1, 3, 2), (2, 3, 2)]),
        mk(&[4, 65_530, 4, 4], &[(0, 2, 4), (0, 2, 2), (0, 1, 4), (1, 3, 2)]),
        mk(&[4, 100, 4, 4], &[(0, 2, 4), (0, 2, 2), (0, 1, 4), (1, 3, 2), (2, 3, 2)]),
        mk(&[4, 65_530, 8, 4, 4], &[(0, 3, 2), (0, 1, 4), (0, 2, 2), (1, 4, 2), (3, 4, 2), (2, 3, 4)]),
    ]
}

/// three-node graphs whose critical 24-bit offset is 2^24 - 1 + delta (delta in -2..=2)
fn boundary24_shape(idx: u64) -> Spec {
    let delta = (idx % 5) as i64 - 2;
    let shape = idx / 5;
    let node = |i: u32, size: u32, links: Vec<(u32, u8)>| SNode { size, lead: size, stamp: i, links: links.into_iter().map(|(to, w)| SLink { to, w, adj: 0 }).collect(), raw: None };
    let limit = (1i64 << 24) - 1 + delta;
    let nodes = match shape {
        // root -> A (24), root -> B (24): B's offset behind A is the limit
        0 => vec![node(0, 0, vec![(1, 3), (2, 3)]), node(1, (limit - 6) as u32, vec![]), node(2, 10, vec![])],
        // the same with B behind a 16-bit link (B has to be moved in front of A)
        1 => vec![node(0, 0, vec![(1, 3), (2, 2)]), node(1, (limit - 5) as u32, vec![]), node(2, 10, vec![])],
        // root -> A (24) -> C (24) and root -> C (24): C can only follow A
        _ => vec![node(0, 0, vec![(1, 3), (2, 3)]), node(1, (limit - 6 - 3) as u32, vec![(2, 3)]), node(2, 10, vec![])],
    };
    Spec { nodes, public: true, hook: true, norm: false, hook_order: 2 }
}

// =============================================================================================
// random DAG families

#[derive(Clone, Debug)]
struct RawLink {
    parent: u32,
    lw: u8,
    adj: u16,
}
#[derive(Clone, Debug)]
struct RawNode {
    size: u32,
    lead: u16,
    /// width used for all incoming links when widths are a function of the target
    tw: u8,
    parents: Vec<RawLink>,
    rev: bool,
    /// 0 = own content; otherwise try to become an identical-content twin of an earlier node
    twin: u16,
}

fn width_strategy() -> BoxedStrategy<u8> {
    prop_oneof![6 => Just(2u8), 1 => Just(3u8), 2 => Just(4u8)].boxed()
}
fn adj_strategy() -> BoxedStrategy<u16> {
    prop_oneof![5 => Just(0u16), 2 => any::<u16>(), 1 => Just(u16::MAX)].boxed()
}
fn twin_strategy() -> BoxedStrategy<u16> {
    prop_oneof![6 => Just(0u16), 1 => 1u16..=u16::MAX].boxed()
}
fn sizes_mixed() -> BoxedStrategy<u32> {
    prop_oneof![
        4 => 4u32..40,
        2 => Just(0u32),
        1 => 1u32..4,
        2 => 100u32..3000,
        2 => prop_oneof![Just(32_760u32), Just(32_768), Just(20_000), Just(40_000)],
        1 => prop_oneof![Just(65_530u32), Just(65_536), Just(70_000)],
        1 => prop_oneof![Just(140_000u32), 60_000u32..66_000],
    ]
    .boxed()
}
fn sizes_mostly_small() -> BoxedStrategy<u32> {
    prop_oneof![
        40 => 4u32..40,
        8 => Just(0u32),
        8 => 1u32..4,
        30 => 100u32..3000,
        6 => 3000u32..12_000,
        2 => prop_oneof![Just(32_760u32), Just(32_768), Just(20_000), Just(40_000)],
        1 => prop_oneof![Just(65_530u32), Just(65_536), Just(70_000)],
    ]
    .boxed()
}

/// node j picks 1..=3 parents among the `window` nodes before it
fn raw_node(sizes: BoxedStrategy<u32>) -> impl Strategy<Value = (u32, u16, u8, Vec<(u16, u8, u16)>, bool, u16)> {
    (
        sizes,
        prop_oneof![2 => Just(u16::MAX), 1 => Just(0u16), 1 => any::<u16>()],
        width_strategy(),
        prop_oneof![
            6 => proptest::collection::vec((any::<u16>(), width_strategy(), adj_strategy()), 1..=1),
            3 => proptest::collection::vec((any::<u16>(), width_strategy(), adj_strategy()), 2..=2),
            1 => proptest::collection::vec((any::<u16>(), width_strategy(), adj_strategy()), 3..=4),
        ],
        proptest::bool::weighted(0.2),
        twin_strategy(),
    )
}

fn fam_random(nodes: std::ops::RangeInclusive<usize>, sizes: BoxedStrategy<u32>) -> BoxedStrategy<Vec<RawNode>> {
    (nodes, prop_oneof![3 => Just(0usize), 1 => Just(2usize), 1 => Just(8usize)])
        .prop_flat_map(move |(n, window)| (proptest::collection::vec(raw_node(sizes.clone()), n), Just(window)))
        .prop_map(|(raw, window)| {
            raw.into_iter()
                .enumerate()
                .map(|(j, (size, lead, tw, ps, rev, twin))| {
                    let parents = if j == 0 {
                        vec![]
                    } else {
                        ps.into_iter()
                            .map(|(p, lw, adj)| {
                                let span = if window == 0 { j } else { window.min(j) };
                                let back = ((p as usize * span) >> 16) + 1; // 1..=span
                                RawLink { parent: (j - back) as u32, lw, adj }
                            })
                            .collect()
                    };
                    RawNode { size, lead, tw, parents, rev, twin }
                })
                .collect()
        })
        .boxed()
}

/// root --32/24--> k sub-roots, each with its own 16-bit children (and grand-children) plus leaves shared between
/// sub-roots, children and (sometimes) the root: forces space assignment, isolation and duplication
fn fam_spaces() -> BoxedStrategy<Vec<RawNode>> {
    let child = (500u32..30_000, 0usize..3, 4u32..3000);
    let sub = (4u32..2000, prop_oneof![8 => Just(4u8), 1 => Just(3u8), 1 => Just(2u8)], proptest::collection::vec(child, 1..6));
    let shared = (prop_oneof![3 => 4u32..200, 2 => 200u32..20_000], proptest::collection::vec(any::<u16>(), 1..5), proptest::bool::weighted(0.3));
    (4u32..200, proptest::collection::vec(sub, 2..9), proptest::collection::vec(shared, 0..5), any::<u16>())
        .prop_map(|(root_size, subs, shared, lead)| {
            let node = |size: u32, tw: u8, parents: Vec<u32>| RawNode {
                size,
                lead,
                tw,
                parents: parents.into_iter().map(|p| RawLink { parent: p, lw: tw, adj: 0 }).collect(),
                rev: false,
                twin: 0,
            };
            let mut nodes = vec![node(root_size, 2, vec![])];
            let mut inner: Vec<u32> = vec![]; // nodes that may reference shared leaves
            for (size, w, children) in subs {
                let s = nodes.len() as u32;
                nodes.push(node(size, w, vec![0]));
                inner.push(s);
                for (csize, grand, gsize) in children {
                    let c = nodes.len() as u32;
                    nodes.push(node(csize, 2, vec![s]));
                    inner.push(c);
                    for g in 0..grand {
                        nodes.push(node(gsize + g as u32, 2, vec![c]));
                    }
                }
            }
            for (size, users, from_root) in shared {
                let mut ps: Vec<u32> = users.iter().map(|u| inner[(*u as usize * inner.len()) >> 16]).collect();
                if from_root {
                    ps.push(0);
                }
                ps.sort();
                ps.dedup();
                nodes.push(node(size, 2, ps));
            }
            nodes
        })
        .boxed()
}

/// root with k 16-bit leaf children whose last (in link order) offset is 65535 + delta
fn fam_boundary() -> BoxedStrategy<Vec<RawNode>> {
    (0u32..40, proptest::collection::vec(1u32..1000, 1..5), -3i32..=3, 0u32..5000, proptest::bool::weighted(0.3))
        .prop_map(|(root_payload, fracs, delta, last, extra_level)| {
            let k = fracs.len() as u32 + 1;
            let root_len = root_payload + 2 * k;
            let target = (65_535i32 + delta) as u32 - root_len; // sum of the sizes before the last child
            let total: u32 = fracs.iter().sum();
            let mut sizes: Vec<u32> = fracs.iter().map(|f| (target as u64 * *f as u64 / total as u64) as u32).collect();
            let assigned: u32 = sizes.iter().sum();
            sizes[0] += target - assigned;
            sizes.push(last);
            let leaf = |size: u32, parent: u32| RawNode { size, lead: u16::MAX, tw: 2, parents: vec![RawLink { parent, lw: 2, adj: 0 }], rev: false, twin: 0 };
            let mut nodes = vec![RawNode { size: root_payload, lead: u16::MAX, tw: 2, parents: vec![], rev: false, twin: 0 }];
            for s in sizes {
                nodes.push(leaf(s, 0));
            }
            if extra_level {
                // the last child gets a small child of its own
                let p = nodes.len() as u32 - 1;
                nodes[p as usize].size = nodes[p as usize].size.saturating_sub(2);
                nodes.push(leaf(6, p));
            }
            nodes
        })
        .boxed()
}

const PUBLIC_BYTE_BUDGET: u64 = 6 << 20;
const PUBLIC_WRITE_BUDGET: u64 = 30_000;

#[derive(Clone, Copy, PartialEq, Debug)]
enum Mode {
    /// widths are a function of the target object and no 32-bit target lies below another one (both known findings excluded)
    Clean,
    /// widths are a function of the target object; nested 32-bit targets allowed (second known finding tolerated)
    Nested,
    /// per-link widths, anything goes (both known findings tolerated)
    Mixed,
}

/// raw family output -> spec
fn finish(raw: Vec<RawNode>, mode: Mode) -> Spec {
    let n = raw.len();
    let mut nodes: Vec<SNode> = raw
        .iter()
        .enumerate()
        .map(|(i, r)| SNode { size: r.size, lead: ((r.lead as u64 * (r.size as u64 + 1)) >> 16) as u32, stamp: i as u32, links: vec![], raw: None })
        .collect();
    let mut raw_adj: Vec<Vec<u16>> = vec![vec![]; n];
    let mut would_mix = false;
    for (j, r) in raw.iter().enumerate() {
        let (mut narrow, mut wide) = (false, false);
        for p in &r.parents {
            if p.lw == 2 {
                narrow = true;
            } else {
                wide = true;
            }
            nodes[p.parent as usize].links.push(SLink { to: j as u32, w: p.lw, adj: 0 });
            raw_adj[p.parent as usize].push(p.adj);
        }
        would_mix |= narrow && wide;
    }
    for (i, r) in raw.iter().enumerate() {
        if r.rev {
            nodes[i].links.reverse();
            raw_adj[i].reverse();
        }
    }
    // identical-content twins: a leaf copies the shape of an earlier node all of whose children come after the leaf
    for j in 1..n {
        if raw[j].twin != 0 && nodes[j].links.is_empty() {
            let q = (raw[j].twin as usize * j) >> 16;
            if q > 0 && q < j && nodes[q].links.iter().all(|l| l.to as usize > j) {
                let (size, lead, stamp, links) = (nodes[q].size, nodes[q].lead, nodes[q].stamp, nodes[q].links.clone());
                raw_adj[j] = raw_adj[q].clone();
                nodes[j] = SNode { size, lead, stamp, links, raw: None };
            }
        }
    }
    let mut demoted = false;
    if mode != Mode::Mixed {
        // link widths become a function of the target's structural class: nodes with equal payload and (recursively) equal
        // children; with widths a function of the class these are exactly the nodes the public route merges into one object
        let mut class = vec![0usize; n];
        let mut ctw: Vec<u8> = vec![];
        let mut keys: BTreeMap<(u32, (u64, Vec<u8>), u32, Vec<usize>), usize> = BTreeMap::new();
        for i in (0..n).rev() {
            let nd = &nodes[i];
            let id = nd.content_id();
            let links: Vec<usize> = nd.links.iter().map(|l| class[l.to as usize]).collect();
            let key = (nd.size, id, if links.is_empty() { 0 } else { nd.lead }, links);
            let next = keys.len();
            class[i] = *keys.entry(key).or_insert(next);
            if class[i] == next {
                ctw.push(raw[i].tw);
            }
        }
        if mode == Mode::Clean {
            // no 32-bit target below another 32-bit target: demote offenders until none is left
            loop {
                let mut below = vec![false; n];
                let mut offender = None;
                for i in 0..n {
                    let t32 = i > 0 && ctw[class[i]] == 4;
                    if t32 && below[i] {
                        offender = Some(i);
                        break;
                    }
                    if t32 || below[i] {
                        for l in &nodes[i].links {
                            below[l.to as usize] = true;
                        }
                    }
                }
                match offender {
                    Some(i) => {
                        ctw[class[i]] = if raw[i].size % 4 == 3 { 3 } else { 2 };
                        demoted = true;
                    }
                    None => break,
                }
            }
        }
        for i in 0..n {
            for l in nodes[i].links.iter_mut() {
                l.w = ctw[class[l.to as usize]];
            }
        }
    }
    // adjustments: 0..=length of the parent object
    for i in 0..n {
        let len = nodes[i].size as u64 + nodes[i].links.iter().map(|l| l.w as u64).sum::<u64>();
        for (l, a) in nodes[i].links.iter_mut().zip(&raw_adj[i]) {
            l.adj = ((*a as u64 * (len + 1)) >> 16).min(len) as u32;
            if *a == u16::MAX {
                l.adj = len as u32;
            }
        }
    }
    let hook_order = if raw[0].tw == 2 { 1 } else { 0 };
    let mut spec = Spec { nodes, public: true, hook: true, norm: (mode != Mode::Mixed && would_mix) || demoted, hook_order };
    let (bytes, writes) = spec.public_write_cost();
    if bytes > PUBLIC_BYTE_BUDGET || writes > PUBLIC_WRITE_BUDGET {
        spec.public = false;
    }
    spec
}

fn dag_strategy(mode: Mode) -> impl Strategy<Value = Spec> {
    prop_oneof![
        8 => fam_random(2..=13, sizes_mixed()),
        3 => fam_random(14..=60, sizes_mostly_small()),
        1 => fam_random(61..=400, sizes_mostly_small()),
        4 => fam_spaces(),
        1 => fam_boundary(),
    ]
    .prop_map(move |raw| finish(raw, mode))
}

/// Dedup-adversarial graphs (public route's object store): groups of nodes whose bytes BEFORE offset resolution are
/// identical (the writer's placeholder for an offset field is 0xFF bytes) and whose links have the same targets, but
/// whose link fields sit at different positions or have different widths; plain twins; short payloads over a tiny
/// alphabet. Every such node is a distinct object, and each link to it has to land on a copy of exactly that node.
fn adversarial_strategy() -> impl Strategy<Value = Spec> {
    let byte = prop_oneof![5 => Just(0xFFu8), 2 => Just(0u8), 1 => Just(1u8), 1 => Just(0x80u8)];
    // (bytes before the 0xFF window, bytes after it, chosen placements, target selector, second link?)
    let group = (
        proptest::collection::vec(byte.clone(), 0..4),
        proptest::collection::vec(byte.clone(), 0..4),
        proptest::collection::vec(0usize..9, 2..6),
        any::<u16>(),
        proptest::bool::weighted(0.25),
    );
    let leaf = prop_oneof![2 => proptest::collection::vec(byte.clone(), 0..5).prop_map(Some), 1 => Just(None)];
    (proptest::collection::vec(byte, 0..5), proptest::collection::vec(group, 1..4), proptest::collection::vec(leaf, 1..4), any::<bool>(), 0u8..3)
        .prop_map(|(root_payload, groups, leaves, second_layer, hook_order)| {
            // placements of a link field inside a window of four 0xFF bytes: (offset in window, width)
            const PLACE: [(usize, u8); 9] = [(0, 2), (1, 2), (2, 2), (0, 3), (1, 3), (0, 4), (0, 2), (2, 2), (1, 3)];
            // node order: root, [second layer], variants, leaves
            let nvariants: usize = groups.iter().map(|g| g.2.len()).sum();
            let nsecond = if second_layer { nvariants } else { 0 };
            let first_variant = 1 + nsecond;
            let first_leaf = first_variant + nvariants;
            let mut nodes: Vec<SNode> = vec![];
            let raw_node = |stamp: usize, bytes: Vec<u8>, lead: usize, links: Vec<SLink>| SNode { size: bytes.len() as u32, lead: lead as u32, stamp: stamp as u32, links, raw: Some(bytes) };
            // root: 16-bit links to every node of the next layer
            let next: Vec<u32> = (1..=nvariants as u32).collect();
            let root_lead = root_payload.len() / 2;
            nodes.push(raw_node(0, root_payload, root_lead, next.iter().map(|t| SLink { to: *t, w: 2, adj: 0 }).collect()));
            // second layer: identical two-byte nodes [off16 -> variant k]: distinct only through their targets
            for k in 0..nsecond {
                nodes.push(raw_node(1 + k, vec![0xFF, 0xFF], 2 * (k % 2), vec![SLink { to: (first_variant + k) as u32, w: 2, adj: 0 }]));
            }
            for (pre, post, places, target, second) in &groups {
                let leaf = first_leaf + ((*target as usize * leaves.len()) >> 16);
                let other = first_leaf + (((*target as usize ^ 0x5555) * leaves.len()) >> 16);
                for pl in places {
                    let (off, w) = PLACE[*pl];
                    // pre-resolution bytes: pre ++ FF FF FF FF ++ post; the field takes w of the four FF bytes
                    let mut payload = pre.clone();
                    payload.extend(std::iter::repeat(0xFF).take(off));
                    let lead = payload.len();
                    payload.extend(std::iter::repeat(0xFF).take(4 - off - w as usize));
                    payload.extend_from_slice(post);
                    let mut links = vec![SLink { to: leaf as u32, w, adj: 0 }];
                    if *second && 4 - off - w as usize >= 2 {
                        // the bytes right behind the first field become a second 16-bit field
                        payload.drain(lead..lead + 2);
                        links.push(SLink { to: other as u32, w: 2, adj: 0 });
                    }
                    let stamp = nodes.len();
                    nodes.push(raw_node(stamp, payload, lead, links));
                }
            }
            for (k, l) in leaves.iter().enumerate() {
                let stamp = first_leaf + k;
                nodes.push(match l {
                    Some(bytes) => raw_node(stamp, bytes.clone(), 0, vec![]),
                    None => SNode { size: 6, lead: 6, stamp: stamp as u32, links: vec![], raw: None },
                });
            }
            // leaves nobody picked still need a parent
            let mut spec = Spec { nodes, public: true, hook: true, norm: false, hook_order };
            let indeg = spec.indegrees();
            for i in first_leaf..spec.nodes.len() {
                if indeg[i] == 0 {
                    spec.nodes[0].links.push(SLink { to: i as u32, w: 2, adj: 0 });
                }
            }
            spec
        })
}

// =============================================================================================
// real tables: big Gpos (PairPos format 1, MarkBasePos) that needs splitting and extension promotion

mod gp {
    pub use read_fonts::tables::gpos as rg;
    pub use read_fonts::tables::layout::DeviceOrVariationIndex as RDev;
    pub use read_fonts::{FontData, FontRead};
    pub use write_fonts::tables::gpos::{Class1Record, Class2Record};
    pub use write_fonts::tables::layout::ClassDef;
    pub use write_fonts::tables::gpos::{AnchorTable, BaseArray, BaseRecord, Gpos, MarkArray, MarkBasePosFormat1, MarkRecord, PairPos, PairSet, PairValueRecord, PositionLookup, SinglePos, ValueRecord};
    pub use write_fonts::tables::layout::{CoverageTable, Feature, FeatureList, FeatureRecord, LangSys, Lookup, LookupFlag, LookupList, Script, ScriptList, ScriptRecord, VariationIndex};
    pub use write_fonts::types::{GlyphId16, Tag};
}

#[derive(Clone, Debug, Serialize, Deserialize)]
enum LookupSpec {
    /// `subtables` PairPosFormat1 subtables over disjoint first-glyph ranges, `first` pair sets of about `second` records each
    Pair { first: u16, second: u16, fmt: u8, subtables: u8, seed: u16 },
    MarkBase { classes: u16, marks_per_class: u16, bases: u16, var: bool, seed: u16 },
    Single { glyphs: u16, seed: u16 },
    /// one PairPosFormat2 subtable: c1 x c2 classes (per1 / per2 glyphs each), both value records x_advance + x_advance device;
    /// record i carries VariationIndex devices according to bits of a hash (bit 0: record 1, bit 1: record 2), always different ones
    PairClass { c1: u16, c2: u16, per1: u8, per2: u8, dense: bool, seed: u16 },
}

#[derive(Clone, Debug, Serialize, Deserialize)]
struct GposCase {
    lookups: Vec<LookupSpec>,
    /// number of features sharing the lookups
    features: u8,
}

fn h16(seed: u16, a: u32, b: u32) -> i16 {
    (mix(seed as u64 ^ 0xC05, (a as u64) << 32 | b as u64) >> 24) as i16
}

/// what a pair positions to: x_advance1, x_placement1, x_advance2, variation index (outer << 16 | inner)
type PairVal = (Option<i16>, Option<i16>, Option<i16>, Option<u32>);
/// anchor: x, y, variation index of x
type Anchor = (i16, i16, Option<u32>);

fn pair_value(fmt: u8, seed: u16, g1: u32, g2: u32) -> PairVal {
    let v = h16(seed, g1, g2);
    match fmt % 4 {
        0 => (Some(v), None, None, None),
        1 => (Some(v), Some(v.wrapping_mul(3)), None, None),
        2 => (Some(v), None, Some(v.wrapping_add(7)), None),
        _ => (Some(v), None, None, Some(((v as u32 & 3) << 16) | (v as u32 >> 4 & 15))),
    }
}
/// class pair i: (x_advance1, device1, x_advance2, device2); devices as outer << 16 | inner
type ClassVal = (i16, Option<u32>, i16, Option<u32>);
fn class_value(seed: u16, dense: bool, i: u32) -> ClassVal {
    let h = h16(seed, 77, i);
    let bits = if dense { 1 + (h as u32 >> 3) % 3 } else if (h as u32 >> 3) % 5 == 0 { 1 + (h as u32 >> 7) % 3 } else { 0 };
    let dev = |which: u32| Some((which + 2 * (i >> 16)) << 16 | (i & 0xFFFF));
    (h, if bits & 1 != 0 { dev(1) } else { None }, h.wrapping_add(11), if bits & 2 != 0 { dev(2) } else { None })
}
fn pair_first_glyph(sub: u32, k: u32) -> u32 {
    1 + sub * 3000 + k * 2
}
fn pair_second_count(second: u16, k: u32) -> u32 {
    (second as u32).saturating_sub(k % 3).max(1)
}
fn mark_anchor(seed: u16, var: bool, m: u32) -> Anchor {
    let v = h16(seed, 7, m);
    (v, v.wrapping_add(1), var.then_some(((m & 1) << 16) | (m & 7)))
}
fn base_anchor(seed: u16, var: bool, b: u32, c: u32) -> Option<Anchor> {
    let v = h16(seed, 1000 + b, c);
    ((b + c) % 3 != 0).then_some((v, v.wrapping_sub(1), var.then_some(c & 3)))
}

fn w_anchor(a: Anchor) -> gp::AnchorTable {
    match a.2 {
        Some(v) => gp::AnchorTable::format_3(a.0, a.1, Some(gp::VariationIndex::new((v >> 16) as u16, v as u16).into()), None),
        None => gp::AnchorTable::format_1(a.0, a.1),
    }
}

fn build_gpos(c: &GposCase) -> gp::Gpos {
    let gid = |g: u32| gp::GlyphId16::new(g as u16);
    let mut lookups: Vec<gp::PositionLookup> = vec![];
    for l in &c.lookups {
        match *l {
            LookupSpec::Pair { first, second, fmt, subtables, seed } => {
                let mut subs = vec![];
                for sub in 0..subtables as u32 {
                    let cov: gp::CoverageTable = (0..first as u32).map(|k| gid(pair_first_glyph(sub, k))).collect();
                    let sets = (0..first as u32)
                        .map(|k| {
                            let g1 = pair_first_glyph(sub, k);
                            gp::PairSet::new(
                                (0..pair_second_count(second, k))
                                    .map(|j| {
                                        let g2 = 2 + j * 3;
                                        let (xa, xp, xa2, var) = pair_value(fmt, seed, g1, g2);
                                        let mut r1 = gp::ValueRecord::new();
                                        if let Some(v) = xa {
                                            r1 = r1.with_x_advance(v);
                                        }
                                        if let Some(v) = xp {
                                            r1 = r1.with_x_placement(v);
                                        }
                                        if let Some(v) = var {
                                            r1 = r1.with_x_advance_device(gp::VariationIndex::new((v >> 16) as u16, v as u16));
                                        }
                                        let mut r2 = gp::ValueRecord::new();
                                        if let Some(v) = xa2 {
                                            r2 = r2.with_x_advance(v);
                                        }
                                        gp::PairValueRecord::new(gid(g2), r1, r2)
                                    })
                                    .collect(),
                            )
                        })
                        .collect();
                    subs.push(gp::PairPos::format_1(cov, sets));
                }
                lookups.push(gp::PositionLookup::Pair(gp::Lookup::new(gp::LookupFlag::empty(), subs)));
            }
            LookupSpec::MarkBase { classes, marks_per_class, bases, var, seed } => {
                let nmarks = classes as u32 * marks_per_class as u32;
                let mark_cov: gp::CoverageTable = (0..nmarks).map(|m| gid(20_000 + m)).collect();
                let base_cov: gp::CoverageTable = (0..bases as u32).map(|b| gid(10 + b)).collect();
                let marks = gp::MarkArray::new((0..nmarks).map(|m| gp::MarkRecord::new((m % classes as u32) as u16, w_anchor(mark_anchor(seed, var, m)))).collect());
                let base_array = gp::BaseArray::new(
                    (0..bases as u32).map(|b| gp::BaseRecord::new((0..classes as u32).map(|cl| base_anchor(seed, var, b, cl).map(w_anchor)).collect())).collect(),
                );
                let sub = gp::MarkBasePosFormat1::new(mark_cov, base_cov, marks, base_array);
                lookups.push(gp::PositionLookup::MarkToBase(gp::Lookup::new(gp::LookupFlag::empty(), vec![sub])));
            }
            LookupSpec::PairClass { c1, c2, per1, per2, dense, seed } => {
                let fmt = gp::rg::ValueFormat::X_ADVANCE | gp::rg::ValueFormat::X_ADVANCE_DEVICE;
                let cd1: gp::ClassDef = (0..c1 as u32 * per1 as u32).map(|k| (gid(1 + k), (k / per1 as u32) as u16)).collect();
                let cd2: gp::ClassDef = (0..c2 as u32 * per2 as u32).map(|k| (gid(1 + k), (k / per2 as u32) as u16)).collect();
                let cov: gp::CoverageTable = (0..c1 as u32 * per1 as u32).map(|k| gid(1 + k)).collect();
                let vr = |xa: i16, dev: Option<u32>| {
                    let r = gp::ValueRecord::new().with_explicit_value_format(fmt).with_x_advance(xa);
                    match dev {
                        Some(v) => r.with_x_advance_device(gp::VariationIndex::new((v >> 16) as u16, v as u16)),
                        None => r,
                    }
                };
                let recs = (0..c1 as u32)
                    .map(|a| {
                        gp::Class1Record::new(
                            (0..c2 as u32)
                                .map(|b| {
                                    let (x1, d1, x2, d2) = class_value(seed, dense, a * c2 as u32 + b);
                                    gp::Class2Record::new(vr(x1, d1), vr(x2, d2))
                                })
                                .collect(),
                        )
                    })
                    .collect();
                lookups.push(gp::PositionLookup::Pair(gp::Lookup::new(gp::LookupFlag::empty(), vec![gp::PairPos::format_2(cov, cd1, cd2, recs)])));
            }
            LookupSpec::Single { glyphs, seed } => {
                let cov: gp::CoverageTable = (0..glyphs as u32).map(|g| gid(5 + g)).collect();
                let recs = (0..glyphs as u32).map(|g| gp::ValueRecord::new().with_x_advance(h16(seed, 3, g))).collect();
                lookups.push(gp::PositionLookup::Single(gp::Lookup::new(gp::LookupFlag::empty(), vec![gp::SinglePos::format_2(cov, recs)])));
            }
        }
    }
    let n = lookups.len() as u16;
    let features = (0..c.features.max(1))
        .map(|f| gp::FeatureRecord::new(gp::Tag::new(&[b'f', b'0' + f / 10, b'0' + f % 10, b' ']), gp::Feature::new(None, (0..n).filter(|i| (i + f as u16) % 2 == 0 || f == 0).collect())))
        .collect::<Vec<_>>();
    let script = gp::Script::new(Some(gp::LangSys::new((0..features.len() as u16).collect())), vec![]);
    gp::Gpos::new(gp::ScriptList::new(vec![gp::ScriptRecord::new(gp::Tag::new(b"DFLT"), script)]), gp::FeatureList::new(features), gp::LookupList::new(lookups))
}

fn gfail(what: &str, msg: String) -> Fail {
    Fail::new(format!("c05|gpos|{what}"), msg)
}

fn r_var(d: Option<Result<gp::RDev<'_>, read_fonts::ReadError>>, ctx: &str) -> Result<Option<u32>, Fail> {
    match d {
        None => Ok(None),
        Some(Err(e)) => Err(gfail("offset-unresolved", format!("{ctx}: device offset does not resolve: {e}"))),
        Some(Ok(gp::RDev::VariationIndex(v))) => Ok(Some((v.delta_set_outer_index() as u32) << 16 | v.delta_set_inner_index() as u32)),
        Some(Ok(gp::RDev::Device(_))) => Err(gfail("wrong-target", format!("{ctx}: offset to a VariationIndex resolves to a Device table"))),
    }
}
fn r_anchor(a: gp::rg::AnchorTable<'_>, ctx: &str) -> Result<Anchor, Fail> {
    Ok(match a {
        gp::rg::AnchorTable::Format1(t) => (t.x_coordinate(), t.y_coordinate(), None),
        gp::rg::AnchorTable::Format2(t) => (t.x_coordinate(), t.y_coordinate(), None),
        gp::rg::AnchorTable::Format3(t) => (t.x_coordinate(), t.y_coordinate(), r_var(t.x_device(), ctx)?),
    })
}

fn test_gpos(c: &GposCase, stats: &Stats) -> CaseResult {
    use gp::FontRead;
    let table = build_gpos(c);
    let res = guarded(|| dump_table(&table)).map_err(|f| Fail::new(format!("c05|gpos-panic|{}", f.sig), format!("dump_table(Gpos): {} for {:?}", f.msg, c)))?;
    let bytes = match res {
        Ok(b) => b,
        Err(write_fonts::error::Error::PackingFailed(_)) => {
            stats.class("gpos:unpackable");
            return Ok(());
        }
        Err(e) => return Err(gfail("unexpected-error", format!("dump_table(Gpos) returned {e} for a valid table"))),
    };
    stats.class("gpos:packed");
    let rd = |e: read_fonts::ReadError, what: &str| gfail("offset-unresolved", format!("{what}: {e}"));
    let gpos = gp::rg::Gpos::read(gp::FontData::new(&bytes)).map_err(|e| rd(e, "Gpos header"))?;
    // script / feature lists
    let sl = gpos.script_list().map_err(|e| rd(e, "script list"))?;
    let fl = gpos.feature_list().map_err(|e| rd(e, "feature list"))?;
    let nfeat = c.features.max(1) as usize;
    let nlook = c.lookups.len() as u16;
    if sl.script_records().len() != 1 || fl.feature_records().len() != nfeat {
        return Err(gfail("lists", format!("{} scripts / {} features, expected 1 / {nfeat}", sl.script_records().len(), fl.feature_records().len())));
    }
    let script = sl.script_records()[0].script(sl.offset_data()).map_err(|e| rd(e, "script"))?;
    let ls = script.default_lang_sys().ok_or_else(|| gfail("lists", "default LangSys missing".into()))?.map_err(|e| rd(e, "default LangSys"))?;
    let fi: Vec<u16> = ls.feature_indices().iter().map(|x| x.get()).collect();
    if fi != (0..nfeat as u16).collect::<Vec<_>>() {
        return Err(gfail("lists", format!("LangSys feature indices {fi:?}")));
    }
    for (f, rec) in fl.feature_records().iter().enumerate() {
        let feat = rec.feature(fl.offset_data()).map_err(|e| rd(e, "feature"))?;
        let got: Vec<u16> = feat.lookup_list_indices().iter().map(|x| x.get()).collect();
        let want: Vec<u16> = (0..nlook).filter(|i| (i + f as u16) % 2 == 0 || f == 0).collect();
        if got != want {
            return Err(gfail("lists", format!("feature {f} lists lookups {got:?}, expected {want:?}")));
        }
    }
    // lookups
    let ll = gpos.lookup_list().map_err(|e| rd(e, "lookup list"))?;
    if ll.lookup_count() != nlook {
        return Err(gfail("lookup-count", format!("{} lookups, expected {nlook}", ll.lookup_count())));
    }
    let (mut split, mut promoted) = (false, false);
    for (li, spec) in c.lookups.iter().enumerate() {
        let lookup = ll.lookups().get(li).map_err(|e| rd(e, &format!("lookup {li}")))?;
        if lookup.lookup_type() == 9 {
            promoted = true;
        }
        let subs = lookup.subtables().map_err(|e| rd(e, &format!("lookup {li} subtables")))?;
        match (spec, subs) {
            (LookupSpec::Pair { first, second, fmt, subtables, seed }, gp::rg::PositionSubtables::Pair(subs)) => {
                if subs.len() > *subtables as usize {
                    split = true;
                }
                let mut got: BTreeMap<(u32, u32), PairVal> = BTreeMap::new();
                for (si, sub) in subs.iter().enumerate() {
                    let ctx = format!("lookup {li} subtable {si}");
                    let gp::rg::PairPos::Format1(t) = sub.map_err(|e| rd(e, &ctx))? else {
                        return Err(gfail("wrong-target", format!("{ctx}: not a PairPosFormat1")));
                    };
                    let cov: Vec<u32> = t.coverage().map_err(|e| rd(e, &format!("{ctx} coverage")))?.iter().map(|g| g.to_u16() as u32).collect();
                    if cov.len() != t.pair_set_count() as usize {
                        return Err(gfail("coverage-count", format!("{ctx}: coverage has {} glyphs for {} pair sets", cov.len(), t.pair_set_count())));
                    }
                    for (k, g1) in cov.iter().enumerate() {
                        let set = t.pair_sets().get(k).map_err(|e| rd(e, &format!("{ctx} pair set {k}")))?;
                        for rec in set.pair_value_records().iter() {
                            let rec = rec.map_err(|e| rd(e, &format!("{ctx} pair set {k} record")))?;
                            let (r1, r2) = (rec.value_record1(), rec.value_record2());
                            let var = r_var(r1.x_advance_device(set.offset_data()), &format!("{ctx} pair set {k}"))?;
                            let val = (r1.x_advance(), r1.x_placement(), r2.x_advance(), var);
                            if got.insert((*g1, rec.second_glyph().to_u16() as u32), val).is_some() {
                                return Err(gfail("pair-duplicated", format!("{ctx}: pair ({g1},{}) is reachable twice", rec.second_glyph().to_u16())));
                            }
                        }
                    }
                }
                let mut want: BTreeMap<(u32, u32), PairVal> = BTreeMap::new();
                for sub in 0..*subtables as u32 {
                    for k in 0..*first as u32 {
                        let g1 = pair_first_glyph(sub, k);
                        for j in 0..pair_second_count(*second, k) {
                            want.insert((g1, 2 + j * 3), pair_value(*fmt, *seed, g1, 2 + j * 3));
                        }
                    }
                }
                stats.class_n("gpos:pairs_compared", want.len() as u64);
                if got != want {
                    let diff = want.iter().find(|(k, v)| got.get(*k) != Some(*v)).map(|(k, v)| format!("pair {k:?}: expected {v:?}, got {:?}", got.get(k)));
                    return Err(gfail("pairs-differ", format!("lookup {li}: {} pairs reachable, {} in the input; {}", got.len(), want.len(), diff.unwrap_or_else(|| "extra pairs in the output".into()))));
                }
            }
            (LookupSpec::MarkBase { classes, marks_per_class, bases, var, seed }, gp::rg::PositionSubtables::MarkToBase(subs)) => {
                if subs.len() > 1 {
                    split = true;
                }
                let nmarks = *classes as u32 * *marks_per_class as u32;
                // (mark glyph) -> (sub-table, new class, mark anchor); per sub-table: base glyph -> anchors per new class
                let mut mark_seen: BTreeMap<u32, (usize, u16, Anchor)> = BTreeMap::new();
                let mut base_tabs: Vec<BTreeMap<u32, Vec<Option<Anchor>>>> = vec![];
                for (si, sub) in subs.iter().enumerate() {
                    let ctx = format!("lookup {li} subtable {si}");
                    let t = sub.map_err(|e| rd(e, &ctx))?;
                    let mcov: Vec<u32> = t.mark_coverage().map_err(|e| rd(e, &format!("{ctx} mark coverage")))?.iter().map(|g| g.to_u16() as u32).collect();
                    let bcov: Vec<u32> = t.base_coverage().map_err(|e| rd(e, &format!("{ctx} base coverage")))?.iter().map(|g| g.to_u16() as u32).collect();
                    let ma = t.mark_array().map_err(|e| rd(e, &format!("{ctx} mark array")))?;
                    let ba = t.base_array().map_err(|e| rd(e, &format!("{ctx} base array")))?;
                    if ma.mark_records().len() != mcov.len() || ba.base_records().len() != bcov.len() {
                        return Err(gfail("coverage-count", format!("{ctx}: {} marks for {} covered, {} bases for {} covered", ma.mark_records().len(), mcov.len(), ba.base_records().len(), bcov.len())));
                    }
                    for (g, rec) in mcov.iter().zip(ma.mark_records()) {
                        let a = r_anchor(rec.mark_anchor(ma.offset_data()).map_err(|e| rd(e, &format!("{ctx} mark anchor")))?, &ctx)?;
                        if rec.mark_class() >= t.mark_class_count() {
                            return Err(gfail("mark-class", format!("{ctx}: mark {g} has class {} of {}", rec.mark_class(), t.mark_class_count())));
                        }
                        if mark_seen.insert(*g, (si, rec.mark_class(), a)).is_some() {
                            return Err(gfail("mark-duplicated", format!("{ctx}: mark glyph {g} is covered by two subtables")));
                        }
                    }
                    let mut tab = BTreeMap::new();
                    for (g, rec) in bcov.iter().zip(ba.base_records().iter()) {
                        let rec = rec.map_err(|e| rd(e, &format!("{ctx} base record")))?;
                        let mut v = vec![];
                        for a in rec.base_anchors(ba.offset_data()).iter() {
                            v.push(match a {
                                None => None,
                                Some(a) => Some(r_anchor(a.map_err(|e| rd(e, &format!("{ctx} base anchor")))?, &ctx)?),
                            });
                        }
                        tab.insert(*g, v);
                    }
                    base_tabs.push(tab);
                }
                if mark_seen.len() != nmarks as usize {
                    return Err(gfail("marks-differ", format!("lookup {li}: {} marks reachable, {nmarks} in the input", mark_seen.len())));
                }
                let mut attachments = 0u64;
                for m in 0..nmarks {
                    let (si, cl, a) = mark_seen.get(&(20_000 + m)).copied().ok_or_else(|| gfail("marks-differ", format!("lookup {li}: mark glyph {} is missing", 20_000 + m)))?;
                    if a != mark_anchor(*seed, *var, m) {
                        return Err(gfail("marks-differ", format!("lookup {li}: mark {m} anchor {a:?}, expected {:?}", mark_anchor(*seed, *var, m))));
                    }
                    for b in 0..*bases as u32 {
                        let want = base_anchor(*seed, *var, b, m % *classes as u32);
                        let got = base_tabs[si].get(&(10 + b)).and_then(|v| v.get(cl as usize).copied().flatten());
                        if got != want {
                            return Err(gfail("attachment-differs", format!("lookup {li}: mark {m} (class {}) on base {b}: base anchor {got:?}, expected {want:?}", m % *classes as u32)));
                        }
                        attachments += want.is_some() as u64;
                    }
                }
                stats.class_n("gpos:attachments_compared", attachments);
            }
            (LookupSpec::PairClass { c1, c2, per1, per2, dense, seed }, gp::rg::PositionSubtables::Pair(subs)) => {
                if subs.len() > 1 {
                    split = true;
                }
                let mut first_seen: BTreeSet<u32> = BTreeSet::new();
                let mut compared = 0u64;
                for (si, sub) in subs.iter().enumerate() {
                    let ctx = format!("lookup {li} subtable {si}");
                    let gp::rg::PairPos::Format2(t) = sub.map_err(|e| rd(e, &ctx))? else {
                        return Err(gfail("wrong-target", format!("{ctx}: not a PairPosFormat2")));
                    };
                    let cov = t.coverage().map_err(|e| rd(e, &format!("{ctx} coverage")))?;
                    let cd1 = t.class_def1().map_err(|e| rd(e, &format!("{ctx} class def 1")))?;
                    let cd2 = t.class_def2().map_err(|e| rd(e, &format!("{ctx} class def 2")))?;
                    let mut matrix: Vec<Vec<ClassVal>> = vec![];
                    for r1 in t.class1_records().iter() {
                        let r1 = r1.map_err(|e| rd(e, &format!("{ctx} class1 record")))?;
                        let mut row = vec![];
                        for r2 in r1.class2_records().iter() {
                            let r2 = r2.map_err(|e| rd(e, &format!("{ctx} class2 record")))?;
                            let (v1, v2) = (r2.value_record1(), r2.value_record2());
                            let d1 = r_var(v1.x_advance_device(t.offset_data()), &format!("{ctx} value record 1"))?;
                            let d2 = r_var(v2.x_advance_device(t.offset_data()), &format!("{ctx} value record 2"))?;
                            match (v1.x_advance(), v2.x_advance()) {
                                (Some(x1), Some(x2)) => row.push((x1, d1, x2, d2)),
                                _ => return Err(gfail("value-format", format!("{ctx}: a class2 record lost its x_advance"))),
                            }
                        }
                        matrix.push(row);
                    }
                    for g in cov.iter() {
                        let g1 = g.to_u16() as u32;
                        if !first_seen.insert(g1) {
                            return Err(gfail("pair-duplicated", format!("{ctx}: first glyph {g1} is covered by two subtables")));
                        }
                        if g1 < 1 || g1 > *c1 as u32 * *per1 as u32 {
                            return Err(gfail("pairs-differ", format!("{ctx}: first glyph {g1} is not in the input")));
                        }
                        let a = (g1 - 1) / *per1 as u32;
                        let row = matrix.get(cd1.get(g) as usize).ok_or_else(|| gfail("class-range", format!("{ctx}: glyph {g1} has class {} of {}", cd1.get(g), matrix.len())))?;
                        for b in 0..*c2 as u32 {
                            // a glyph of input class b (class 0 also holds every unlisted glyph)
                            let g2 = gp::GlyphId16::new((1 + b * *per2 as u32) as u16);
                            let got = row.get(cd2.get(g2) as usize).copied();
                            let want = class_value(*seed, *dense, a * *c2 as u32 + b);
                            if got != Some(want) {
                                return Err(gfail("class-pair-differs", format!("{ctx}: first glyph {g1} (class {a}) x second class {b}: got {got:?}, expected {want:?} (x_advance1, device1, x_advance2, device2)")));
                            }
                            compared += 1;
                        }
                    }
                }
                if first_seen.len() != *c1 as usize * *per1 as usize {
                    return Err(gfail("pairs-differ", format!("lookup {li}: {} first glyphs reachable, {} in the input", first_seen.len(), *c1 as usize * *per1 as usize)));
                }
                stats.class_n("gpos:class_pairs_compared", compared);
            }
            (LookupSpec::Single { glyphs, seed }, gp::rg::PositionSubtables::Single(subs)) => {
                let mut got = vec![];
                for sub in subs.iter() {
                    let gp::rg::SinglePos::Format2(t) = sub.map_err(|e| rd(e, &format!("lookup {li} subtable")))? else {
                        return Err(gfail("wrong-target", format!("lookup {li}: not a SinglePosFormat2")));
                    };
                    let cov = t.coverage().map_err(|e| rd(e, &format!("lookup {li} coverage")))?;
                    for (g, r) in cov.iter().zip(t.value_records().iter()) {
                        got.push((g.to_u16() as u32, r.map_err(|e| rd(e, "value record"))?.x_advance()));
                    }
                }
                let want: Vec<(u32, Option<i16>)> = (0..*glyphs as u32).map(|g| (5 + g, Some(h16(*seed, 3, g)))).collect();
                if got != want {
                    return Err(gfail("singles-differ", format!("lookup {li}: {} single adjustments reachable, {} in the input", got.len(), want.len())));
                }
            }
            (spec, _) => return Err(gfail("wrong-target", format!("lookup {li} has type {} for input {spec:?}", lookup.lookup_type()))),
        }
    }
    if split {
        stats.class("gpos:split");
    }
    if promoted {
        stats.class("gpos:promoted");
    }
    if bytes.len() > 65_535 {
        stats.class("gpos:packed>64K");
    }
    if split || promoted {
        stats.nontrivial(hash_json(c));
        if stats.want_sample() {
            stats.sample(serde_json::json!({"gpos": format!("{c:?}"), "bytes": bytes.len(), "split": split, "promoted": promoted}));
        }
    }
    Ok(())
}

fn gpos_strategy() -> impl Strategy<Value = GposCase> {
    let pair = (prop_oneof![3 => 20u16..400, 2 => 400u16..1300], prop_oneof![3 => 1u16..12, 2 => 12u16..45], 0u8..4, prop_oneof![3 => Just(1u8), 1 => Just(2u8), 1 => Just(3u8)], any::<u16>())
        .prop_map(|(first, second, fmt, subtables, seed)| LookupSpec::Pair { first, second, fmt, subtables, seed });
    let mark = (1u16..48, 1u16..7, prop_oneof![2 => 5u16..120, 1 => 120u16..420], any::<bool>(), any::<u16>())
        .prop_map(|(classes, marks_per_class, bases, var, seed)| LookupSpec::MarkBase { classes, marks_per_class, bases, var, seed });
    let single = (1u16..300, any::<u16>()).prop_map(|(glyphs, seed)| LookupSpec::Single { glyphs, seed });
    let pair_class = (prop_oneof![1 => 4u16..40, 2 => 40u16..150], prop_oneof![1 => 4u16..40, 2 => 40u16..110], 1u8..4, 1u8..4, any::<bool>(), any::<u16>())
        .prop_map(|(c1, c2, per1, per2, dense, seed)| LookupSpec::PairClass { c1, c2, per1, per2, dense, seed });
    (proptest::collection::vec(prop_oneof![4 => pair, 3 => pair_class, 3 => mark, 2 => single], 1..6), 1u8..4).prop_map(|(lookups, features)| GposCase { lookups, features })
}

// =============================================================================================
// real GSUB / GPOS tables that need extension promotion, with subtables shared between lookups (same type, and
// byte-identical subtables of DIFFERENT lookup types); walked with an own reader, extension wrappers included

mod lx {
    pub use write_fonts::tables::gpos::{Gpos, PairPos, PairSet, PairValueRecord, PositionLookup, SinglePos, ValueRecord};
    pub use write_fonts::tables::gsub::{AlternateSet, AlternateSubstFormat1, Gsub, MultipleSubstFormat1, Sequence, SingleSubst, SubstitutionLookup};
    pub use write_fonts::tables::layout::{CoverageTable, Lookup, LookupFlag, LookupList};
    pub use write_fonts::types::GlyphId16;
}

/// the content of one subtable: `n` covered glyphs first, first+stride, ..; per glyph `len` values h(seed, i, k)
#[derive(Clone, Debug, Serialize, Deserialize)]
struct PoolSpec {
    first: u16,
    stride: u8,
    n: u16,
    len: u8,
    seed: u16,
}

#[derive(Clone, Debug, Serialize, Deserialize)]
struct ExtLookup {
    /// GSUB: 0 Multiple (type 2), 1 Alternate (type 3), 2 Single format 2 (type 1); GPOS: 0 SinglePos format 2 (type 1), 1 PairPos format 1 (type 2)
    kind: u8,
    /// indices into the pool
    subs: Vec<u8>,
}

#[derive(Clone, Debug, Serialize, Deserialize)]
struct ExtCase {
    gpos: bool,
    pool: Vec<PoolSpec>,
    lookups: Vec<ExtLookup>,
}

impl PoolSpec {
    fn glyph(&self, i: u32) -> u16 {
        (self.first as u32 + i * self.stride.max(1) as u32) as u16
    }
    fn value(&self, i: u32, k: u32) -> u16 {
        h16(self.seed, i, k) as u16
    }
    /// PairPos subtables stay below the splitting threshold (this stage is about promotion, `gpos` covers splitting)
    fn pair_n(&self) -> u32 {
        (self.n as u32).min(48_000 / (6 + 4 * self.len.max(1) as u32))
    }
}

fn ext_type(gpos: bool, kind: u8) -> u16 {
    match (gpos, kind) {
        (false, 0) => 2,
        (false, 1) => 3,
        (false, _) => 1,
        (true, 0) => 1,
        (true, _) => 2,
    }
}

fn build_ext(c: &ExtCase) -> Result<Vec<u8>, write_fonts::error::Error> {
    let g = |v: u16| lx::GlyphId16::new(v);
    let cov = |p: &PoolSpec, n: u32| -> lx::CoverageTable { (0..n).map(|i| g(p.glyph(i))).collect() };
    let seq = |p: &PoolSpec, i: u32| -> Vec<lx::GlyphId16> { (0..p.len.max(1) as u32).map(|k| g(p.value(i, k))).collect() };
    let pool = |ix: &u8| &c.pool[*ix as usize % c.pool.len()];
    let flag = lx::LookupFlag::empty();
    if c.gpos {
        let lookups = c
            .lookups
            .iter()
            .map(|l| match l.kind {
                0 => lx::PositionLookup::Single(lx::Lookup::new(
                    flag,
                    l.subs.iter().map(pool).map(|p| lx::SinglePos::format_2(cov(p, p.n as u32), (0..p.n as u32).map(|i| lx::ValueRecord::new().with_x_advance(p.value(i, 0) as i16)).collect())).collect(),
                )),
                _ => lx::PositionLookup::Pair(lx::Lookup::new(
                    flag,
                    l.subs
                        .iter()
                        .map(pool)
                        .map(|p| {
                            let sets = (0..p.pair_n())
                                .map(|i| {
                                    lx::PairSet::new(
                                        (0..p.len.max(1) as u32)
                                            .map(|k| lx::PairValueRecord::new(g(10 + k as u16 * 2), lx::ValueRecord::new().with_x_advance(p.value(i, k) as i16), lx::ValueRecord::new()))
                                            .collect(),
                                    )
                                })
                                .collect();
                            lx::PairPos::format_1(cov(p, p.pair_n()), sets)
                        })
                        .collect(),
                )),
            })
            .collect();
        dump_table(&lx::Gpos::new(Default::default(), Default::default(), lx::LookupList::new(lookups)))
    } else {
        let lookups = c
            .lookups
            .iter()
            .map(|l| match l.kind {
                0 => lx::SubstitutionLookup::Multiple(lx::Lookup::new(
                    flag,
                    l.subs.iter().map(pool).map(|p| lx::MultipleSubstFormat1::new(cov(p, p.n as u32), (0..p.n as u32).map(|i| lx::Sequence::new(seq(p, i))).collect())).collect(),
                )),
                1 => lx::SubstitutionLookup::Alternate(lx::Lookup::new(
                    flag,
                    l.subs.iter().map(pool).map(|p| lx::AlternateSubstFormat1::new(cov(p, p.n as u32), (0..p.n as u32).map(|i| lx::AlternateSet::new(seq(p, i))).collect())).collect(),
                )),
                _ => lx::SubstitutionLookup::Single(lx::Lookup::new(
                    flag,
                    l.subs.iter().map(pool).map(|p| lx::SingleSubst::format_2(cov(p, p.n as u32), (0..p.n as u32).map(|i| g(p.value(i, 0))).collect())).collect(),
                )),
            })
            .collect();
        dump_table(&lx::Gsub::new(Default::default(), Default::default(), lx::LookupList::new(lookups)))
    }
}

fn xfail(what: &str, msg: String) -> Fail {
    Fail::new(format!("c05|layout|{what}"), msg)
}
fn r16(b: &[u8], pos: usize, what: &str) -> Result<u16, Fail> {
    b.get(pos..pos + 2).map(|x| u16::from_be_bytes([x[0], x[1]])).ok_or_else(|| xfail("out-of-bounds", format!("{what}: reading 2 bytes at {pos} of {}", b.len())))
}
fn r32(b: &[u8], pos: usize, what: &str) -> Result<u32, Fail> {
    b.get(pos..pos + 4).map(|x| u32::from_be_bytes([x[0], x[1], x[2], x[3]])).ok_or_else(|| xfail("out-of-bounds", format!("{what}: reading 4 bytes at {pos} of {}", b.len())))
}
/// own coverage reader (either format): the covered glyphs in order
fn read_coverage(b: &[u8], pos: usize, what: &str) -> Result<Vec<u16>, Fail> {
    let n = r16(b, pos + 2, what)? as usize;
    match r16(b, pos, what)? {
        1 => (0..n).map(|i| r16(b, pos + 4 + 2 * i, what)).collect(),
        2 => {
            let mut out = vec![];
            for i in 0..n {
                let (s, e, ix) = (r16(b, pos + 4 + 6 * i, what)?, r16(b, pos + 6 + 6 * i, what)?, r16(b, pos + 8 + 6 * i, what)?);
                if ix as usize != out.len() || e < s {
                    return Err(xfail("not-a-copy", format!("{what}: coverage range {i} ({s}..={e}, start index {ix}) is inconsistent")));
                }
                out.extend(s..=e);
            }
            Ok(out)
        }
        f => Err(xfail("not-a-copy", format!("{what}: coverage format {f}"))),
    }
}

/// is the object at `pos` a copy of the subtable that `p` describes for a lookup of this kind? (all offsets followed)
fn check_subtable(b: &[u8], pos: usize, gpos: bool, kind: u8, p: &PoolSpec, what: &str) -> CaseResult {
    let bad = |m: String| Err(xfail("not-a-copy", format!("{what} at {pos}: {m}")));
    let n = if gpos && kind != 0 { p.pair_n() } else { p.n as u32 };
    let len = p.len.max(1) as u32;
    let format = r16(b, pos, what)?;
    let cov = read_coverage(b, pos + r16(b, pos + 2, what)? as usize, what)?;
    if cov != (0..n).map(|i| p.glyph(i)).collect::<Vec<_>>() {
        return bad(format!("coverage has {} glyphs (first {:?}), expected {n} from {}", cov.len(), cov.first(), p.first));
    }
    match (gpos, kind) {
        (false, 0) | (false, 1) => {
            if format != 1 || r16(b, pos + 4, what)? as u32 != n {
                return bad(format!("format {format}, count {}", r16(b, pos + 4, what)?));
            }
            for i in 0..n {
                let s = pos + r16(b, pos + 6 + 2 * i as usize, what)? as usize;
                if r16(b, s, what)? as u32 != len {
                    return bad(format!("sequence/alternate set {i} has {} glyphs, expected {len}", r16(b, s, what)?));
                }
                for k in 0..len {
                    if r16(b, s + 2 + 2 * k as usize, what)? != p.value(i, k) {
                        return bad(format!("sequence/alternate set {i} glyph {k} differs"));
                    }
                }
            }
        }
        (false, _) => {
            if format != 2 || r16(b, pos + 4, what)? as u32 != n {
                return bad(format!("format {format}, count {}", r16(b, pos + 4, what)?));
            }
            for i in 0..n {
                if r16(b, pos + 6 + 2 * i as usize, what)? != p.value(i, 0) {
                    return bad(format!("substitute {i} differs"));
                }
            }
        }
        (true, 0) => {
            if format != 2 || r16(b, pos + 4, what)? != 4 || r16(b, pos + 6, what)? as u32 != n {
                return bad(format!("format {format}, value format {}, count {}", r16(b, pos + 4, what)?, r16(b, pos + 6, what)?));
            }
            for i in 0..n {
                if r16(b, pos + 8 + 2 * i as usize, what)? != p.value(i, 0) {
                    return bad(format!("value {i} differs"));
                }
            }
        }
        (true, _) => {
            if format != 1 || r16(b, pos + 4, what)? != 4 || r16(b, pos + 6, what)? != 0 || r16(b, pos + 8, what)? as u32 != n {
                return bad(format!("format {format}, value formats {}/{}, count {}", r16(b, pos + 4, what)?, r16(b, pos + 6, what)?, r16(b, pos + 8, what)?));
            }
            for i in 0..n {
                let s = pos + r16(b, pos + 10 + 2 * i as usize, what)? as usize;
                if r16(b, s, what)? as u32 != len {
                    return bad(format!("pair set {i} has {} records, expected {len}", r16(b, s, what)?));
                }
                for k in 0..len {
                    if r16(b, s + 2 + 4 * k as usize, what)? != 10 + k as u16 * 2 || r16(b, s + 4 + 4 * k as usize, what)? != p.value(i, k) {
                        return bad(format!("pair set {i} record {k} differs"));
                    }
                }
            }
        }
    }
    Ok(())
}

fn test_ext(c: &ExtCase, stats: &Stats) -> CaseResult {
    if c.pool.is_empty() || c.lookups.iter().any(|l| l.subs.is_empty()) {
        return Ok(());
    }
    // does any subtable object end up referenced from two lookups (content-wise)? then a partly promoted table has an
    // object behind both 16-bit and 32-bit links: the first known finding's predicate
    let mut users: BTreeMap<(usize, bool), BTreeSet<usize>> = BTreeMap::new();
    for (li, l) in c.lookups.iter().enumerate() {
        for s in &l.subs {
            // Multiple and Alternate subtables over the same content are byte-identical
            users.entry((*s as usize % c.pool.len(), !c.gpos && l.kind >= 2 || c.gpos && l.kind != 0)).or_default().insert(li);
        }
    }
    let shared = users.values().any(|u| u.len() > 1);
    let res = guarded(|| build_ext(c)).map_err(|f| {
        let kind = if shared { "panic-mixed-width" } else { "layout-panic" };
        Fail::new(format!("c05|{kind}|{}", f.sig), format!("dump_table({}): {} for {c:?}", if c.gpos { "Gpos" } else { "Gsub" }, f.msg))
    })?;
    let b = match res {
        Ok(b) => b,
        Err(write_fonts::error::Error::PackingFailed(_)) => {
            stats.class("layout:unpackable");
            return Ok(());
        }
        Err(e) => return Err(xfail("unexpected-error", format!("dump_table returned {e} for a valid table"))),
    };
    stats.class("layout:packed");
    let promoted_type = if c.gpos { 9 } else { 7 };
    if r16(&b, 0, "header")? != 1 || r16(&b, 2, "header")? != 0 {
        return Err(xfail("header", "version is not 1.0".into()));
    }
    for (off, what) in [(4, "script list"), (6, "feature list")] {
        if r16(&b, r16(&b, off, what)? as usize, what)? != 0 {
            return Err(xfail("not-a-copy", format!("{what} is not the empty list that was compiled")));
        }
    }
    let ll = r16(&b, 8, "header")? as usize;
    if r16(&b, ll, "lookup list")? as usize != c.lookups.len() {
        return Err(xfail("lookup-count", format!("{} lookups, expected {}", r16(&b, ll, "lookup list")?, c.lookups.len())));
    }
    let (mut promoted, mut direct, mut cross, mut same) = (0, 0, false, false);
    let mut promoted_users: BTreeMap<usize, BTreeSet<u16>> = BTreeMap::new();
    for (li, l) in c.lookups.iter().enumerate() {
        let what = format!("lookup {li}");
        let lp = ll + r16(&b, ll + 2 + 2 * li, &what)? as usize;
        let (ty, flag, count) = (r16(&b, lp, &what)?, r16(&b, lp + 2, &what)?, r16(&b, lp + 4, &what)? as usize);
        let orig = ext_type(c.gpos, l.kind);
        if (ty != orig && ty != promoted_type) || flag != 0 || count != l.subs.len() {
            return Err(xfail("lookup-header", format!("{what}: type {ty} (compiled as {orig}), flag {flag}, {count} subtables (compiled {})", l.subs.len())));
        }
        for (si, s) in l.subs.iter().enumerate() {
            let what = format!("lookup {li} (type {orig}) subtable {si}");
            let p = &c.pool[*s as usize % c.pool.len()];
            let mut sp = lp + r16(&b, lp + 6 + 2 * si, &what)? as usize;
            if ty != orig {
                // extension wrapper: format 1, the lookup's ORIGINAL type, 32-bit offset to the subtable
                let (f, et, off) = (r16(&b, sp, &what)?, r16(&b, sp + 2, &what)?, r32(&b, sp + 4, &what)?);
                if f != 1 || et != orig {
                    return Err(xfail("extension-wrapper", format!("{what}: the offset lands on an extension subtable with format {f} and extensionLookupType {et}; the wrapper written for this lookup has type {orig}")));
                }
                sp += off as usize;
                let u = promoted_users.entry(*s as usize % c.pool.len()).or_default();
                u.insert(orig);
                promoted += 1;
            } else {
                direct += 1;
            }
            check_subtable(&b, sp, c.gpos, l.kind, p, &what)?;
        }
    }
    for u in promoted_users.values() {
        cross |= u.len() > 1;
    }
    for ((_, _), u) in &users {
        same |= u.len() > 1;
    }
    if promoted > 0 {
        stats.class("layout:has_promoted_lookup");
    }
    if promoted > 0 && direct > 0 {
        stats.class("layout:partly_promoted");
    }
    if cross {
        stats.class("layout:identical_subtable_promoted_under_two_types");
    }
    if same {
        stats.class("layout:subtable_shared_between_lookups");
    }
    stats.class(if c.gpos { "layout:gpos" } else { "layout:gsub" });
    if promoted > 0 {
        stats.nontrivial(hash_json(c));
    }
    Ok(())
}

fn ext_strategy() -> impl Strategy<Value = ExtCase> {
    let pool = (0u16..20_000, 1u8..4, prop_oneof![1 => 1u16..100, 5 => 900u16..2000], prop_oneof![1 => 1u8..5, 4 => 6u8..11], any::<u16>()).prop_map(|(first, stride, n, len, seed)| PoolSpec { first, stride, n, len, seed });
    let lookup = (0u8..3, proptest::collection::vec(any::<u8>(), 1..4), proptest::bool::weighted(0.5));
    (any::<bool>(), proptest::collection::vec(pool, 2..7), proptest::collection::vec(lookup, 2..8)).prop_map(|(gpos, pool, raw)| {
        let gpos = gpos && raw.len() % 3 == 0; // two thirds GSUB
        let mut lookups = vec![];
        for (kind, subs, twin) in raw {
            let kind = if gpos { kind % 2 } else { kind };
            lookups.push(ExtLookup { kind, subs: subs.clone() });
            if twin {
                // a second lookup over the same subtables: the other of Multiple/Alternate (byte-identical subtables of a
                // different type) or, for the other kinds, the same type
                let k2 = if !gpos && kind < 2 { 1 - kind } else { kind };
                lookups.push(ExtLookup { kind: k2, subs });
            }
        }
        ExtCase { gpos, pool, lookups }
    })
}

// =============================================================================================
// development aid: `c05 --minimize REPLAY.json` greedily reduces a failing graph case (same signature)

fn prune_unreachable(spec: &Spec) -> Spec {
    let n = spec.nodes.len();
    let mut reach = vec![false; n];
    reach[0] = true;
    for i in 0..n {
        if reach[i] {
            for l in &spec.nodes[i].links {
                reach[l.to as usize] = true;
            }
        }
    }
    let mut map = vec![u32::MAX; n];
    let mut k = 0;
    for i in 0..n {
        if reach[i] {
            map[i] = k;
            k += 1;
        }
    }
    let mut out = spec.clone();
    out.nodes = (0..n)
        .filter(|i| reach[*i])
        .map(|i| {
            let mut nd = spec.nodes[i].clone();
            for l in nd.links.iter_mut() {
                l.to = map[l.to as usize];
            }
            nd
        })
        .collect();
    out
}

fn minimize(path: &str) {
    let v: serde_json::Value = serde_json::from_str(&std::fs::read_to_string(path).expect("read replay")).expect("json");
    let mut best: Spec = serde_json::from_value(v["case"].clone()).expect("case is a graph spec");
    let stats = Stats::default();
    let sig_of = |s: &Spec| guarded(|| test_graph(s, &stats)).and_then(|r| r).err().map(|f| f.sig);
    let Some(sig) = sig_of(&best) else {
        println!("case passes");
        return;
    };
    let by_target = best.mixed_nodes(true) == 0;
    let keeps = |s: &Spec| s.well_formed() && (!by_target || s.mixed_nodes(true) == 0) && sig_of(s).as_deref() == Some(&sig);
    loop {
        let mut progress = false;
        let mut k = best.nodes.len();
        while k > 1 {
            k -= 1;
            if k >= best.nodes.len() {
                continue;
            }
            let mut c = best.clone();
            for n in c.nodes.iter_mut() {
                n.links.retain(|l| l.to as usize != k);
            }
            c.nodes[k].links.clear();
            let c = prune_unreachable(&c);
            if c.nodes.len() < best.nodes.len() && keeps(&c) {
                best = c;
                progress = true;
            }
        }
        // bypass a node: its parents link to its children directly
        let mut k = best.nodes.len();
        while k > 1 {
            k -= 1;
            if k >= best.nodes.len() {
                continue;
            }
            let kids = best.nodes[k].links.clone();
            let mut c = best.clone();
            for n in c.nodes.iter_mut() {
                let mut out = vec![];
                for l in n.links.drain(..) {
                    if l.to as usize == k {
                        out.extend(kids.iter().map(|x| SLink { to: x.to, w: x.w, adj: 0 }));
                    } else {
                        out.push(l);
                    }
                }
                n.links = out;
            }
            c.nodes[k].links.clear();
            let c = prune_unreachable(&c);
            if c.nodes.len() < best.nodes.len() && keeps(&c) {
                best = c;
                progress = true;
            }
        }
        // 24-bit targets become 16- or 32-bit targets
        for k in 1..best.nodes.len() {
            for w in [2u8, 4] {
                let mut c = best.clone();
                let mut changed = false;
                for n in c.nodes.iter_mut() {
                    for l in n.links.iter_mut() {
                        if l.to as usize == k && l.w == 3 {
                            l.w = w;
                            changed = true;
                        }
                    }
                }
                if changed && keeps(&c) {
                    best = c;
                    progress = true;
                    break;
                }
            }
        }
        let mut i = 0;
        while i < best.nodes.len() {
            let mut j = 0;
            while j < best.nodes[i].links.len() {
                let mut c = best.clone();
                c.nodes[i].links.remove(j);
                let c = prune_unreachable(&c);
                if keeps(&c) {
                    best = c;
                    progress = true;
                } else {
                    j += 1;
                }
                if i >= best.nodes.len() {
                    break;
                }
            }
            i += 1;
        }
        for i in 0..best.nodes.len() {
            for cand in [0u32, 4, best.nodes[i].size / 2, best.nodes[i].size.saturating_sub(1)] {
                if cand < best.nodes[i].size {
                    let mut c = best.clone();
                    c.nodes[i].size = cand;
                    c.nodes[i].lead = cand;
                    for l in c.nodes[i].links.iter_mut() {
                        l.adj = 0;
                    }
                    if keeps(&c) {
                        best = c;
                        progress = true;
                        break;
                    }
                }
            }
            let mut c = best.clone();
            c.nodes[i].stamp = i as u32;
            c.nodes[i].lead = c.nodes[i].size;
            for l in c.nodes[i].links.iter_mut() {
                l.adj = 0;
            }
            if c.nodes[i] != best.nodes[i] && keeps(&c) {
                best = c;
                progress = true;
            }
        }
        for route in 0..2 {
            let mut c = best.clone();
            if route == 0 { c.public = false } else { c.hook = false }
            if (c.public || c.hook) && (c.public != best.public || c.hook != best.hook) && keeps(&c) {
                best = c;
                progress = true;
            }
        }
        if !progress {
            break;
        }
    }
    println!("sig: {sig}\nminimal: {}\n{}", spec_summary(&best), serde_json::to_string(&best).unwrap());
}

fn main() {
    let args: Vec<String> = std::env::args().collect();
    if let Some(i) = args.iter().position(|a| a == "--minimize") {
        minimize(&args[i + 1]);
        return;
    }
    let ctx = Ctx::from_args("C05");
    ctx.set_rule(
        "Mock object graphs (acyclic by construction: links go to higher node indices; every node reachable from node 0) compiled through the public \
         dump_table route (a harness FontWrite type; objects deduplicated by the library) and through the pack_mock_graph hook (no dedup, explicit \
         link positions, offset adjustments 0..=len(parent), object ids ascending or descending, final layout checked). Stages: small-exhaustive = \
         every rooted DAG shape with n<=4 (thorough: n<=5) x a size alphabet straddling 64 KiB x one link width per target node; small-mixed = the \
         same with per-edge link bundles {none,16,32,32+16(,24,24+16)}; known-shapes = hand-written shapes around the known findings; boundary24 = \
         16 MiB graphs whose critical 24-bit offset is 2^24-1+-2; dag / dag-nested / dag-mixed = random DAG families (2..13 nodes with mixed \
         sizes, 14..400 nodes mostly small, 32-bit sub-graphs with shared leaves, fans at the 65535 boundary; identical-content twins) with widths \
         a function of the target object and no nested 32-bit targets (both known findings excluded by construction, counted in \
         excluded_known) / nested 32-bit targets allowed / per-link widths; gpos = Gpos tables of 1..5 lookups (PairPos format 1 with up to \
         3 subtables, value formats incl. VariationIndex devices; MarkBasePos with null anchors and VariationIndex anchors; SinglePos) big enough \
         to need subtable splitting and extension promotion, re-read with read-fonts and compared pair by pair / attachment by attachment. \
         Non-trivial graph case: at least one route produced bytes AND (the graph is > 65535 bytes with a 16/24-bit link, or some node has >= 2 \
         incoming links); non-trivial gpos case: the output shows split subtables or extension lookups. Distinct by hash of the spec.",
    );
    ctx.assume("the byte walker knows only the input spec (payload bytes, link positions/widths, adjustments), not the packer's order; Err(PackingFailed)/None is an allowed outcome and is only counted");
    ctx.assume("payloads are LCG streams keyed by the node stamp: a link landing on a wrong place is detected with overwhelming probability (certainty for objects >= 8 bytes pointing at an object start), not certainty, for objects shorter than 4 bytes");
    ctx.assume("panics on acyclic graphs are violations; they are attributed to a known finding only when the graph satisfies that finding's structural predicate (mixed-width target / nested 32-bit targets) AND the panic site matches");
    ctx.assume("gpos: read-fonts parses the compiled table correctly (it is the reader under test in C01/C04, not here)");

    // development aid: C05_ONLY=stage-name runs a single stage (never set by registered commands)
    let only_stage = std::env::var("C05_ONLY").ok();
    let on = |name: &str| only_stage.as_deref().map(|o| o == name).unwrap_or(true) || ctx.is_worker() || ctx.is_replay();
    let quick_blocks = vec![
        Block { n: 2, sizes: FULL_SIZES, by_target: Some(&[2, 3, 4]), edge_opts: &[], rev: true },
        Block { n: 3, sizes: FULL_SIZES, by_target: Some(&[2, 3, 4]), edge_opts: &[], rev: true },
        Block { n: 4, sizes: &[2, 32_768, 65_530, 70_000], by_target: Some(&[2, 4]), edge_opts: &[], rev: true },
    ];
    let thorough_blocks = vec![
        Block { n: 2, sizes: FULL_SIZES, by_target: Some(&[2, 3, 4]), edge_opts: &[], rev: true },
        Block { n: 3, sizes: FULL_SIZES, by_target: Some(&[2, 3, 4]), edge_opts: &[], rev: true },
        Block { n: 4, sizes: &[0, 2, 10, 32_768, 65_530, 65_536, 140_000], by_target: Some(&[2, 3, 4]), edge_opts: &[], rev: true },
        Block { n: 5, sizes: &[10, 32_768, 65_530], by_target: Some(&[2, 4]), edge_opts: &[], rev: false },
    ];
    let blocks = if ctx.quick() { quick_blocks } else { thorough_blocks };
    let count: u64 = blocks.iter().map(|b| b.count()).sum();
    ctx.note("exhaustive_by_target_graphs", serde_json::json!(count));
    if on("small-exhaustive") {
    ctx.index_stage("small-exhaustive", Isolation::Procs, ctx.n(count, count), |i| decode_blocks(&blocks, i), test_graph);
    }

    const MIXED_OPTS: &[&[u8]] = &[&[], &[2], &[4], &[4, 2]];
    let mixed_blocks = if ctx.quick() {
        vec![
            Block { n: 3, sizes: FULL_SIZES, by_target: None, edge_opts: MIXED_OPTS, rev: true },
            Block { n: 4, sizes: &[4, 65_530], by_target: None, edge_opts: MIXED_OPTS, rev: true },
        ]
    } else {
        vec![
            Block { n: 3, sizes: FULL_SIZES, by_target: None, edge_opts: &[&[], &[2], &[4], &[4, 2], &[3], &[3, 2]], rev: true },
            Block { n: 4, sizes: &[4, 32_768, 65_530], by_target: None, edge_opts: MIXED_OPTS, rev: true },
        ]
    };
    let mcount: u64 = mixed_blocks.iter().map(|b| b.count()).sum();
    ctx.note("exhaustive_mixed_width_graphs", serde_json::json!(mcount));
    if on("small-mixed") {
    ctx.index_stage("small-mixed", Isolation::Procs, ctx.n(mcount, mcount), |i| decode_blocks(&mixed_blocks, i), test_graph);
    }

    let shapes = known_shapes();
    if on("known-shapes") {
        ctx.index_stage("known-shapes", Isolation::Threads, shapes.len() as u64, |i| shapes[i as usize].clone(), test_graph);
    }

    if on("boundary24") {
        ctx.index_stage("boundary24", Isolation::Procs, 15, boundary24_shape, test_graph);
    }

    if on("dag") {
        ctx.prop_stage("dag", Isolation::Procs, ctx.n(20_000, 150_000), || dag_strategy(Mode::Clean), test_graph);
    }
    if on("dag-nested") {
        ctx.prop_stage("dag-nested", Isolation::Procs, ctx.n(6_000, 40_000), || dag_strategy(Mode::Nested), test_graph);
    }
    if on("dag-mixed") {
        ctx.prop_stage("dag-mixed", Isolation::Procs, ctx.n(6_000, 40_000), || dag_strategy(Mode::Mixed), test_graph);
    }
    if on("dedup-adversarial") {
        ctx.prop_stage("dedup-adversarial", Isolation::Procs, ctx.n(4_000, 40_000), adversarial_strategy, test_graph);
    }
    if on("layout-ext") {
        ctx.prop_stage("layout-ext", Isolation::Procs, ctx.n(1_500, 15_000), ext_strategy, test_ext);
    }
    if on("gpos") {
        ctx.prop_stage("gpos", Isolation::Procs, ctx.n(600, 6_000), gpos_strategy, test_gpos);
    }
    ctx.finish();
}
