//! C11 — variation stores, metric deltas and axis normalisation compute specified values.
//!
//! Stages
//!  * `store` / `big-store`: VariationStoreBuilder (both modes) -> dump_table -> read back; every temporary id is
//!    retrievable through the returned remap with exactly its per-region deltas; `compute_delta` /
//!    `compute_float_delta` at generated locations vs the exact rational sum of tent scalar x delta.
//!  * `normalize`: `VariationAxisRecord::normalize` vs the exact formula.
//!  * `avar`: `SegmentMaps::apply` vs exact piecewise-linear interpolation.
//!  * `location`: skrifa `AxisCollection::location` = normalise o avar, rounded per the 16.16 -> 2.14 rule.
//!  * `metrics`: skrifa `GlyphMetrics::advance_width/left_side_bearing` over hmtx + HVAR built through the builder.
use proptest::prelude::*;
use read_fonts::{
    tables::{
        avar::Avar,
        fvar::Fvar,
        hvar::Hvar,
        variations::{DeltaSetIndex, FloatItemDeltaTarget, ItemVariationStore},
    },
    types::{F2Dot14, FWord, Fixed, GlyphId, Tag},
    FontData, FontRead, FontRef, TableProvider,
};
use serde::{Deserialize, Serialize};
use skrifa::{
    instance::{LocationRef, Size},
    MetadataProvider,
};
use std::collections::BTreeMap;
use vcore::fontkit::{fvar_bytes, Axis, Kit};
use vcore::*;
use write_fonts::{
    dump_table,
    tables::variations::{ivs_builder::VariationStoreBuilder, RegionAxisCoordinates, VariationRegion},
};

fn fail(sig: &str, msg: String) -> Fail {
    Fail::new(format!("c11|{sig}"), msg)
}
/// monotone index mapping (shrinks towards 0)
fn pick(raw: u32, len: usize) -> usize {
    ((raw as u64 * len as u64) >> 32) as usize
}

// =====================================================================================================
// store model
// =====================================================================================================

/// (start, peak, end) in F2Dot14 bits
type Tri = (i16, i16, i16);

#[derive(Clone, Debug, Serialize, Deserialize)]
struct Group {
    /// raw index into `shapes`
    shape: u32,
    /// number of rows in this group
    count: u32,
    /// per-column base value and per-row increment (row j, column c: base[c] + j*step[c], then cut to the column's width class)
    base: Vec<i32>,
    step: Vec<i32>,
}

#[derive(Clone, Debug, Serialize, Deserialize)]
struct StoreSpec {
    n_axes: u8,
    /// supplied regions (each n_axes triples); duplicates are removed, keeping the first
    regions: Vec<Vec<Tri>>,
    /// row shapes: columns (raw region index, width class: 0 explicit zero, 1 i8, 2 i16, 3 i32, 4 boundary value)
    shapes: Vec<Vec<(u32, u8)>>,
    groups: Vec<Group>,
    /// order in which rows are handed to the builder: 0 as generated, 1 reversed, 2 round-robin over groups, 3 fixed scramble
    order: u8,
}

struct Model {
    n_axes: usize,
    regions: Vec<Vec<Tri>>,
    /// rows in add order: (model region index, delta), regions distinct within a row
    rows: Vec<Vec<(usize, i32)>>,
}

const BOUNDARY: [i32; 16] = [
    127, 128, -128, -129, 32767, 32768, -32768, -32769, i32::MAX, i32::MIN, 1, -1, 255, 256, 65535, -65536,
];

fn cut(raw: i32, class: u8) -> i32 {
    match class {
        0 => 0,
        1 => raw as i8 as i32,
        2 => raw as i16 as i32,
        3 => raw,
        _ => BOUNDARY[(raw as u32 % 16) as usize],
    }
}

fn expand(s: &StoreSpec) -> Model {
    let n_axes = (s.n_axes as usize).max(1);
    let mut regions: Vec<Vec<Tri>> = vec![];
    for r in &s.regions {
        let mut r = r.clone();
        r.resize(n_axes, (0, 0, 0));
        if !regions.contains(&r) {
            regions.push(r);
        }
    }
    if regions.is_empty() {
        regions.push(vec![(0, 16384, 16384); n_axes]);
    }
    // shapes with distinct regions
    let shapes: Vec<Vec<(usize, u8)>> = s
        .shapes
        .iter()
        .map(|sh| {
            let mut out: Vec<(usize, u8)> = vec![];
            for (raw, class) in sh {
                let ri = pick(*raw, regions.len());
                if !out.iter().any(|(r, _)| *r == ri) {
                    out.push((ri, *class));
                }
            }
            out
        })
        .collect();
    let mut tagged: Vec<(usize, u32, Vec<(usize, i32)>)> = vec![];
    for (gi, g) in s.groups.iter().enumerate() {
        let empty = vec![];
        let sh = if shapes.is_empty() { &empty } else { &shapes[pick(g.shape, shapes.len())] };
        for j in 0..g.count {
            let row: Vec<(usize, i32)> = sh
                .iter()
                .enumerate()
                .map(|(c, (ri, class))| {
                    let b = if g.base.is_empty() { 0 } else { g.base[c % g.base.len()] };
                    let st = if g.step.is_empty() { 0 } else { g.step[c % g.step.len()] };
                    (*ri, cut(b.wrapping_add(st.wrapping_mul(j as i32)), *class))
                })
                .collect();
            tagged.push((gi, j, row));
        }
    }
    match s.order {
        1 => tagged.reverse(),
        2 => tagged.sort_by_key(|(gi, j, _)| (*j, *gi)),
        3 => {
            let mut keyed: Vec<(u32, (usize, u32, Vec<(usize, i32)>))> =
                tagged.into_iter().enumerate().map(|(k, t)| ((k as u32).wrapping_mul(0x9E37_79B1).rotate_left(13), t)).collect();
            keyed.sort_by_key(|(k, _)| *k);
            tagged = keyed.into_iter().map(|(_, t)| t).collect();
        }
        _ => {}
    }
    Model { n_axes, regions, rows: tagged.into_iter().map(|(_, _, r)| r).collect() }
}

// ----------------------------------------------------------------------------------------------------
// strategies
// ----------------------------------------------------------------------------------------------------

fn unit() -> impl Strategy<Value = i16> {
    prop_oneof![
        3 => Just(16384i16),
        2 => Just(8192i16),
        1 => Just(4096i16),
        1 => Just(12288i16),
        3 => 1i16..=16384,
        1 => Just(1i16),
        1 => Just(16383i16),
    ]
}

fn tri_strategy() -> BoxedStrategy<Tri> {
    prop_oneof![
        // axis does not take part
        5 => Just((0i16, 0i16, 0i16)),
        1 => Just((-16384i16, 0i16, 16384i16)),
        // sorted one-sided triple (equalities possible)
        7 => (any::<bool>(), unit(), unit(), unit()).prop_map(|(neg, a, b, c)| {
            let mut v = [a, b, c];
            v.sort();
            if neg { (-v[2], -v[1], -v[0]) } else { (v[0], v[1], v[2]) }
        }),
        // master-like: (0,p,p) (0,p,1) (p,1,1)
        5 => (any::<bool>(), unit(), 0u8..3).prop_map(|(neg, p, k)| {
            let t = match k { 0 => (0, p, p), 1 => (0, p, 16384), _ => (p, 16384, 16384) };
            if neg { (-t.2, -t.1, -t.0) } else { t }
        }),
        // from zero: (0,p,e)
        3 => (any::<bool>(), unit(), unit()).prop_map(|(neg, a, b)| {
            let (p, e) = (a.min(b), a.max(b));
            if neg { (-e, -p, 0) } else { (0, p, e) }
        }),
        // arbitrary order within [-1,1] (mostly ignored regions)
        1 => (-16384i16..=16384, -16384i16..=16384, -16384i16..=16384),
        // zero crossing with a non-zero peak (ignored by the specified formula)
        1 => (unit(), unit(), unit()).prop_map(|(a, p, b)| (-a, if p < b { p } else { -p.min(a) }, b)),
        // beyond +-1
        1 => (any::<i16>(), any::<i16>(), any::<i16>()).prop_map(|(a, b, c)| { let mut v = [a, b, c]; v.sort(); (v[0], v[1], v[2]) }),
    ]
    .boxed()
}

fn value_strategy() -> impl Strategy<Value = i32> {
    prop_oneof![6 => any::<i32>(), 1 => -3i32..4, 1 => Just(0i32)]
}
fn step_strategy() -> impl Strategy<Value = i32> {
    prop_oneof![3 => Just(0i32), 3 => -3i32..4, 2 => any::<i32>(), 1 => Just(257i32)]
}
fn class_strategy(max_class: u8) -> BoxedStrategy<u8> {
    match max_class {
        0 | 1 => prop_oneof![1 => Just(0u8), 6 => Just(1u8)].boxed(),
        2 => prop_oneof![1 => Just(0u8), 4 => Just(1u8), 3 => Just(2u8)].boxed(),
        _ => prop_oneof![1 => Just(0u8), 4 => Just(1u8), 3 => Just(2u8), 2 => Just(3u8), 1 => Just(4u8)].boxed(),
    }
}

fn group_strategy(count: BoxedStrategy<u32>) -> impl Strategy<Value = Group> {
    (any::<u32>(), count, proptest::collection::vec(value_strategy(), 12), proptest::collection::vec(step_strategy(), 12))
        .prop_map(|(shape, count, base, step)| Group { shape, count, base, step })
}

/// `groups`: number of groups; `count`: rows per group
fn store_spec(groups: std::ops::Range<usize>, count: BoxedStrategy<u32>, max_class: u8, max_shapes: usize) -> impl Strategy<Value = StoreSpec> {
    (1u8..=4, 1usize..=12, prop_oneof![Just(1u8), Just(2u8), Just(4u8), Just(4u8)]).prop_flat_map(move |(n_axes, n_regions, cap)| {
        let region = proptest::collection::vec(tri_strategy(), n_axes as usize);
        let col = (any::<u32>(), class_strategy(max_class.min(cap)));
        let shape = prop_oneof![
            6 => proptest::collection::vec(col.clone(), 0..=n_regions.min(5)),
            1 => proptest::collection::vec(col.clone(), n_regions..=n_regions + 2),
            1 => Just(vec![]),
        ];
        (
            Just(n_axes),
            proptest::collection::vec(region, n_regions),
            proptest::collection::vec(shape, 1..=max_shapes),
            proptest::collection::vec(group_strategy(count.clone()), groups.clone()),
            0u8..4,
        )
            .prop_map(|(n_axes, regions, shapes, groups, order)| StoreSpec { n_axes, regions, shapes, groups, order })
    })
}

#[derive(Clone, Debug, Serialize, Deserialize)]
enum Coord {
    Bits(i16),
    /// coordinate of a supplied region on this axis: which = 0 start, 1 peak, 2 end; plus offset in 2.14 units
    Region { r: u32, which: u8, off: i8 },
    /// midpoint between start and peak (which = 0) or peak and end (1)
    Mid { r: u32, which: u8 },
}

fn coord_strategy() -> impl Strategy<Value = Coord> {
    prop_oneof![
        2 => Just(Coord::Bits(0)),
        1 => Just(Coord::Bits(16384)),
        1 => Just(Coord::Bits(-16384)),
        5 => (-16384i16..=16384).prop_map(Coord::Bits),
        5 => (any::<u32>(), 0u8..3, -1i8..=1).prop_map(|(r, which, off)| Coord::Region { r, which, off }),
        4 => (any::<u32>(), 0u8..2).prop_map(|(r, which)| Coord::Mid { r, which }),
        1 => any::<i16>().prop_map(Coord::Bits),
    ]
}

fn locs_strategy(n: std::ops::Range<usize>) -> impl Strategy<Value = Vec<Vec<Coord>>> {
    proptest::collection::vec(proptest::collection::vec(coord_strategy(), 6), n)
}

/// length of each location handed to the library: usually the axis count (code 255), else 0..=axis_count+2
/// (missing trailing axes are at 0, extra coordinates are ignored)
fn lens_strategy() -> impl Strategy<Value = Vec<u8>> {
    proptest::collection::vec(prop_oneof![5 => Just(255u8), 4 => 0u8..=6], 4)
}

/// resolved coordinates truncated / extended to the requested length
fn shape_loc(model: &Model, full: &[i16], spec: &[Coord], len_code: u8) -> Vec<i16> {
    if len_code == 255 {
        return full.to_vec();
    }
    let len = (len_code as usize).min(model.n_axes + 2);
    (0..len)
        .map(|a| match (full.get(a), spec.get(a)) {
            (Some(v), _) => *v,
            (None, Some(Coord::Bits(b))) => *b,
            _ => 16384,
        })
        .collect()
}

fn resolve_locs(model: &Model, locs: &[Vec<Coord>]) -> Vec<Vec<i16>> {
    locs.iter()
        .map(|l| {
            (0..model.n_axes)
                .map(|a| match l.get(a) {
                    None => 0,
                    Some(Coord::Bits(b)) => *b,
                    Some(Coord::Region { r, which, off }) => {
                        let t = model.regions[pick(*r, model.regions.len())][a];
                        let v = match which { 0 => t.0, 1 => t.1, _ => t.2 };
                        v.saturating_add(*off as i16)
                    }
                    Some(Coord::Mid { r, which }) => {
                        let t = model.regions[pick(*r, model.regions.len())][a];
                        let (x, y) = if *which == 0 { (t.0, t.1) } else { (t.1, t.2) };
                        ((x as i32 + y as i32) / 2) as i16
                    }
                })
                .collect()
        })
        .collect()
}

// ----------------------------------------------------------------------------------------------------
// exact tent arithmetic (the specified formula, OpenType "Algorithm for interpolation of instance values")
// ----------------------------------------------------------------------------------------------------

/// exact region scalar num/den (den > 0, 0 <= num <= den) and the number of axes with a strictly fractional factor
#[derive(Clone, Copy, Debug)]
struct Scal {
    num: i128,
    den: i128,
    frac_axes: u32,
}

fn region_scalar(region: &[Tri], coords: &[i16]) -> Scal {
    let mut s = Scal { num: 1, den: 1, frac_axes: 0 };
    for (a, (start, peak, end)) in region.iter().enumerate() {
        let (start, peak, end) = (*start as i128, *peak as i128, *end as i128);
        let coord = coords.get(a).copied().unwrap_or(0) as i128;
        if start > peak || peak > end {
            continue;
        }
        if start < 0 && end > 0 && peak != 0 {
            continue;
        }
        if peak == 0 {
            continue;
        }
        if coord < start || coord > end {
            return Scal { num: 0, den: 1, frac_axes: 0 };
        }
        if coord == peak {
            continue;
        }
        let (n, d) = if coord < peak { (coord - start, peak - start) } else { (end - coord, end - peak) };
        if n == 0 {
            return Scal { num: 0, den: 1, frac_axes: 0 };
        }
        s.num *= n;
        s.den *= d;
        s.frac_axes += 1;
    }
    s
}

/// exact sum over a row: integer part, fractional part (f64, error ~1e-15), the fixed-point tolerance and the float tolerance
struct Exact {
    int: i128,
    frac: f64,
    tol_fixed: f64,
    tol_float: f64,
}
impl Exact {
    fn value(&self) -> f64 {
        self.int as f64 + self.frac
    }
    fn is_integer(&self) -> bool {
        self.frac == 0.0
    }
}

fn exact_delta(row: &[(usize, i32)], scalars: &[Scal]) -> Exact {
    let mut e = Exact { int: 0, frac: 0.0, tol_fixed: 0.5, tol_float: 1e-6 };
    for (ri, d) in row {
        let s = scalars[*ri];
        if s.num == 0 || *d == 0 {
            continue;
        }
        let t = *d as i128 * s.num;
        e.int += t.div_euclid(s.den);
        e.frac += t.rem_euclid(s.den) as f64 / s.den as f64;
        let mag = (*d as f64).abs();
        // each fractional axis rounds the 16.16 scalar once (<= 2^-17), later factors are <= 1
        e.tol_fixed += mag * s.frac_axes as f64 / 131072.0;
        // f32 scalar: two roundings per fractional axis, one for the final f32 result; factor 2 slack
        e.tol_float += mag * (s.num as f64 / s.den as f64) * (2.0 * s.frac_axes as f64 + 1.0) / 8_388_608.0;
    }
    let whole = e.frac.floor();
    e.int += whole as i128;
    e.frac -= whole;
    e
}

// ----------------------------------------------------------------------------------------------------
// build + read back
// ----------------------------------------------------------------------------------------------------

struct Built {
    bytes: Vec<u8>,
    /// final (outer, inner) per model row
    index: Vec<(u16, u16)>,
}

fn write_region(r: &[Tri]) -> VariationRegion {
    VariationRegion::new(
        r.iter()
            .map(|(s, p, e)| RegionAxisCoordinates::new(F2Dot14::from_bits(*s), F2Dot14::from_bits(*p), F2Dot14::from_bits(*e)))
            .collect(),
    )
}

fn build_store(model: &Model, implicit: bool) -> Result<Built, Fail> {
    let regs: Vec<VariationRegion> = model.regions.iter().map(|r| write_region(r)).collect();
    let mut b = if implicit {
        VariationStoreBuilder::new_with_implicit_indices(model.n_axes as u16)
    } else {
        VariationStoreBuilder::new(model.n_axes as u16)
    };
    let mut ids = Vec::with_capacity(model.rows.len());
    for row in &model.rows {
        ids.push(b.add_deltas(row.iter().map(|(ri, d)| (regs[*ri].clone(), *d)).collect::<Vec<_>>()));
    }
    let (store, remap) = b.build();
    let bytes = dump_table(&store).map_err(|e| fail("store-dump", format!("dump_table failed: {e}")))?;
    let mut index = Vec::with_capacity(ids.len());
    for (k, id) in ids.iter().enumerate() {
        let vi = remap.get(*id).ok_or_else(|| fail("remap-missing", format!("row {k}: temporary id {id} has no entry in the returned remapping")))?;
        index.push((vi.delta_set_outer_index, vi.delta_set_inner_index));
    }
    Ok(Built { bytes, index })
}

struct SubT<'a> {
    item_count: usize,
    /// model region index per column (usize::MAX: a region that was never supplied)
    cols: Vec<usize>,
    long: bool,
    words: usize,
    row_len: usize,
    data: &'a [u8],
}

impl SubT<'_> {
    /// independent row decoder (spec: wordDeltaCount low 15 bits = number of word columns, bit 15 = LONG_WORDS)
    fn row(&self, inner: usize) -> Option<Vec<i32>> {
        if inner >= self.item_count {
            return None;
        }
        let mut p = inner * self.row_len;
        let mut out = Vec::with_capacity(self.cols.len());
        for c in 0..self.cols.len() {
            let wide = c < self.words;
            let n = match (wide, self.long) {
                (true, true) => 4,
                (true, false) | (false, true) => 2,
                (false, false) => 1,
            };
            let b = self.data.get(p..p + n)?;
            out.push(match n {
                4 => i32::from_be_bytes([b[0], b[1], b[2], b[3]]),
                2 => i16::from_be_bytes([b[0], b[1]]) as i32,
                _ => b[0] as i8 as i32,
            });
            p += n;
        }
        Some(out)
    }
}

struct ReadBack<'a> {
    store: ItemVariationStore<'a>,
    subs: Vec<Option<SubT<'a>>>,
    n_regions: usize,
}

fn read_back<'a>(bytes: &'a [u8], model: &Model) -> Result<ReadBack<'a>, Fail> {
    let store = ItemVariationStore::read(FontData::new(bytes)).map_err(|e| fail("store-read", format!("ItemVariationStore::read: {e}")))?;
    if store.format() != 1 {
        return Err(fail("store-format", format!("format {}", store.format())));
    }
    let rl = store.variation_region_list().map_err(|e| fail("store-read", format!("region list: {e}")))?;
    if rl.axis_count() as usize != model.n_axes {
        return Err(fail("store-axis-count", format!("region list axis count {} != {}", rl.axis_count(), model.n_axes)));
    }
    let lookup: BTreeMap<&Vec<Tri>, usize> = model.regions.iter().enumerate().map(|(i, r)| (r, i)).collect();
    let mut built_regions: Vec<usize> = vec![];
    for r in rl.variation_regions().iter() {
        let r = r.map_err(|e| fail("store-read", format!("region: {e}")))?;
        let key: Vec<Tri> = r.region_axes().iter().map(|a| (a.start_coord().to_bits(), a.peak_coord().to_bits(), a.end_coord().to_bits())).collect();
        built_regions.push(lookup.get(&key).copied().unwrap_or(usize::MAX));
    }
    if built_regions.len() != rl.region_count() as usize {
        return Err(fail("store-region-count", format!("region_count {} but {} regions readable", rl.region_count(), built_regions.len())));
    }
    let mut subs = vec![];
    for (i, d) in store.item_variation_data().iter().enumerate() {
        let Some(d) = d else {
            subs.push(None);
            continue;
        };
        let d = d.map_err(|e| fail("store-read", format!("ItemVariationData {i}: {e}")))?;
        let wdc = d.word_delta_count();
        let (long, words) = (wdc & 0x8000 != 0, (wdc & 0x7FFF) as usize);
        let n = d.region_index_count() as usize;
        if words > n {
            return Err(fail("store-word-count", format!("subtable {i}: word count {words} > region count {n}")));
        }
        let mut cols = vec![];
        for ri in d.region_indexes() {
            let ri = ri.get() as usize;
            cols.push(*built_regions.get(ri).ok_or_else(|| fail("store-region-index", format!("subtable {i}: region index {ri} >= region count {}", built_regions.len())))?);
        }
        let row_len = if long { words * 4 + (n - words) * 2 } else { words * 2 + (n - words) };
        let data = d.delta_sets();
        if data.len() != row_len * d.item_count() as usize {
            return Err(fail("store-data-len", format!("subtable {i}: {} bytes of delta sets, expected {} rows x {row_len}", data.len(), d.item_count())));
        }
        subs.push(Some(SubT { item_count: d.item_count() as usize, cols, long, words, row_len, data }));
    }
    Ok(ReadBack { store, subs, n_regions: built_regions.len() })
}

/// per-region deltas of a row as a sorted list of non-zero (model region, delta); deltas of repeated regions add up
fn canon(pairs: impl Iterator<Item = (usize, i32)>) -> Vec<(usize, i64)> {
    let mut m: BTreeMap<usize, i64> = BTreeMap::new();
    for (r, d) in pairs {
        *m.entry(r).or_insert(0) += d as i64;
    }
    m.into_iter().filter(|(_, d)| *d != 0).collect()
}

struct StoreInfo {
    n_sub: usize,
    built_rows: usize,
    built_regions: usize,
    long_sub: usize,
    distinct_rows: usize,
}

/// (a) every row retrievable through its remapped index with exactly its deltas
fn check_retrieval(model: &Model, built: &Built, rb: &ReadBack, stats: &Stats) -> Result<StoreInfo, Fail> {
    for (k, row) in model.rows.iter().enumerate() {
        let (outer, inner) = built.index[k];
        let want = canon(row.iter().copied());
        let sub = rb.subs.get(outer as usize).and_then(|s| s.as_ref());
        let got = match sub.and_then(|s| s.row(inner as usize).map(|r| (s, r))) {
            Some((s, vals)) => canon(s.cols.iter().copied().zip(vals.iter().copied())),
            None => vec![], // no data at this index: all deltas are zero
        };
        if got != want {
            return Err(fail(
                "store-retrieval",
                format!("row {k} -> ({outer},{inner}): stored per-region deltas {got:?}, supplied {want:?} (regions by supplied index; {} subtables)", rb.subs.len()),
            ));
        }
        // the library's own row iterator agrees with the independent decoder
        if k % 7 == 0 || model.rows.len() < 100 {
            if let (Some(s), Some(Ok(d))) = (sub, rb.store.item_variation_data().get(outer as usize)) {
                if let Some(vals) = s.row(inner as usize) {
                    let lib: Vec<i32> = d.delta_set(inner).collect();
                    if lib != vals {
                        return Err(fail("delta_set-decode", format!("row {k} ({outer},{inner}): delta_set() yields {lib:?}, bytes decode to {vals:?} (long={}, words={})", s.long, s.words)));
                    }
                }
            }
        }
    }
    stats.evals(model.rows.len() as u64);
    let mut distinct: Vec<Vec<(usize, i64)>> = model.rows.iter().map(|r| canon(r.iter().copied())).collect();
    distinct.sort();
    distinct.dedup();
    Ok(StoreInfo {
        n_sub: rb.subs.iter().flatten().count(),
        built_rows: rb.subs.iter().flatten().map(|s| s.item_count).sum(),
        built_regions: rb.n_regions,
        long_sub: rb.subs.iter().flatten().filter(|s| s.long).count(),
        distinct_rows: distinct.len(),
    })
}

/// (b) compute_delta / compute_float_delta at the given locations for a sample of rows
fn check_eval(model: &Model, built: &Built, rb: &ReadBack, locs: &[Vec<i16>], stats: &Stats) -> CaseResult {
    let n = model.rows.len();
    let sample: Vec<usize> = if n <= 48 {
        (0..n).collect()
    } else {
        let stride = n / 40;
        let mut v: Vec<usize> = (0..40).map(|i| i * stride).collect();
        v.push(n - 1);
        v
    };
    // built region -> supplied region, for the per-region scalar checks
    let lookup: BTreeMap<&Vec<Tri>, usize> = model.regions.iter().enumerate().map(|(i, r)| (r, i)).collect();
    let region_list = rb.store.variation_region_list().map_err(|e| fail("store-read", format!("region list: {e}")))?;
    for loc in locs {
        let scalars: Vec<Scal> = model.regions.iter().map(|r| region_scalar(r, loc)).collect();
        let coords: Vec<F2Dot14> = loc.iter().map(|b| F2Dot14::from_bits(*b)).collect();
        stats.class(match loc.len().cmp(&model.n_axes) {
            std::cmp::Ordering::Less if loc.is_empty() => "eval:location-empty",
            std::cmp::Ordering::Less => "eval:location-shorter-than-axes",
            std::cmp::Ordering::Equal => "eval:location-full",
            std::cmp::Ordering::Greater => "eval:location-longer-than-axes",
        });
        // VariationRegion::compute_scalar / compute_scalar_f32 of every stored region, both against the exact scalar
        for r in region_list.variation_regions().iter() {
            let r = r.map_err(|e| fail("store-read", format!("region: {e}")))?;
            let key: Vec<Tri> = r.region_axes().iter().map(|a| (a.start_coord().to_bits(), a.peak_coord().to_bits(), a.end_coord().to_bits())).collect();
            let Some(&mi) = lookup.get(&key) else { continue };
            let sc = scalars[mi];
            let exact = sc.num as f64 / sc.den as f64;
            let fixed = r.compute_scalar(&coords).to_bits();
            // |fixed/65536 - num/den| <= frac_axes * 2^-17
            if (fixed as i128 * sc.den * 2 - sc.num * 131072).abs() > sc.frac_axes as i128 * sc.den {
                return Err(fail("compute_scalar", format!("region {key:?} at {loc:?} ({} axes): compute_scalar = {fixed} (16.16 raw), exact tent product {}/{} = {:.3} raw", model.n_axes, sc.num, sc.den, exact * 65536.0)));
            }
            let fl = r.compute_scalar_f32(&coords) as f64;
            let ftol = exact * (2.0 * sc.frac_axes as f64) / 8_388_608.0;
            if !((fl - exact).abs() <= ftol) {
                return Err(fail("compute_scalar_f32", format!("region {key:?} at {loc:?} ({} axes): compute_scalar_f32 = {fl}, exact tent product {}/{} = {exact}", model.n_axes, sc.num, sc.den)));
            }
            // the two paths against each other
            if (fl - fixed as f64 / 65536.0).abs() > sc.frac_axes as f64 / 131072.0 + ftol {
                return Err(fail("scalar-paths-differ", format!("region {key:?} at {loc:?}: compute_scalar = {} but compute_scalar_f32 = {fl}", fixed as f64 / 65536.0)));
            }
            stats.evals(2);
        }
        for &k in &sample {
            let (outer, inner) = built.index[k];
            let ix = DeltaSetIndex { outer, inner };
            let e = exact_delta(&model.rows[k], &scalars);
            if loc.is_empty() && (e.int != 0 || e.frac != 0.0) {
                // an empty location is the default instance, which has no deltas by definition; a region that the formula leaves
                // active at the origin (every axis ignored) contradicts that, so such rows have no specified value there
                stats.class("eval:empty-location-with-always-on-region(skipped)");
                continue;
            }
            let got = rb.store.compute_delta(ix, &coords).map_err(|e| fail("compute_delta-err", format!("row {k} ({outer},{inner}) at {loc:?}: {e}")))?;
            let diff = (got as i128 - e.int) as f64 - e.frac;
            // the result type is i32: sums that do not fit have no specified value
            let representable = e.value().abs() + e.tol_fixed < 2_147_483_000.0;
            if !representable {
                stats.class("eval:sum-outside-i32(skipped)");
            }
            if representable && diff.abs() > e.tol_fixed + 1e-9 {
                return Err(fail(
                    "compute_delta",
                    format!("row {k} {:?} at {loc:?}: compute_delta = {got}, exact sum of scalar x delta = {} (|diff| {} > bound {})", model.rows[k], e.value(), diff.abs(), e.tol_fixed),
                ));
            }
            let fd = rb.store.compute_float_delta(ix, &coords).map_err(|e| fail("compute_float_delta-err", format!("row {k} at {loc:?}: {e}")))?;
            let gf = FWord::new(0).apply_float_delta(fd) as f64;
            let fdiff = gf - e.value();
            if !(fdiff.abs() <= e.tol_float + e.value().abs() / 4_194_304.0) {
                return Err(fail(
                    "compute_float_delta",
                    format!("row {k} {:?} at {loc:?}: compute_float_delta = {gf}, exact = {} (|diff| {} > bound {})", model.rows[k], e.value(), fdiff.abs(), e.tol_float),
                ));
            }
            // fixed-point and float paths against each other
            if representable && (got as f64 - gf).abs() > e.tol_fixed + e.tol_float + e.value().abs() / 4_194_304.0 + 1e-9 {
                return Err(fail("delta-paths-differ", format!("row {k} {:?} at {loc:?}: compute_delta = {got} but compute_float_delta = {gf}", model.rows[k])));
            }
            stats.evals(2);
            if model.rows[k].iter().any(|(ri, d)| *d != 0 && scalars[*ri].num != 0 && scalars[*ri].frac_axes >= 2) {
                stats.class("eval:region-with>=2-fractional-axes");
            }
            if e.is_integer() {
                stats.class("eval:exact-integer");
            } else {
                stats.class("eval:fractional");
            }
        }
    }
    Ok(())
}

#[derive(Clone, Debug, Serialize, Deserialize)]
struct StoreCase {
    implicit: bool,
    spec: StoreSpec,
    locs: Vec<Vec<Coord>>,
    /// length code per location (cycled), see `lens_strategy`
    #[serde(default)]
    lens: Vec<u8>,
}

fn small_count() -> BoxedStrategy<u32> {
    prop_oneof![6 => Just(1u32), 2 => 2u32..6, 1 => 6u32..60].boxed()
}

fn store_strategy() -> impl Strategy<Value = StoreCase> {
    (any::<bool>(), store_spec(1..40, small_count(), 4, 6), locs_strategy(1..5), lens_strategy()).prop_map(|(implicit, spec, locs, lens)| StoreCase { implicit, spec, locs, lens })
}

fn big_count(max: u32) -> BoxedStrategy<u32> {
    prop_oneof![3 => 1u32..400, 3 => 400u32..4000, 1 => 4000u32..max].boxed()
}

fn big_store_strategy(max: u32) -> impl Strategy<Value = StoreCase> {
    (prop_oneof![3 => Just(false), 1 => Just(true)], store_spec(1..7, big_count(max), 4, 5), locs_strategy(1..3), lens_strategy()).prop_map(|(implicit, spec, locs, lens)| StoreCase { implicit, spec, locs, lens })
}

/// fixed cases with more than 65535 distinct rows of one shape (the builder must split them over subtables)
fn huge_case(i: u64) -> StoreCase {
    let regions = vec![vec![(0, 16384, 16384)], vec![(0, 8192, 16384)], vec![(-16384, -16384, 0)]];
    let (shape, base, step, count) = match i {
        // 16-bit + 32-bit column, every row distinct, ascending
        0 => (vec![(0u32, 2u8), (0x6000_0000, 3)], vec![5, 100_000], vec![1, 7], 70_000u32),
        // descending 32-bit values next to a small group of another shape
        1 => (vec![(0xC000_0000u32, 3u8)], vec![1 << 30], vec![-3], 66_000),
        // 8-bit + 16-bit + 32-bit, widths varying with the row: several encodings, the largest split once
        2 => (vec![(0u32, 1u8), (0x6000_0000, 2), (0xC000_0000, 3)], vec![0, 0, 0], vec![1, 1, 1], 140_000),
        // one encoding (every value needs 32 bits) of exactly 2 x 65535 + 1 rows: two full subtables and a one-row remainder
        3 => (vec![(0u32, 3u8)], vec![100_000], vec![1], 131_071),
        // 200000 rows of one shape (constant 16-bit column + distinct 32-bit column): three full subtables and a remainder
        4 => (vec![(0x6000_0000u32, 2u8), (0xC000_0000, 3)], vec![1000, -40_000], vec![0, -1], 200_000),
        // thorough only: counts around the multiples of 65535
        5 => (vec![(0u32, 3u8)], vec![100_000], vec![1], 131_070),
        6 => (vec![(0u32, 3u8)], vec![-100_000], vec![-1], 131_072),
        7 => (vec![(0x6000_0000u32, 3u8), (0xC000_0000, 2)], vec![1 << 20, 300], vec![3, 0], 196_605),
        8 => (vec![(0x6000_0000u32, 3u8), (0xC000_0000, 2)], vec![1 << 20, 300], vec![3, 0], 196_606),
        9 => (vec![(0u32, 3u8), (0x6000_0000, 3), (0xC000_0000, 3)], vec![70_000, -70_000, 1 << 24], vec![1, -1, 5], 262_141),
        _ => (vec![(0xC000_0000u32, 3u8)], vec![-(1 << 30)], vec![7], 300_000),
    };
    let spec = StoreSpec {
        n_axes: 1,
        regions,
        shapes: vec![shape, vec![(0, 1)]],
        groups: vec![Group { shape: 0, count, base, step }, Group { shape: 0x8000_0000, count: 300, base: vec![1], step: vec![1] }],
        order: [0, 0, 3, 0, 1, 3, 2, 0, 3, 1, 3][(i as usize).min(10)],
    };
    StoreCase { implicit: false, spec, locs: vec![vec![Coord::Bits(12288)], vec![Coord::Bits(-16384)]], lens: vec![255, 3] }
}

fn test_store(c: &StoreCase, stats: &Stats) -> CaseResult {
    let mut model = expand(&c.spec);
    if model.rows.is_empty() {
        model.rows.push(vec![]);
    }
    if c.implicit && model.rows.len() > 0xFFFF {
        // one subtable holds at most 65535 rows: outside the domain of the implicit-index mode
        model.rows.truncate(0xFFFF);
        stats.class("implicit-truncated-to-65535");
    }
    let built = build_store(&model, c.implicit)?;
    let rb = read_back(&built.bytes, &model)?;
    let info = check_retrieval(&model, &built, &rb, stats)?;
    let full = resolve_locs(&model, &c.locs);
    let locs: Vec<Vec<i16>> = full.iter().enumerate().map(|(i, f)| shape_loc(&model, f, &c.locs[i], if c.lens.is_empty() { 255 } else { c.lens[i % c.lens.len()] })).collect();
    check_eval(&model, &built, &rb, &locs, stats)?;

    stats.class(if c.implicit { "mode:implicit" } else { "mode:dedup" });
    stats.class(match model.rows.len() {
        0..=9 => "rows<10",
        10..=99 => "rows<100",
        100..=999 => "rows<1000",
        1000..=9999 => "rows<10000",
        10000..=65535 => "rows<=65535",
        _ => "rows>65535",
    });
    let pruned = info.built_regions < model.regions.len();
    let merged = info.built_rows < model.rows.len();
    if info.n_sub >= 2 {
        stats.class("subtables>=2");
    }
    if info.n_sub >= 4 {
        stats.class("subtables>=4");
    }
    if pruned {
        stats.class("regions-pruned");
    }
    if merged {
        stats.class("rows-deduplicated");
    }
    if info.long_sub > 0 {
        stats.class("long-words");
    }
    if model.rows.iter().any(|r| r.iter().all(|(_, d)| *d == 0)) {
        stats.class("has-all-zero-row");
    }
    if info.n_sub >= 2 || pruned || merged {
        stats.nontrivial(hash_json(&(&c.implicit, &c.spec)));
        if stats.want_sample() {
            stats.sample(serde_json::json!({"implicit": c.implicit, "axes": model.n_axes, "regions_supplied": model.regions.len(), "regions_built": info.built_regions,
                "rows": model.rows.len(), "distinct_rows": info.distinct_rows, "rows_built": info.built_rows, "subtables": info.n_sub, "long_subtables": info.long_sub,
                "first_row": model.rows.first(), "loc0": locs.first()}));
        }
    }
    Ok(())
}

// =====================================================================================================
// axis normalisation
// =====================================================================================================

/// (min, default, max) as 16.16 raw values, min <= default <= max
type AxisTri = (i32, i32, i32);

#[derive(Clone, Debug, Serialize, Deserialize)]
enum UserVal {
    Min(i8),
    Default(i8),
    Max(i8),
    /// a point of the lower (min..default) or upper (default..max) segment
    Between { lower: bool, t: u32 },
    Raw(i32),
    /// far outside every axis (as f32: +-1e30 / +-inf)
    Huge { neg: bool, inf: bool },
}

fn resolve_val(a: AxisTri, v: &UserVal) -> i32 {
    let cl = |x: i64| x.clamp(i32::MIN as i64, i32::MAX as i64) as i32;
    match v {
        UserVal::Min(o) => cl(a.0 as i64 + *o as i64),
        UserVal::Default(o) => cl(a.1 as i64 + *o as i64),
        UserVal::Max(o) => cl(a.2 as i64 + *o as i64),
        UserVal::Between { lower, t } => {
            let (x, y) = if *lower { (a.0 as i64, a.1 as i64) } else { (a.1 as i64, a.2 as i64) };
            cl(x + (((y - x) as i128 * *t as i128) >> 32) as i64)
        }
        UserVal::Raw(r) => *r,
        UserVal::Huge { neg, .. } => {
            if *neg {
                i32::MIN
            } else {
                i32::MAX
            }
        }
    }
}

fn userval_strategy() -> impl Strategy<Value = UserVal> {
    prop_oneof![
        3 => (-2i8..=2).prop_map(UserVal::Min),
        3 => (-2i8..=2).prop_map(UserVal::Default),
        3 => (-2i8..=2).prop_map(UserVal::Max),
        6 => (any::<bool>(), any::<u32>()).prop_map(|(lower, t)| UserVal::Between { lower, t }),
        1 => (any::<bool>(), Just(0x8000_0000u32)).prop_map(|(lower, t)| UserVal::Between { lower, t }),
        2 => any::<i32>().prop_map(UserVal::Raw),
        1 => (-2000i32..2000).prop_map(|x| UserVal::Raw(x * 65536)),
        1 => (any::<bool>(), any::<bool>()).prop_map(|(neg, inf)| UserVal::Huge { neg, inf }),
    ]
}

fn sort3(a: i32, b: i32, c: i32) -> AxisTri {
    let mut v = [a, b, c];
    v.sort();
    (v[0], v[1], v[2])
}

/// axes whose one-sided spans (default-min, max-default) fit the 16.16 value range
fn axis_strategy() -> BoxedStrategy<AxisTri> {
    let typical: Vec<AxisTri> = vec![(100, 400, 900), (50, 100, 200), (8, 14, 144), (-15, 0, 0), (0, 0, 1), (0, 0, 0), (1, 1000, 1000), (-90, 0, 90), (-1, 0, 1), (0, 0, 100)]
        .into_iter()
        .map(|(a, b, c)| (a * 65536, b * 65536, c * 65536))
        .collect();
    prop_oneof![
        3 => proptest::sample::select(typical),
        3 => (-1000i32..=1000, -1000i32..=1000, -1000i32..=1000).prop_map(|(a, b, c)| sort3(a * 65536, b * 65536, c * 65536)),
        3 => (-(1i32 << 26)..(1i32 << 26), 0i32..(1 << 22), 0i32..(1 << 22)).prop_map(|(m, a, b)| (m, m + a, m + a + b)),
        1 => (any::<i16>(), any::<i16>(), 0u8..3).prop_map(|(x, y, k)| {
            let (x, y) = ((x.min(y) as i32) * 4096, (x.max(y) as i32) * 4096);
            match k { 0 => (x, x, y), 1 => (x, y, y), _ => (x, x, x) }
        }),
        1 => (-(1i32 << 30)..(1i32 << 30), 0i32..4, 0i32..4).prop_map(|(d, a, b)| (d - a, d, d + b)),
        2 => (any::<i32>(), 0i32..=i32::MAX, 0i32..=i32::MAX).prop_map(|(m, a, b)| {
            let d = (m as i64 + a as i64).min(i32::MAX as i64);
            let x = (d + b as i64).min(i32::MAX as i64);
            (m, d as i32, x as i32)
        }),
    ]
    .boxed()
}

/// exact normalised value num/den (den > 0) of a 16.16 raw user value
fn normalize_exact(a: AxisTri, v: i32) -> (i128, i128) {
    let (min, d, max) = (a.0 as i128, a.1 as i128, (a.2.max(a.0)) as i128);
    let v = (v as i128).clamp(min, max);
    if v < d {
        (-(d - v), d - min)
    } else if v > d {
        (v - d, max - d)
    } else {
        (0, 1)
    }
}

fn axis_tag(i: usize) -> [u8; 4] {
    [b'A' + (i as u8 % 26), b'x', b'0' + (i as u8 / 26), b's']
}

fn kit_axes(axes: &[AxisTri]) -> Vec<Axis> {
    axes.iter().enumerate().map(|(i, a)| Axis { tag: axis_tag(i), min: a.0, default: a.1, max: a.2 }).collect()
}

#[derive(Clone, Debug, Serialize, Deserialize)]
struct NormCase {
    axes: Vec<AxisTri>,
    values: Vec<UserVal>,
}

fn norm_strategy() -> impl Strategy<Value = NormCase> {
    (proptest::collection::vec(axis_strategy(), 1..4), proptest::collection::vec(userval_strategy(), 1..24)).prop_map(|(axes, values)| NormCase { axes, values })
}

fn check_normalize(axes: &[AxisTri], values: &[UserVal], sig_suffix: &str, stats: &Stats) -> CaseResult {
    let bytes = fvar_bytes(&kit_axes(axes));
    let fvar = Fvar::read(FontData::new(&bytes)).map_err(|e| fail("fvar-read", format!("{e}")))?;
    let records = fvar.axes().map_err(|e| fail("fvar-read", format!("{e}")))?;
    if records.len() != axes.len() {
        return Err(fail("fvar-read", format!("{} axis records for {} axes", records.len(), axes.len())));
    }
    // with a suffix (known-finding stage) a value mismatch is reported only after the other predicates were checked
    let mut deferred: Option<Fail> = None;
    for (i, a) in axes.iter().enumerate() {
        let rec = &records[i];
        let mut pts: Vec<(i32, i32)> = vec![];
        // always include the three defining points
        let vals = values.iter().map(|v| resolve_val(*a, v)).chain([a.0, a.1, a.2]);
        for v in vals {
            let got = rec.normalize(Fixed::from_bits(v)).to_bits();
            let (num, den) = normalize_exact(*a, v);
            let what = || format!("axis (min {}, default {}, max {}) [16.16 raw] value {v}", a.0, a.1, a.2);
            if num == 0 || num == den || num == -den {
                let want = (num / den) as i32 * 65536;
                if got != want {
                    let site = if v < a.0 || v > a.2 { "normalize-clamp" } else if num == 0 { "normalize-default" } else { "normalize-endpoint" };
                    return Err(fail(&format!("{site}{sig_suffix}"), format!("{}: normalize = {got} (16.16 raw), specified exactly {want}", what())));
                }
                stats.class("norm:exact-point");
            } else {
                // |got/65536 - num/den| <= 2^-16
                let err = (got as i128 * den - num * 65536).abs();
                if err > den {
                    let f = fail(&format!("normalize-value{sig_suffix}"), format!("{}: normalize = {got} (16.16 raw), exact {}/{} = {:.7}", what(), num, den, num as f64 / den as f64 * 65536.0));
                    if sig_suffix.is_empty() {
                        return Err(f);
                    }
                    deferred.get_or_insert(f);
                }
                stats.class("norm:interior");
            }
            if !(-65536..=65536).contains(&got) {
                return Err(fail(&format!("normalize-range{sig_suffix}"), format!("{}: normalize = {got} outside [-1, 1]", what())));
            }
            pts.push((v, got));
            stats.evals(1);
        }
        pts.sort();
        for w in pts.windows(2) {
            if w[1].1 < w[0].1 {
                return Err(fail(&format!("normalize-monotone{sig_suffix}"), format!("axis {a:?}: normalize({}) = {} > normalize({}) = {}", w[0].0, w[0].1, w[1].0, w[1].1)));
            }
        }
    }
    match deferred {
        Some(f) => Err(f),
        None => Ok(()),
    }
}

/// axes with a one-sided span beyond the 16.16 value range (default - min or max - default > 32767.99998)
fn widespan_strategy() -> impl Strategy<Value = NormCase> {
    let lo = (1i64 << 30) + 1..=(1i64 << 31);
    let hi = (1i64 << 30)..=(i32::MAX as i64);
    (any::<bool>(), lo, hi, 0i32..=1000, proptest::collection::vec(userval_strategy(), 1..24)).prop_map(|(upper, x, y, z, values)| {
        let axis = if upper { ((-x as i32).saturating_sub(z), -x as i32, y as i32) } else { (-x as i32, y as i32, (y as i32).saturating_add(z)) };
        NormCase { axes: vec![axis], values }
    })
}
fn test_widespan(c: &NormCase, stats: &Stats) -> CaseResult {
    check_normalize(&c.axes, &c.values, "|span>32767", stats)
}

fn test_norm(c: &NormCase, stats: &Stats) -> CaseResult {
    check_normalize(&c.axes, &c.values, "", stats)?;
    for a in &c.axes {
        stats.class(if a.0 == a.1 && a.1 == a.2 {
            "axis:point"
        } else if a.0 == a.1 || a.1 == a.2 {
            "axis:one-sided"
        } else {
            "axis:two-sided"
        });
        if (a.1 as i64 - a.0 as i64) > (1 << 30) || (a.2 as i64 - a.1 as i64) > (1 << 30) {
            stats.class("axis:span>16384-units");
        }
    }
    if c.axes.iter().any(|a| a.0 < a.1 || a.1 < a.2) && c.values.len() >= 2 {
        stats.nontrivial(hash_json(c));
        if stats.want_sample() {
            stats.sample(serde_json::json!({"stage": "normalize", "axes": c.axes, "values": c.values.len()}));
        }
    }
    Ok(())
}

// =====================================================================================================
// avar segment maps
// =====================================================================================================

/// valid per spec: empty, or contains -1->-1, 0->0, 1->1, `from` strictly increasing, `to` non-decreasing (2.14 bits)
type SegMap = Vec<(i16, i16)>;

fn segmap_strategy() -> BoxedStrategy<SegMap> {
    let from = || prop_oneof![6 => 1i16..16384, 1 => Just(1i16), 1 => Just(16383i16), 1 => Just(8192i16), 1 => Just(8191i16)];
    let to = || prop_oneof![6 => 0i16..=16384, 1 => Just(0i16), 1 => Just(16384i16)];
    let side = move || proptest::collection::vec((from(), to()), 0..5);
    prop_oneof![
        1 => Just(vec![]),
        1 => Just(vec![(-16384i16, -16384i16), (0, 0), (16384, 16384)]),
        8 => (side(), side()).prop_map(|(neg, pos)| {
            let build = |pairs: &[(i16, i16)], sign: i16| -> Vec<(i16, i16)> {
                let mut f: Vec<i16> = pairs.iter().map(|p| p.0 * sign).collect();
                f.sort();
                f.dedup();
                let mut t: Vec<i16> = pairs.iter().map(|p| p.1 * sign).collect();
                t.sort();
                f.into_iter().zip(t).collect()
            };
            let mut m = vec![(-16384i16, -16384i16)];
            m.extend(build(&neg, -1));
            m.push((0, 0));
            m.extend(build(&pos, 1));
            m.push((16384, 16384));
            m
        }),
    ]
    .boxed()
}

fn valid_segmap(m: &SegMap) -> bool {
    m.is_empty()
        || (m.windows(2).all(|w| w[0].0 < w[1].0 && w[0].1 <= w[1].1) && [(-16384i16, -16384i16), (0, 0), (16384, 16384)].iter().all(|p| m.contains(p)))
}

fn avar_bytes(maps: &[SegMap]) -> Vec<u8> {
    let mut v = vec![0, 1, 0, 0, 0, 0];
    v.extend_from_slice(&(maps.len() as u16).to_be_bytes());
    for m in maps {
        v.extend_from_slice(&(m.len() as u16).to_be_bytes());
        for (f, t) in m {
            v.extend_from_slice(&f.to_be_bytes());
            v.extend_from_slice(&t.to_be_bytes());
        }
    }
    v
}

/// exact piecewise-linear value (16.16 raw units, as num/den) at the rational coordinate cn/cd (16.16 raw units)
fn avar_exact(map: &SegMap, cn: i128, cd: i128) -> (i128, i128) {
    if map.is_empty() {
        return (cn, cd);
    }
    let f = |k: usize| map[k].0 as i128 * 4;
    let t = |k: usize| map[k].1 as i128 * 4;
    if cn < f(0) * cd || cn > f(map.len() - 1) * cd {
        return (cn, cd);
    }
    for k in 0..map.len() {
        if cn == f(k) * cd {
            return (t(k), 1);
        }
        if cn < f(k) * cd {
            let (f0, f1, t0, t1) = (f(k - 1), f(k), t(k - 1), t(k));
            return (t0 * cd * (f1 - f0) + (t1 - t0) * (cn - f0 * cd), cd * (f1 - f0));
        }
    }
    (cn, cd)
}

#[derive(Clone, Debug, Serialize, Deserialize)]
enum Query {
    /// a map point, +- off 16.16 ulps
    Point { k: u32, off: i8 },
    /// between map point k and k+1
    Mid { k: u32, t: u32 },
    Raw(i32),
}

fn query_strategy() -> impl Strategy<Value = Query> {
    prop_oneof![
        5 => (any::<u32>(), -2i8..=2).prop_map(|(k, off)| Query::Point { k, off }),
        5 => (any::<u32>(), any::<u32>()).prop_map(|(k, t)| Query::Mid { k, t }),
        1 => (any::<u32>(), Just(0x8000_0000u32)).prop_map(|(k, t)| Query::Mid { k, t }),
        3 => (-65536i32..=65536).prop_map(Query::Raw),
    ]
}

fn resolve_query(map: &SegMap, q: &Query) -> i32 {
    let ident = vec![(-16384i16, -16384i16), (0, 0), (16384, 16384)];
    let m = if map.is_empty() { &ident } else { map };
    let r = match q {
        Query::Point { k, off } => m[pick(*k, m.len())].0 as i32 * 4 + *off as i32,
        Query::Mid { k, t } => {
            let i = pick(*k, m.len() - 1);
            let (a, b) = (m[i].0 as i64 * 4, m[i + 1].0 as i64 * 4);
            (a + (((b - a) * *t as i64) >> 32)) as i32
        }
        Query::Raw(r) => *r,
    };
    r.clamp(-65536, 65536)
}

#[derive(Clone, Debug, Serialize, Deserialize)]
struct AvarCase {
    maps: Vec<SegMap>,
    queries: Vec<Query>,
}

fn avar_strategy() -> impl Strategy<Value = AvarCase> {
    (proptest::collection::vec(segmap_strategy(), 1..4), proptest::collection::vec(query_strategy(), 1..24)).prop_map(|(maps, queries)| AvarCase { maps, queries })
}

fn test_avar(c: &AvarCase, stats: &Stats) -> CaseResult {
    if !c.maps.iter().all(valid_segmap) {
        return Err(fail("harness-invalid-segmap", format!("generated segment map is not valid: {:?}", c.maps)));
    }
    let bytes = avar_bytes(&c.maps);
    let avar = Avar::read(FontData::new(&bytes)).map_err(|e| fail("avar-read", format!("{e}")))?;
    if avar.axis_count() as usize != c.maps.len() {
        return Err(fail("avar-read", format!("axis_count {} for {} maps", avar.axis_count(), c.maps.len())));
    }
    for (i, map) in c.maps.iter().enumerate() {
        let sm = avar.axis_segment_maps().get(i).ok_or_else(|| fail("avar-read", format!("segment map {i} missing")))?.map_err(|e| fail("avar-read", format!("segment map {i}: {e}")))?;
        let read: SegMap = sm.axis_value_maps().iter().map(|p| (p.from_coordinate().to_bits(), p.to_coordinate().to_bits())).collect();
        if &read != map {
            return Err(fail("avar-read", format!("segment map {i} reads back as {read:?}, written {map:?}")));
        }
        let mut pts: Vec<(i32, i32)> = vec![];
        let all_points: Vec<Query> = (0..map.len().max(3)).map(|k| Query::Raw(if map.is_empty() { [-65536, 0, 65536][k] } else { map[k].0 as i32 * 4 })).collect();
        for q in c.queries.iter().chain(all_points.iter()) {
            let x = resolve_query(map, q);
            let got = sm.apply(Fixed::from_bits(x)).to_bits();
            let (num, den) = avar_exact(map, x as i128, 1);
            if den == 1 {
                if got as i128 != num {
                    return Err(fail("avar-point", format!("map {map:?}: apply({x}) = {got} (16.16 raw), specified exactly {num}")));
                }
                stats.class("avar:at-map-point-or-identity");
            } else {
                if (got as i128 * den - num).abs() > den {
                    return Err(fail("avar-interpolation", format!("map {map:?}: apply({x}) = {got} (16.16 raw), linear interpolation gives {:.4}", num as f64 / den as f64)));
                }
                stats.class("avar:between-points");
            }
            pts.push((x, got));
            stats.evals(1);
        }
        pts.sort();
        for w in pts.windows(2) {
            if w[1].1 < w[0].1 {
                return Err(fail("avar-monotone", format!("map {map:?}: apply({}) = {} > apply({}) = {}", w[0].0, w[0].1, w[1].0, w[1].1)));
            }
        }
    }
    if c.maps.iter().any(|m| m.len() > 3) {
        stats.nontrivial(hash_json(c));
        if stats.want_sample() {
            stats.sample(serde_json::json!({"stage": "avar", "maps": c.maps, "queries": c.queries.len()}));
        }
    }
    stats.class(match c.maps.iter().map(|m| m.len()).max().unwrap_or(0) {
        0 => "avar:maxpoints=0",
        1..=3 => "avar:maxpoints=3",
        4..=6 => "avar:maxpoints<=6",
        _ => "avar:maxpoints>6",
    });
    Ok(())
}

// =====================================================================================================
// skrifa AxisCollection::location = normalise o avar, 16.16 -> 2.14
// =====================================================================================================

#[derive(Clone, Debug, Serialize, Deserialize)]
struct LocCase {
    axes: Vec<AxisTri>,
    /// one segment map per axis, or no avar table
    avar: Option<Vec<SegMap>>,
    /// (raw axis selector: one extra slot selects an unknown tag, value); a setting names the selected record's tag
    /// and thereby every record sharing that tag; the value is resolved against the selected record
    settings: Vec<(u32, UserVal)>,
    /// tag id per axis record (cycled; empty = all distinct): records may share a tag (non-linear-interpolation layout),
    /// each is normalised with its own min/default/max and its own segment map
    #[serde(default)]
    tags: Vec<u8>,
    /// caller-supplied output buffers for the slice-writing APIs: (length 0..=axes+3, fill kind: 0 constant, 1 all -1.0,
    /// 2 varying per index, 3 the location with every tag set to +inf, i.e. a previous, different result)
    #[serde(default)]
    bufs: Vec<(u8, u8)>,
}

fn loc_strategy() -> impl Strategy<Value = LocCase> {
    (1usize..=5).prop_flat_map(|n| {
        (
            proptest::collection::vec(axis_strategy(), n),
            prop_oneof![1 => Just(None), 3 => proptest::collection::vec(segmap_strategy(), n).prop_map(Some)],
            proptest::collection::vec((any::<u32>(), userval_strategy()), 0..8),
            prop_oneof![2 => Just(vec![]), 3 => proptest::collection::vec(0u8..3, n), 1 => proptest::collection::vec(0u8..2, n)],
            proptest::collection::vec((prop_oneof![3 => Just(n as u8), 2 => 0u8..=(n as u8 + 3)], 0u8..4), 1..3),
        )
            .prop_map(|(axes, avar, settings, tags, bufs)| LocCase { axes, avar, settings, tags, bufs })
    })
}

/// the specified 16.16 -> 2.14 conversion: add 2, arithmetic shift right by 2
fn to_2dot14(x: i32) -> i16 {
    (x.wrapping_add(2) >> 2) as i16
}

fn user_f32(a: AxisTri, v: &UserVal) -> (f32, i32) {
    let f = match v {
        UserVal::Huge { neg, inf } => {
            let m = if *inf { f32::INFINITY } else { 1e30 };
            if *neg { -m } else { m }
        }
        _ => resolve_val(a, v) as f32 / 65536.0,
    };
    // every f32 produced above is a multiple of 2^-16 (or out of range): its 16.16 value is exact
    let raw = (f as f64 * 65536.0).clamp(i32::MIN as f64, i32::MAX as f64) as i64 as i32;
    (f, raw)
}

fn floor_div(n: i128, d: i128) -> i128 {
    n.div_euclid(d)
}
fn ceil_div(n: i128, d: i128) -> i128 {
    -((-n).div_euclid(d))
}

fn test_loc(c: &LocCase, stats: &Stats) -> CaseResult {
    let n = c.axes.len();
    if let Some(m) = &c.avar {
        if !m.iter().all(valid_segmap) || m.len() != n {
            return Err(fail("harness-invalid-segmap", format!("generated avar is not valid: {m:?}")));
        }
    }
    let tag_id = |i: usize| -> usize { if c.tags.is_empty() { i } else { c.tags[i % c.tags.len()] as usize } };
    let mut kaxes = kit_axes(&c.axes);
    for (i, a) in kaxes.iter_mut().enumerate() {
        a.tag = axis_tag(tag_id(i));
    }
    let mut kit = Kit { num_glyphs: 1, upem: 1000, axes: kaxes, ..Default::default() };
    if let Some(m) = &c.avar {
        kit.extra.push((*b"avar", avar_bytes(m)));
    }
    let data = kit.build();
    let font = FontRef::new(&data).map_err(|e| fail("font-open", format!("{e}")))?;
    // settings as handed to skrifa, and the model's last value per axis
    let mut settings: Vec<(Tag, f32)> = vec![];
    let mut last: Vec<Option<(f32, i32)>> = vec![None; n];
    for (sel, v) in &c.settings {
        let i = pick(*sel, n + 1);
        if i == n {
            settings.push((Tag::new(b"zzzz"), match v { UserVal::Raw(r) => *r as f32 / 65536.0, _ => 1.0 }));
            stats.class("loc:unknown-tag-setting");
        } else {
            let (f, raw) = user_f32(c.axes[i], v);
            settings.push((Tag::new(&axis_tag(tag_id(i))), f));
            if last[i].is_some() {
                stats.class("loc:repeated-axis-setting");
            }
            // documented: the last setting for a tag wins, and it applies to every record with that tag
            for j in 0..n {
                if tag_id(j) == tag_id(i) {
                    last[j] = Some((f, raw));
                    if j != i {
                        stats.class("loc:setting-applies-to-other-record-with-same-tag");
                    }
                }
            }
        }
    }
    let axes = font.axes();
    if axes.len() != n {
        return Err(fail("location-len", format!("AxisCollection::len {} for {n} axes", axes.len())));
    }
    let location = axes.location(settings.iter().copied());
    let got: Vec<i16> = location.coords().iter().map(|c| c.to_bits()).collect();
    if got.len() != n {
        return Err(fail("location-len", format!("location has {} coordinates for {n} axes", got.len())));
    }
    let fvar = font.fvar().map_err(|e| fail("fvar-read", format!("{e}")))?;
    let records = fvar.axes().map_err(|e| fail("fvar-read", format!("{e}")))?;
    let avar = font.avar().ok();
    if avar.is_some() != c.avar.is_some() {
        return Err(fail("avar-read", "avar presence differs".into()));
    }
    for i in 0..n {
        let a = c.axes[i];
        let what = |extra: String| format!("axis record {i} {a:?} (record tags {:?}) avar {:?} settings {settings:?}: location = {got:?}; {extra}", (0..n).map(tag_id).collect::<Vec<_>>(), c.avar.as_ref().map(|m| &m[i]));
        let Some((f, raw)) = last[i] else {
            if got[i] != 0 {
                return Err(fail("location-omitted", what("an axis without a setting must be at 0".into())));
            }
            stats.class("loc:axis-omitted");
            continue;
        };
        // (1) composition of the separately checked parts with the specified rounding
        let n16 = records[i].normalize(Fixed::from_bits(raw));
        let mapped = match &avar {
            Some(av) => match av.axis_segment_maps().get(i) {
                Some(Ok(sm)) => sm.apply(n16),
                _ => return Err(fail("avar-read", format!("segment map {i} unreadable"))),
            },
            None => n16,
        };
        let want = to_2dot14(mapped.to_bits());
        if got[i] != want {
            return Err(fail("location-composition", what(format!("user value {f} (16.16 raw {raw}) normalises to {} -> avar {} -> 2.14 {want}", n16.to_bits(), mapped.to_bits()))));
        }
        // (2) independent bracket from the exact formulas
        let (num, den) = normalize_exact(a, raw);
        let ident = vec![];
        let map = c.avar.as_ref().map(|m| &m[i]).unwrap_or(&ident);
        let lo_n = (num * 65536 - den).max(-65536 * den);
        let hi_n = (num * 65536 + den).min(65536 * den);
        let (ln, ld) = avar_exact(map, lo_n, den);
        let (hn, hd) = avar_exact(map, hi_n, den);
        let lo16 = floor_div(ln, ld) - 1;
        let hi16 = ceil_div(hn, hd) + 1;
        let (lo, hi) = ((lo16 + 2) >> 2, (hi16 + 2) >> 2);
        if (got[i] as i128) < lo || (got[i] as i128) > hi {
            return Err(fail("location-value", what(format!("user value {f}: exact normalised {num}/{den}, mapped value must lie in [{lo}, {hi}] (2.14 bits)"))));
        }
        if num == 0 || num == den || num == -den {
            let exact = (num / den) as i16 * 16384;
            if got[i] != exact {
                return Err(fail("location-endpoint", what(format!("user value {f} is at/outside min/default/max: specified exactly {exact}"))));
            }
            stats.class("loc:min/default/max/clamped");
        } else {
            stats.class("loc:interior");
        }
        // skrifa's per-axis normalize (no avar)
        if f.is_finite() {
            let ax = axes.get(i).ok_or_else(|| fail("location-len", format!("axes.get({i}) is None")))?;
            let g = ax.normalize(f).to_bits();
            if g != to_2dot14(n16.to_bits()) {
                return Err(fail("axis-normalize", what(format!("Axis::normalize({f}) = {g}, expected {}", to_2dot14(n16.to_bits())))));
            }
        }
        stats.evals(1);
    }
    // slice-writing APIs with a dirty caller-supplied buffer: the result is independent of the previous content; documented:
    // axes without a setting are 0, a shorter buffer ignores the out-of-bounds axes, excess entries are filled with zeros
    for (len, kind) in &c.bufs {
        let len = (*len as usize).min(n + 3);
        let previous: Vec<i16> = match kind {
            0 => vec![0x1234; len],
            1 => vec![-16384; len],
            2 => (0..len).map(|k| 1000 + 77 * k as i16).collect(),
            _ => {
                let all_max: Vec<(Tag, f32)> = (0..n).map(|i| (Tag::new(&axis_tag(tag_id(i))), f32::INFINITY)).collect();
                let prev = axes.location(all_max);
                (0..len).map(|k| prev.coords().get(k).map(|c| c.to_bits()).filter(|b| *b != 0).unwrap_or(-8192)).collect()
            }
        };
        let want: Vec<i16> = (0..len).map(|k| got.get(k).copied().unwrap_or(0)).collect();
        let mut buf: Vec<F2Dot14> = previous.iter().map(|b| F2Dot14::from_bits(*b)).collect();
        axes.location_to_slice(settings.iter().copied(), &mut buf);
        let out: Vec<i16> = buf.iter().map(|c| c.to_bits()).collect();
        if out != want {
            return Err(fail("location_to_slice-dirty-buffer", format!("{n} axis records (tags {:?}), settings {settings:?}: location_to_slice into a buffer holding {previous:?} gives {out:?}, location() gives {got:?} (expected {want:?})", (0..n).map(tag_id).collect::<Vec<_>>())));
        }
        let mut buf: Vec<F2Dot14> = previous.iter().map(|b| F2Dot14::from_bits(*b)).collect();
        fvar.user_to_normalized(avar.as_ref(), settings.iter().map(|(t, v)| (*t, Fixed::from_f64(*v as f64))), &mut buf);
        let out: Vec<i16> = buf.iter().map(|c| c.to_bits()).collect();
        if out != want {
            return Err(fail("user_to_normalized-dirty-buffer", format!("{n} axis records (tags {:?}), settings {settings:?}: user_to_normalized into a buffer holding {previous:?} gives {out:?}, expected {want:?}", (0..n).map(tag_id).collect::<Vec<_>>())));
        }
        stats.evals(2);
        stats.class(match len.cmp(&n) {
            std::cmp::Ordering::Less => "loc:dirty-buffer-shorter",
            std::cmp::Ordering::Equal => "loc:dirty-buffer-exact",
            std::cmp::Ordering::Greater => "loc:dirty-buffer-longer",
        });
        if last.iter().take(len).any(|l| l.is_none()) {
            stats.class("loc:dirty-buffer-with-omitted-axis");
        }
    }
    stats.class(if c.avar.is_some() { "loc:avar" } else { "loc:no-avar" });
    if (0..n).any(|i| (0..i).any(|j| tag_id(i) == tag_id(j))) {
        stats.class("loc:records-share-a-tag");
    }
    if last.iter().flatten().count() >= 1 && c.avar.as_ref().map(|m| m.iter().any(|s| s.len() > 3)).unwrap_or(false) {
        stats.nontrivial(hash_json(c));
        if stats.want_sample() {
            stats.sample(serde_json::json!({"stage": "location", "axes": c.axes, "avar": c.avar, "settings": format!("{settings:?}"), "location": got}));
        }
    }
    Ok(())
}

// =====================================================================================================
// metrics: hmtx + HVAR (built through the store builder) -> skrifa GlyphMetrics
// =====================================================================================================

#[derive(Clone, Debug, Serialize, Deserialize)]
struct MetricsCase {
    /// pool of delta sets (8/16-bit magnitudes)
    spec: StoreSpec,
    num_glyphs: u16,
    /// raw selector of numberOfHMetrics in 1..=num_glyphs
    n_long: u32,
    /// per glyph (cycled): advance, lsb, raw selector of the advance delta set, of the lsb delta set
    glyphs: Vec<(u16, i16, u32, u32)>,
    /// 0: implicit store, no maps; 1: dedup store + advance map; 2: dedup store + advance and lsb maps; 3: implicit store (advance rows by glyph id) + lsb map
    mode: u8,
    /// raw selectors of the map counts in 1..=num_glyphs (glyphs beyond use the last entry)
    adv_map_count: u32,
    lsb_map_count: u32,
    format1: bool,
    extra_inner_bits: u8,
    extra_entry_bytes: u8,
    upem: u16,
    /// ppem in 26.6
    ppem64: u32,
    locs: Vec<Vec<Coord>>,
    extra_gids: Vec<u32>,
}

fn metrics_strategy() -> impl Strategy<Value = MetricsCase> {
    let adv = prop_oneof![4 => 0u16..=2000, 3 => 0u16..=32767, 1 => any::<u16>(), 1 => Just(0u16), 1 => Just(32767u16)];
    let lsb = prop_oneof![4 => -500i16..=500, 1 => any::<i16>()];
    let upem = prop_oneof![2 => Just(1000u16), 2 => Just(2048u16), 1 => Just(16u16), 1 => Just(16384u16), 2 => 16u16..=16384];
    let ppem64 = prop_oneof![1 => Just(8u32 * 64), 1 => Just(12 * 64 + 32), 1 => Just(16u32 * 64), 1 => Just(100u32 * 64), 1 => Just(1000u32 * 64), 3 => 1u32..=200_000];
    (
        (store_spec(1..16, small_count(), 2, 5), 1u16..=40, any::<u32>(), proptest::collection::vec((adv, lsb, any::<u32>(), any::<u32>()), 1..40), 0u8..4),
        (any::<u32>(), any::<u32>(), any::<bool>(), 0u8..3, 0u8..3),
        (upem, ppem64, locs_strategy(1..4), proptest::collection::vec(prop_oneof![2 => 0u32..100, 1 => any::<u32>(), 1 => Just(0xFFFFu32), 1 => Just(0x10000u32)], 0..4)),
    )
        .prop_map(|((spec, num_glyphs, n_long, glyphs, mode), (adv_map_count, lsb_map_count, format1, extra_inner_bits, extra_entry_bytes), (upem, ppem64, locs, extra_gids))| MetricsCase {
            spec,
            num_glyphs,
            n_long,
            glyphs,
            mode,
            adv_map_count,
            lsb_map_count,
            format1,
            extra_inner_bits,
            extra_entry_bytes,
            upem,
            ppem64,
            locs,
            extra_gids,
        })
}

fn bits_for(x: u32) -> u32 {
    32 - x.leading_zeros()
}

/// hand-encoded DeltaSetIndexMap
fn dsim_bytes(entries: &[(u16, u16)], format1: bool, extra_inner_bits: u8, extra_entry_bytes: u8) -> Vec<u8> {
    let max_inner = entries.iter().map(|e| e.1 as u32).max().unwrap_or(0);
    let max_outer = entries.iter().map(|e| e.0 as u32).max().unwrap_or(0);
    let inner_bits = (bits_for(max_inner).max(1) + extra_inner_bits as u32).min(16);
    let need = inner_bits + bits_for(max_outer);
    let entry_size = (((need + 7) / 8).max(1) + extra_entry_bytes as u32).min(4);
    let mut v = vec![format1 as u8, (((entry_size - 1) << 4) | (inner_bits - 1)) as u8];
    if format1 {
        v.extend_from_slice(&(entries.len() as u32).to_be_bytes());
    } else {
        v.extend_from_slice(&(entries.len() as u16).to_be_bytes());
    }
    for (o, i) in entries {
        let e = ((*o as u32) << inner_bits) | *i as u32;
        v.extend_from_slice(&e.to_be_bytes()[4 - entry_size as usize..]);
    }
    v
}

fn hvar_bytes(ivs: &[u8], adv: Option<&[u8]>, lsb: Option<&[u8]>) -> Vec<u8> {
    let mut v = vec![0, 1, 0, 0];
    let ivs_off = 20u32;
    let adv_off = ivs_off + ivs.len() as u32;
    let lsb_off = adv_off + adv.map(|a| a.len() as u32).unwrap_or(0);
    v.extend_from_slice(&ivs_off.to_be_bytes());
    v.extend_from_slice(&(if adv.is_some() { adv_off } else { 0 }).to_be_bytes());
    v.extend_from_slice(&(if lsb.is_some() { lsb_off } else { 0 }).to_be_bytes());
    v.extend_from_slice(&0u32.to_be_bytes());
    v.extend_from_slice(ivs);
    if let Some(a) = adv {
        v.extend_from_slice(a);
    }
    if let Some(l) = lsb {
        v.extend_from_slice(l);
    }
    v
}

fn test_metrics(c: &MetricsCase, stats: &Stats) -> CaseResult {
    run_metrics(c, false, stats)
}
/// the same fonts with every advance >= 32768 font units (regression stage: unscaled values used to wrap in 16.16)
fn test_metrics_large(c: &MetricsCase, stats: &Stats) -> CaseResult {
    run_metrics(c, true, stats)
}
fn run_metrics(c: &MetricsCase, large: bool, stats: &Stats) -> CaseResult {
    // Domain: every region is inactive at the default location (the default instance has no deltas; skrifa treats the
    // all-zero location as "no variations"). Regions that the formula leaves active there (every axis ignored) get a real first axis.
    let mut spec = c.spec.clone();
    let zeros = [0i16; 8];
    for r in spec.regions.iter_mut() {
        r.resize((spec.n_axes as usize).max(1), (0, 0, 0));
        if region_scalar(r, &zeros).num != 0 {
            r[0] = (0, 16384, 16384);
            stats.class("metrics:always-on-region-replaced");
        }
    }
    let mut pool = expand(&spec);
    // Domain: a glyph's metric delta fits 16 bits at every location (HVAR deltas are returned as 16.16 values)
    for row in pool.rows.iter_mut() {
        while row.iter().map(|(_, d)| d.unsigned_abs() as u64).sum::<u64>() > 32767 {
            for (_, d) in row.iter_mut() {
                *d /= 2;
            }
            stats.class("metrics:row-halved-to-fit-16-bits");
        }
    }
    let g = c.num_glyphs.max(1) as usize;
    let n_long = 1 + pick(c.n_long, g);
    let glyph = |i: usize| {
        let mut x = c.glyphs[i % c.glyphs.len().max(1)];
        if large {
            x.0 |= 0x8000;
        }
        x
    };
    if c.glyphs.is_empty() {
        return Ok(());
    }
    let empty: Vec<(usize, i32)> = vec![];
    let pool_row = |raw: u32| -> usize { if pool.rows.is_empty() { usize::MAX } else { pick(raw, pool.rows.len()) } };
    let adv_count = 1 + pick(c.adv_map_count, g);
    let lsb_count = 1 + pick(c.lsb_map_count, g);
    let mapped_adv = c.mode == 1 || c.mode == 2;
    let mapped_lsb = c.mode == 2 || c.mode == 3;
    // pool row used by each glyph (glyphs past a map's count share its last entry)
    let adv_sel: Vec<usize> = (0..g).map(|i| pool_row(glyph(if mapped_adv { i.min(adv_count - 1) } else { i }).2)).collect();
    let lsb_sel: Vec<usize> = (0..g).map(|i| pool_row(glyph(i.min(lsb_count - 1)).3)).collect();
    let row_of = |k: usize| -> &Vec<(usize, i32)> { pool.rows.get(k).unwrap_or(&empty) };

    // rows handed to the builder and, per glyph, the position of its advance / lsb row among them
    let implicit = c.mode == 0 || c.mode == 3;
    let mut model = Model { n_axes: pool.n_axes, regions: pool.regions.clone(), rows: vec![] };
    let (adv_pos, lsb_pos): (Vec<usize>, Vec<usize>);
    if implicit {
        for i in 0..g {
            model.rows.push(row_of(adv_sel[i]).clone());
        }
        adv_pos = (0..g).collect();
        let mut lp = vec![];
        for i in 0..g {
            if mapped_lsb {
                lp.push(model.rows.len());
                model.rows.push(row_of(lsb_sel[i]).clone());
            } else {
                lp.push(usize::MAX);
            }
        }
        lsb_pos = lp;
    } else {
        model.rows = pool.rows.clone();
        if model.rows.is_empty() {
            model.rows.push(vec![]);
        }
        adv_pos = adv_sel.iter().map(|k| (*k).min(model.rows.len() - 1)).collect();
        lsb_pos = lsb_sel.iter().map(|k| if mapped_lsb { (*k).min(model.rows.len() - 1) } else { usize::MAX }).collect();
    }
    let built = build_store(&model, implicit)?;
    let rb = read_back(&built.bytes, &model)?;
    let info = check_retrieval(&model, &built, &rb, stats)?;
    if implicit {
        // documented contract of the implicit mode: one subtable, inner index = position (glyph id)
        for (k, ix) in built.index.iter().enumerate() {
            if *ix != (0, k as u16) {
                return Err(fail("implicit-index", format!("implicit-index builder mapped item {k} to {ix:?}")));
            }
        }
    }
    let adv_map = mapped_adv.then(|| dsim_bytes(&(0..adv_count).map(|i| built.index[adv_pos[i]]).collect::<Vec<_>>(), c.format1, c.extra_inner_bits, c.extra_entry_bytes));
    let lsb_map = mapped_lsb.then(|| dsim_bytes(&(0..lsb_count).map(|i| built.index[lsb_pos[i]]).collect::<Vec<_>>(), !c.format1, c.extra_entry_bytes, c.extra_inner_bits));
    let hvar_b = hvar_bytes(&built.bytes, adv_map.as_deref(), lsb_map.as_deref());

    let upem = c.upem.max(16);
    let h_metrics: Vec<(u16, i16)> = (0..n_long).map(|i| (glyph(i).0, glyph(i).1)).collect();
    let lsbs: Vec<i16> = (n_long..g).map(|i| glyph(i).1).collect();
    let axes: Vec<Axis> = (0..pool.n_axes).map(|i| Axis { tag: axis_tag(i), min: -65536, default: 0, max: 65536 }).collect();
    let kit = Kit { num_glyphs: g as u16, upem, h_metrics: h_metrics.clone(), lsbs: lsbs.clone(), axes, extra: vec![(*b"HVAR", hvar_b)], ..Default::default() };
    let data = kit.build();
    let font = FontRef::new(&data).map_err(|e| fail("font-open", format!("{e}")))?;
    let hvar: Hvar = font.hvar().map_err(|e| fail("hvar-read", format!("{e}")))?;
    let base = |i: usize| -> (i32, i32) {
        let adv = if i < n_long { h_metrics[i].0 } else { h_metrics[n_long - 1].0 } as i32;
        let lsb = if i < n_long { h_metrics[i].1 } else { lsbs[i - n_long] } as i32;
        (adv, lsb)
    };

    let locs = resolve_locs(&pool, &c.locs);
    // expected unscaled values per location and glyph
    let mut expected: Vec<Vec<(i32, i32)>> = vec![];
    for loc in &locs {
        let scalars: Vec<Scal> = pool.regions.iter().map(|r| region_scalar(r, loc)).collect();
        let coords: Vec<F2Dot14> = loc.iter().map(|b| F2Dot14::from_bits(*b)).collect();
        let mut per_glyph = vec![];
        for i in 0..g {
            let (badv, blsb) = base(i);
            let mut vals = [badv, blsb];
            for (which, pos) in [(0usize, adv_pos[i]), (1usize, lsb_pos[i])] {
                if pos == usize::MAX {
                    continue; // no lsb mapping: the table holds no side-bearing deltas
                }
                let e = exact_delta(&model.rows[pos], &scalars);
                let (outer, inner) = built.index[pos];
                let d = rb.store.compute_delta(DeltaSetIndex { outer, inner }, &coords).map_err(|e| fail("compute_delta-err", format!("{e}")))?;
                let diff = (d as i128 - e.int) as f64 - e.frac;
                if diff.abs() > e.tol_fixed + 1e-9 {
                    return Err(fail("compute_delta", format!("glyph {i} row {:?} at {loc:?}: compute_delta = {d}, exact {}", model.rows[pos], e.value())));
                }
                // read-fonts HVAR accessors: same delta through the table's own mapping
                let via = if which == 0 { hvar.advance_width_delta(GlyphId::new(i as u32), &coords) } else { hvar.lsb_delta(GlyphId::new(i as u32), &coords) };
                match via {
                    Ok(f) if f == Fixed::from_i32(d) => {}
                    other => {
                        return Err(fail(
                            if which == 0 { "hvar-advance-delta" } else { "hvar-lsb-delta" },
                            format!("glyph {i} at {loc:?} (mode {}, adv map count {adv_count}, lsb map count {lsb_count}): table accessor gives {other:?}, the glyph's delta set {:?} evaluates to {d}", c.mode, model.rows[pos]),
                        ))
                    }
                }
                vals[which] = vals[which].wrapping_add(d);
                stats.class(if e.is_integer() { "metrics:delta-exact-integer" } else { "metrics:delta-fractional" });
            }
            per_glyph.push((vals[0], vals[1]));
        }
        expected.push(per_glyph);
    }
    // keep scaled results below 30000 px and ppem/upem below 400 (the 16.16 scale factor's range)
    let maxabs = expected.iter().flatten().map(|(a, l)| a.unsigned_abs().max(l.unsigned_abs())).max().unwrap_or(0).max(1) as u64;
    let limit = (30_000u64 * 64 * upem as u64 / maxabs).min(400 * 64 * upem as u64).max(1);
    let ppem64 = (c.ppem64.max(1) as u64).min(limit) as u32;
    let ppem = ppem64 as f32 / 64.0;
    for (li, loc) in locs.iter().enumerate() {
        let coords: Vec<F2Dot14> = loc.iter().map(|b| F2Dot14::from_bits(*b)).collect();
        let un = font.glyph_metrics(Size::unscaled(), LocationRef::new(&coords));
        let sc = font.glyph_metrics(Size::new(ppem), LocationRef::new(&coords));
        for i in 0..g {
            let gid = GlyphId::new(i as u32);
            let (ea, el) = expected[li][i];
            for (name, want, got_u, got_s) in [("advance_width", ea, un.advance_width(gid), sc.advance_width(gid)), ("left_side_bearing", el, un.left_side_bearing(gid), sc.left_side_bearing(gid))] {
                let ctx = || format!("glyph {i} of {g} (numberOfHMetrics {n_long}, mode {}, adv map count {adv_count}, lsb map count {lsb_count}) at {loc:?}", c.mode);
                if got_u != Some(want as f32) {
                    return Err(fail(&format!("metrics-{name}-unscaled"), format!("{}: {name} = {got_u:?}, expected base + delta = {want} (base {:?})", ctx(), base(i))));
                }
                if want.unsigned_abs() >= 32768 {
                    stats.class("metrics:value>=32768");
                }
                let exact = want as f64 * ppem64 as f64 / (64.0 * upem as f64);
                let tol = ((want as f64).abs() / 128.0 + 0.5) / 65536.0 + exact.abs() / 8_388_608.0 + 1e-9;
                match got_s {
                    Some(s) if (s as f64 - exact).abs() <= tol => {}
                    _ => {
                        return Err(fail(&format!("metrics-{name}-scaled"), format!("{}: {name} at ppem {ppem} upem {upem} = {got_s:?}, expected {want} x ppem/upem = {exact} (+-{tol})", ctx())));
                    }
                }
                stats.evals(2);
            }
            stats.class(if i < n_long { "metrics:gid<numberOfHMetrics" } else { "metrics:gid>=numberOfHMetrics" });
            if mapped_adv && i >= adv_count {
                stats.class("metrics:gid>=advance-map-count");
            }
        }
        // glyph ids at and beyond numGlyphs
        for x in c.extra_gids.iter().map(|x| g as u32 + (x % 0x00FF_0000)).chain([g as u32]) {
            let gid = GlyphId::new(x);
            if un.advance_width(gid).is_some() || un.left_side_bearing(gid).is_some() || sc.advance_width(gid).is_some() {
                return Err(fail("metrics-gid>=numGlyphs", format!("glyph id {x} >= numGlyphs {g}: metrics are Some")));
            }
            stats.class("metrics:gid>=numGlyphs");
        }
    }
    stats.class(match c.mode { 0 => "metrics:mode0-implicit-no-maps", 1 => "metrics:mode1-advance-map", 2 => "metrics:mode2-advance+lsb-maps", _ => "metrics:mode3-implicit+lsb-map" });
    if n_long < g {
        stats.class("metrics:numberOfHMetrics<numGlyphs");
    }
    let varied = expected.iter().any(|p| (0..g).any(|i| p[i].0 != base(i).0 || p[i].1 != base(i).1));
    if varied && g >= 2 {
        stats.nontrivial(hash_json(c));
        if stats.want_sample() {
            stats.sample(serde_json::json!({"stage": "metrics", "glyphs": g, "numberOfHMetrics": n_long, "mode": c.mode, "adv_map_count": adv_count, "lsb_map_count": lsb_count,
                "subtables": info.n_sub, "upem": upem, "ppem": ppem, "loc0": locs.first(), "expected0": expected.first().map(|p| p.iter().take(4).collect::<Vec<_>>())}));
        }
    }
    Ok(())
}

fn main() {
    let ctx = Ctx::from_args("C11");
    ctx.set_rule("store/big-store/huge-store: 1..4 axes, 1..12 supplied regions (per-axis triples: unused axis, one-sided sorted triples with equalities, master-like, from-zero, unsorted, zero-crossing, beyond +-1), \
        1..6 row shapes (columns = region + width class: explicit 0 / i8 / i16 / i32 / boundary values, width cap per case), rows = groups (shape, count, base, step) giving duplicates, runs and all-zero rows, \
        handed over as generated / reversed / round-robin / scrambled, to VariationStoreBuilder::new or new_with_implicit_indices; store: <= 40 groups of mostly 1 row, big-store: <= 6 groups of up to 12000 (thorough 30000) rows, \
        huge-store: fixed cases of 66000..300000 distinct rows of one shape (split over 2..5 subtables; 131071 and 200000 rows in quick). Each row is read back through the remap (independent row decoder) and up to 41 rows x 1..4 locations (region start/peak/end +-1, midpoints, 0, +-1, random) go through \
        compute_delta / compute_float_delta, and every stored region through compute_scalar / compute_scalar_f32; locations have the axis count or any length 0..=axes+2 (missing axes = 0, extra ignored); fixed and float paths are also compared with each other. Non-trivial: the built store has >= 2 subtables, or fewer regions than supplied, or fewer rows than supplied; distinct by hash of (mode, spec). \
        normalize: 1..3 axes (typical, integer, fractional, equalities, 1-ulp spans, one-sided spans up to the 16.16 range) x 1..23 user values (min/default/max +-2 ulp, interior, raw, huge); non-trivial: a non-degenerate axis and >= 2 values. \
        avar: 1..3 valid segment maps (0 or 3..11 points) queried at every point, +-2 ulp, between points; non-trivial: a map with > 3 points. \
        location: Kit font with fvar of 1..5 axis records (tags distinct or shared by 2..5 records, each record with its own range and segment map) (+ avar) and 0..7 settings (unknown tags, repeated tags - last wins, applied to every record with the tag -, omitted axes, +-inf), plus location_to_slice / user_to_normalized into 1..2 dirty caller buffers of length 0..=axes+3 (constant, varying or a previous location's content); non-trivial: a set axis under an avar map with > 3 points. \
        metrics: Kit font with hmtx (numberOfHMetrics in 1..=numGlyphs, numGlyphs 1..40) + hand-assembled HVAR around the builder's store in 4 modes (implicit/no maps, advance map, advance+lsb maps, implicit+lsb map; \
        hand-encoded DeltaSetIndexMap formats 0/1, entry sizes 1..4, map counts < numGlyphs), every glyph id and ids >= numGlyphs at 1..3 locations, unscaled and one ppem; non-trivial: >= 2 glyphs and some metric differs from its base value.");
    ctx.assume("exact model: rational tent scalars and sums in i128; fixed-point bound 0.5 + sum |delta| * (fractional axes) * 2^-17 (one 16.16 rounding per axis, one final rounding); float bound 2^-23 relative per rounding step");
    ctx.assume("normalize and avar results may differ from the exact rational value by at most 2^-16 (rounding mode of the 16.16 division is not part of the property); exact at min/default/max, at map points, and when clamped");
    ctx.assume("location: user values are multiples of 2^-16 (exact in 16.16); checked as to_2dot14(apply(normalize(v))) composed from the separately checked parts with the harness's own (x+2)>>2, and against a bracket from the exact formulas");
    ctx.assume("metrics domain: every region is inactive at the default location (skrifa treats the all-zero location as 'no variations'); a glyph's delta magnitude < 32768 (HVAR deltas are returned as 16.16); scaled results < 30000 px, ppem/upem < 400; \
        ppem is a multiple of 1/64; scaled tolerance (|v|/128 + 0.5) * 2^-16 + 2^-23 relative (16.16 scale factor and result)");
    ctx.assume("sums of deltas that do not fit i32 are not checked against compute_delta (no specified value); implicit-index mode is used with at most 65535 rows");
    let q = ctx.quick();
    ctx.prop_stage("store", Isolation::Threads, ctx.n(30_000, 300_000), store_strategy, test_store);
    ctx.prop_stage("big-store", Isolation::Threads, ctx.n(400, 3_000), move || big_store_strategy(if q { 12_000 } else { 30_000 }), test_store);
    ctx.index_stage("huge-store", Isolation::Threads, if q { 5 } else { 11 }, huge_case, test_store);
    if !q {
        ctx.prop_stage("huge-store-generated", Isolation::Threads, 32, || big_store_strategy(90_000), test_store);
    }
    ctx.prop_stage("normalize", Isolation::Threads, ctx.n(100_000, 1_000_000), norm_strategy, test_norm);
    ctx.prop_stage("normalize-widespan", Isolation::Threads, ctx.n(2_000, 20_000), widespan_strategy, test_widespan);
    ctx.prop_stage("avar", Isolation::Threads, ctx.n(100_000, 1_000_000), avar_strategy, test_avar);
    ctx.prop_stage("location", Isolation::Threads, ctx.n(100_000, 1_000_000), loc_strategy, test_loc);
    ctx.prop_stage("metrics", Isolation::Threads, ctx.n(30_000, 300_000), metrics_strategy, test_metrics);
    ctx.prop_stage("metrics-large-advance", Isolation::Threads, ctx.n(300, 3_000), metrics_strategy, test_metrics_large);
    ctx.finish();
}
