//! C14 — integer sets, range sets and the sparse-bit-set codec act as mathematical sets.
//!
//! Stages
//! * `hist-exhaustive`: every history of length 4 (each prefix is checked, so all lengths <= 4) over a 31-op alphabet on a
//!   6-element pool spanning two page edges of `IntSet<u16>`, from both start modes (whole space in thorough, seeded stride in quick).
//! * `hist-random`: long random histories (`vec(step, 0..200)`, interpreted; the history shrinks as one value) over eight
//!   element domains incl. a harness-defined discontinuous one, two evolving sets, full query surface after every step.
//! * `hist-converge`: short detours on two sets, then one is given the other's members by surgery (not by copying), optionally both
//!   inverted: ==, cmp, Hash between equal sets that carry different left-over pages.
//! * `eqord`: pairs of sets built by different routes (inclusive / exclusive storage) : Eq, Ord, Hash vs model.
//! * `rangeset`: RangeSet<u32|u16|Fixed> histories: canonical form, membership, intersection.
//! * `codec-roundtrip`: sets x {2,4,8,32,auto}: decode(encode(S)) = S, empty remainder, bias/max, spec reference agrees.
//! * `codec-bytes`: arbitrary / structured / havoc'd bytes x (bias,max): spec transcription vs implementation.
//! * `codec-filled-root`: the four maximal-height filled roots (2^31..2^32 members each).
use proptest::prelude::*;
use proptest::sample::select;
use read_fonts::collections::int_set::sparse_bit_set::to_sparse_bit_set_with_bf;
use read_fonts::collections::int_set::{Domain, InDomain};
use read_fonts::collections::{IntSet, RangeSet};
use read_fonts::types::{Fixed, GlyphId, GlyphId16, NameId, Tag};
use serde::{Deserialize, Serialize};
use serde_json::json;
use std::cmp::Ordering;
use std::fmt::Debug;
use std::hash::{Hash, Hasher};
use std::ops::RangeInclusive;
use vcore::*;

// =============================================================================================
// Model: canonical (sorted, disjoint, non-adjacent) inclusive ranges over an index space 0..N (N <= 2^32)
// =============================================================================================
type Rs = Vec<(u64, u64)>;

fn has(a: &[(u64, u64)], v: u64) -> bool {
    let i = a.partition_point(|r| r.1 < v);
    i < a.len() && a[i].0 <= v
}
/// pointwise boolean combination; `f(false,false)` must be false
fn combine(a: &[(u64, u64)], b: &[(u64, u64)], f: impl Fn(bool, bool) -> bool) -> Rs {
    let mut pts: Vec<u64> = Vec::with_capacity((a.len() + b.len()) * 2);
    for r in a.iter().chain(b.iter()) {
        pts.push(r.0);
        pts.push(r.1 + 1);
    }
    pts.sort_unstable();
    pts.dedup();
    let mut out: Rs = vec![];
    for w in pts.windows(2) {
        let (s, e) = (w[0], w[1] - 1);
        if f(has(a, s), has(b, s)) {
            if let Some(l) = out.last_mut() {
                if l.1 + 1 == s {
                    l.1 = e;
                    continue;
                }
            }
            out.push((s, e));
        }
    }
    out
}
fn or(a: &[(u64, u64)], b: &[(u64, u64)]) -> Rs {
    combine(a, b, |x, y| x || y)
}
fn and(a: &[(u64, u64)], b: &[(u64, u64)]) -> Rs {
    combine(a, b, |x, y| x && y)
}
fn minus(a: &[(u64, u64)], b: &[(u64, u64)]) -> Rs {
    combine(a, b, |x, y| x && !y)
}
fn complement(a: &[(u64, u64)], n: u64) -> Rs {
    combine(a, &[(0, n - 1)], |x, u| u && !x)
}
fn from_points(p: impl IntoIterator<Item = u64>) -> Rs {
    let mut v: Vec<u64> = p.into_iter().collect();
    v.sort_unstable();
    v.dedup();
    let mut out: Rs = vec![];
    for x in v {
        if let Some(l) = out.last_mut() {
            if l.1 + 1 == x {
                l.1 = x;
                continue;
            }
        }
        out.push((x, x));
    }
    out
}
fn rs_len(a: &[(u64, u64)]) -> u64 {
    a.iter().map(|r| r.1 - r.0 + 1).sum()
}
/// smallest member > v
fn succ(a: &[(u64, u64)], v: u64) -> Option<u64> {
    let i = a.partition_point(|r| r.1 <= v);
    a.get(i).map(|r| r.0.max(v + 1))
}
fn hits(a: &[(u64, u64)], lo: u64, hi: u64) -> bool {
    if lo > hi {
        return false;
    }
    let i = a.partition_point(|r| r.1 < lo);
    i < a.len() && a[i].0 <= hi
}
fn members_fwd(a: &[(u64, u64)], k: usize) -> Vec<u64> {
    let mut out = vec![];
    'o: for r in a {
        let mut v = r.0;
        loop {
            if out.len() >= k {
                break 'o;
            }
            out.push(v);
            if v == r.1 {
                break;
            }
            v += 1;
        }
    }
    out
}
fn members_back(a: &[(u64, u64)], k: usize) -> Vec<u64> {
    let mut out = vec![];
    'o: for r in a.iter().rev() {
        let mut v = r.1;
        loop {
            if out.len() >= k {
                break 'o;
            }
            out.push(v);
            if v == r.0 {
                break;
            }
            v -= 1;
        }
    }
    out
}
fn members_after(a: &[(u64, u64)], v: u64, k: usize) -> Vec<u64> {
    let mut out = vec![];
    let mut cur = v;
    while out.len() < k {
        match succ(a, cur) {
            Some(x) => {
                out.push(x);
                cur = x;
            }
            None => break,
        }
    }
    out
}
/// lexicographic order of the ascending member sequences
fn model_cmp(a: &[(u64, u64)], b: &[(u64, u64)]) -> Ordering {
    let d = combine(a, b, |x, y| x != y);
    let Some(&(d0, _)) = d.first() else { return Ordering::Equal };
    if has(a, d0) {
        // sequences agree below d0; a continues with d0, b with its next member above d0 (if any)
        if succ(b, d0).is_some() {
            Ordering::Less
        } else {
            Ordering::Greater
        }
    } else if succ(a, d0).is_some() {
        Ordering::Greater
    } else {
        Ordering::Less
    }
}
/// at most `limit` evidence samples per kind
fn sample_slot(counter: &std::sync::atomic::AtomicU32, limit: u32) -> bool {
    counter.fetch_add(1, std::sync::atomic::Ordering::Relaxed) < limit
}
static S_HIST: std::sync::atomic::AtomicU32 = std::sync::atomic::AtomicU32::new(0);
static S_RT: std::sync::atomic::AtomicU32 = std::sync::atomic::AtomicU32::new(0);
static S_BYTES: std::sync::atomic::AtomicU32 = std::sync::atomic::AtomicU32::new(0);
fn hsh<T: Hash>(t: &T) -> u64 {
    let mut s = std::collections::hash_map::DefaultHasher::new();
    t.hash(&mut s);
    s.finish()
}
fn fail(sig: &str, msg: String) -> Fail {
    Fail::new(format!("c14|{sig}"), msg)
}
fn show_rs(a: &[(u64, u64)]) -> String {
    let mut s: String = a.iter().take(12).map(|r| if r.0 == r.1 { format!("{} ", r.0) } else { format!("{}..={} ", r.0, r.1) }).collect();
    if a.len() > 12 {
        s.push_str(&format!("… ({} ranges)", a.len()));
    }
    s
}

// =============================================================================================
// Element domains
// =============================================================================================
trait Dom {
    type T: Domain + Ord + Copy + Debug;
    const NAME: &'static str;
    const N: u64;
    fn val(idx: u64) -> Self::T;
    /// index of a value; None when the value is not a member of the domain
    fn idx(t: Self::T) -> Option<u64>;
}
macro_rules! dom {
    ($name:ident, $t:ty, $label:expr, $n:expr, |$i:ident| $val:expr, |$v:ident| $idx:expr) => {
        struct $name;
        impl Dom for $name {
            type T = $t;
            const NAME: &'static str = $label;
            const N: u64 = $n;
            fn val($i: u64) -> $t {
                $val
            }
            fn idx($v: $t) -> Option<u64> {
                $idx
            }
        }
    };
}
dom!(DU32, u32, "u32", 1 << 32, |i| i as u32, |v| Some(v as u64));
dom!(DU16, u16, "u16", 1 << 16, |i| i as u16, |v| Some(v as u64));
dom!(DU8, u8, "u8", 1 << 8, |i| i as u8, |v| Some(v as u64));
dom!(DGid16, GlyphId16, "GlyphId16", 1 << 16, |i| GlyphId16::new(i as u16), |v| Some(v.to_u16() as u64));
dom!(DGid, GlyphId, "GlyphId", 1 << 32, |i| GlyphId::new(i as u32), |v| Some(v.to_u32() as u64));
dom!(DTag, Tag, "Tag", 1 << 32, |i| Tag::from_be_bytes((i as u32).to_be_bytes()), |v| Some(u32::from_be_bytes(v.to_be_bytes()) as u64));
dom!(DName, NameId, "NameId", 1 << 16, |i| NameId::new(i as u16), |v| Some(v.to_u16() as u64));

/// Harness-defined discontinuous domain: the even numbers of [0, 1100] and of [0xFFFFFB00, 0xFFFFFFFE]
/// (two disjoint parts, each spanning two 512-bit page edges; adjacent members are 2 apart in u32 space).
#[derive(Clone, Copy, Debug, PartialEq, Eq, PartialOrd, Ord, Hash)]
struct Ev(u32);
const EV_NA: u32 = 551;
const EV_NB: u32 = 640;
const EV_B0: u32 = 0xFFFF_FB00;
impl Domain for Ev {
    fn to_u32(&self) -> u32 {
        self.0
    }
    fn contains(value: u32) -> bool {
        value % 2 == 0 && (value <= 1100 || value >= EV_B0)
    }
    fn from_u32(member: InDomain) -> Ev {
        Ev(member.value())
    }
    fn is_continuous() -> bool {
        false
    }
    fn ordered_values() -> impl DoubleEndedIterator<Item = u32> {
        (0..EV_NA).map(|i| i * 2).chain((0..EV_NB).map(|i| EV_B0 + i * 2))
    }
    fn ordered_values_range(range: RangeInclusive<Ev>) -> impl DoubleEndedIterator<Item = u32> {
        let (lo, hi) = (range.start().0, range.end().0);
        Self::ordered_values().filter(move |v| *v >= lo && *v <= hi)
    }
    fn count() -> u64 {
        (EV_NA + EV_NB) as u64
    }
}
struct DEv;
impl Dom for DEv {
    type T = Ev;
    const NAME: &'static str = "Ev(discontinuous)";
    const N: u64 = (EV_NA + EV_NB) as u64;
    fn val(i: u64) -> Ev {
        let i = i as u32;
        if i < EV_NA {
            Ev(i * 2)
        } else {
            Ev(EV_B0 + (i - EV_NA) * 2)
        }
    }
    fn idx(v: Ev) -> Option<u64> {
        if !<Ev as Domain>::contains(v.0) {
            None
        } else if v.0 <= 1100 {
            Some((v.0 / 2) as u64)
        } else {
            Some((EV_NA + (v.0 - EV_B0) / 2) as u64)
        }
    }
}

#[derive(Clone, Copy, Debug, Serialize, Deserialize, PartialEq, Eq)]
enum Dk {
    U32,
    U16,
    U8,
    Gid16,
    Gid,
    Tag,
    NameId,
    Ev,
}
impl Dk {
    fn n(self) -> u64 {
        match self {
            Dk::U32 | Dk::Gid | Dk::Tag => 1 << 32,
            Dk::U16 | Dk::Gid16 | Dk::NameId => 1 << 16,
            Dk::U8 => 1 << 8,
            Dk::Ev => DEv::N,
        }
    }
    /// boundary-rich element pool in index space
    fn pool(self) -> Vec<u32> {
        let n = self.n();
        let base: Vec<u64> = if self == Dk::Ev {
            // value 512 = idx 256, 1024 = idx 512, part edge 550|551, 0xFFFFFC00 = idx 679, 0xFFFFFE00 = idx 935
            vec![0, 1, 255, 256, 257, 511, 512, 513, 549, 550, 551, 552, 678, 679, 680, 934, 935, 936, 1189, 1190]
        } else {
            vec![
                0, 1, 2, 63, 64, 255, 256, 510, 511, 512, 513, 1023, 1024, 1025, 65_534, 65_535, 65_536, 65_537, (1 << 31) - 1, 1 << 31, (1 << 31) + 1,
                0xFFFF_FDFF, 0xFFFF_FE00, 0xFFFF_FFFE, 0xFFFF_FFFF,
            ]
        };
        let mut v: Vec<u32> = base.into_iter().filter(|x| *x < n).map(|x| x as u32).collect();
        for x in [n - 2, n - 1] {
            if !v.contains(&(x as u32)) {
                v.push(x as u32);
            }
        }
        v
    }
}

// =============================================================================================
// Histories
// =============================================================================================
#[derive(Clone, Debug, Serialize, Deserialize)]
enum Op {
    Insert(u32),
    Remove(u32),
    /// inclusive range; start > end is an empty range (no-op)
    InsertRange(u32, u32),
    RemoveRange(u32, u32),
    /// `Extend::extend` with the values as given
    Extend(Vec<u32>),
    /// `Extend::extend` with the values sorted ascending (the optimised path)
    ExtendSorted(Vec<u32>),
    ExtendUnsorted(Vec<u32>),
    RemoveAll(Vec<u32>),
    /// replace by `FromIterator::from_iter`
    Collect(Vec<u32>),
    Union,
    Intersect,
    Subtract,
    Invert,
    Clear,
    /// replace by `IntSet::all()`
    Fill,
    /// replace by a clone of the other set
    Assign,
    /// replace the *other* set by a set with the same members as this one, rebuilt with the opposite storage mode
    /// (domains of <= 65536 values; a plain clone otherwise)
    Mirror,
    /// give this set the members of the other one *without copying it*: remove what is surplus and add what is missing,
    /// by the method selected (0 range ops, 1 single inserts/removes, 2 remove_all/extend, 3 intersect-then-union with
    /// the other set, 4 subtract/union with helper sets). Both sets keep the pages their own histories left behind.
    Converge(u8),
}
#[derive(Clone, Debug, Serialize, Deserialize)]
struct Step {
    /// apply to set B (with A as the operand of binary ops) instead of A
    b: bool,
    op: Op,
}
#[derive(Clone, Debug, Serialize, Deserialize)]
struct HistCase {
    dom: Dk,
    a_all: bool,
    b_init: Vec<u32>,
    b_inv: bool,
    steps: Vec<Step>,
}

const FULL: u64 = 1500; // sets up to this size are iterated completely
const K: usize = 40; // otherwise this many from each end

struct Where<'a> {
    dom: &'static str,
    step: usize,
    op: Option<&'a Step>,
    which: &'static str,
}
impl Where<'_> {
    fn s(&self) -> String {
        format!("[{} set {} after step {} {:?}]", self.dom, self.which, self.step, self.op)
    }
}

fn ix<D: Dom>(t: D::T, w: &Where) -> Result<u64, Fail> {
    D::idx(t).ok_or_else(|| fail("out-of-domain", format!("{} yielded {t:?}, not a member of the domain", w.s())))
}
fn ixs<D: Dom>(it: impl Iterator<Item = D::T>, w: &Where) -> Result<Vec<u64>, Fail> {
    it.map(|t| ix::<D>(t, w)).collect()
}
fn ixr<D: Dom>(it: impl Iterator<Item = RangeInclusive<D::T>>, w: &Where) -> Result<Rs, Fail> {
    it.map(|r| Ok((ix::<D>(*r.start(), w)?, ix::<D>(*r.end(), w)?))).collect()
}

/// the whole query surface of one set against the model
fn check_set<D: Dom>(s: &IntSet<D::T>, m: &Rs, probes: &[u64], pool: &[u32], w: &Where) -> CaseResult {
    let n = D::N;
    let total = rs_len(m);
    if s.len() != total {
        return Err(fail("len", format!("{} len() = {}, model {} ({})", w.s(), s.len(), total, show_rs(m))));
    }
    if s.is_empty() != (total == 0) {
        return Err(fail("is_empty", format!("{} is_empty() = {}, model has {} members", w.s(), s.is_empty(), total)));
    }
    let first = s.first().map(|t| ix::<D>(t, w)).transpose()?;
    if first != m.first().map(|r| r.0) {
        return Err(fail("first", format!("{} first() = {:?}, model {:?}", w.s(), first, m.first().map(|r| r.0))));
    }
    let last = s.last().map(|t| ix::<D>(t, w)).transpose()?;
    if last != m.last().map(|r| r.1) {
        return Err(fail("last", format!("{} last() = {:?}, model {:?}", w.s(), last, m.last().map(|r| r.1))));
    }
    // membership on op elements, pool, model range edges (+-1)
    let mut pts: Vec<u64> = pool.iter().map(|p| *p as u64).collect();
    for p in probes {
        pts.extend([p.saturating_sub(1), *p, (*p + 1).min(n - 1)]);
    }
    let edge = |r: &(u64, u64), pts: &mut Vec<u64>| pts.extend([r.0.saturating_sub(1), r.0, r.1, (r.1 + 1).min(n - 1)]);
    for r in m.iter().take(8) {
        edge(r, &mut pts);
    }
    for r in m.iter().rev().take(8) {
        edge(r, &mut pts);
    }
    pts.sort_unstable();
    pts.dedup();
    for p in &pts {
        if s.contains(D::val(*p)) != has(m, *p) {
            return Err(fail("contains", format!("{} contains({}) = {}, model {} ({})", w.s(), p, !has(m, *p), has(m, *p), show_rs(m))));
        }
    }
    // iteration
    let small = total <= FULL;
    let k = if small { FULL as usize + 1 } else { K };
    let want_f = members_fwd(m, k);
    let want_b = members_back(m, k);
    let got_f = ixs::<D>(s.iter().take(k), w)?;
    if got_f != want_f {
        return Err(fail("iter-fwd", format!("{} iter() first {} = {:?}…, model {:?}… ({})", w.s(), k, &got_f[..got_f.len().min(12)], &want_f[..want_f.len().min(12)], show_rs(m))));
    }
    let got_b = ixs::<D>(s.iter().rev().take(k), w)?;
    if got_b != want_b {
        return Err(fail("iter-back", format!("{} iter().rev() first {} = {:?}…, model {:?}… ({})", w.s(), k, &got_b[..got_b.len().min(12)], &want_b[..want_b.len().min(12)], show_rs(m))));
    }
    {
        // mixed front/back consumption of one double-ended iterator: two from the front, one from the back, repeated
        let mut it = s.iter();
        let (mut fr, mut bk) = (vec![], vec![]);
        let rounds = if small { usize::MAX } else { K / 2 };
        let mut r = 0;
        'alt: while r < rounds {
            r += 1;
            for side in [0, 0, 1] {
                let x = if side == 0 { it.next() } else { it.next_back() };
                match x {
                    Some(t) => {
                        let i = ix::<D>(t, w)?;
                        if side == 0 {
                            fr.push(i)
                        } else {
                            bk.push(i)
                        }
                    }
                    None => break 'alt,
                }
            }
        }
        let ok = if small {
            let mut all = fr.clone();
            all.extend(bk.iter().rev());
            all == want_f && it.next().is_none() && it.next_back().is_none()
        } else {
            fr[..] == want_f[..fr.len().min(want_f.len())] && bk[..] == want_b[..bk.len().min(want_b.len())] && fr.len() <= want_f.len() && bk.len() <= want_b.len()
        };
        if !ok {
            return Err(fail("iter-mixed", format!("{} alternating next/next_back gave front {:?}… back {:?}…, model front {:?}… back {:?}…", w.s(), &fr[..fr.len().min(10)], &bk[..bk.len().min(10)], &want_f[..want_f.len().min(10)], &want_b[..want_b.len().min(10)])));
        }
    }
    // iter_after
    let mut afters: Vec<u64> = probes.iter().copied().take(4).collect();
    afters.extend([0, n - 1]);
    if let (Some(f), Some(l)) = (m.first(), m.last()) {
        afters.extend([f.0, f.1, l.0.saturating_sub(1), l.1.saturating_sub(1)]);
        let mid = m[m.len() / 2];
        afters.extend([mid.0.saturating_sub(1), mid.1]);
    }
    afters.sort_unstable();
    afters.dedup();
    // an inverted set that excludes long runs makes every start of an iteration walk those runs: fewer probes there
    let heavy = s.is_inverted() && n - total > 2000;
    if heavy {
        let step = afters.len().div_ceil(3).max(1);
        afters = afters.into_iter().step_by(step).collect();
    }
    for v in afters {
        let ka = if small { k } else { 8 };
        let want = members_after(m, v, ka);
        let got = ixs::<D>(s.iter_after(D::val(v)).take(ka), w)?;
        if got != want {
            return Err(fail("iter_after", format!("{} iter_after({}) first {} = {:?}…, model {:?}… ({})", w.s(), v, ka, &got[..got.len().min(12)], &want[..want.len().min(12)], show_rs(m))));
        }
    }
    // ranges
    let lim = 3000;
    let got_r = ixr::<D>(s.iter_ranges().take(lim + 1), w)?;
    if got_r[..] != m[..m.len().min(lim + 1)] {
        return Err(fail("iter_ranges", format!("{} iter_ranges() = {}, model {}", w.s(), show_rs(&got_r), show_rs(m))));
    }
    let comp = complement(m, n);
    let got_x = ixr::<D>(s.iter_excluded_ranges().take(lim + 1), w)?;
    if got_x[..] != comp[..comp.len().min(lim + 1)] {
        return Err(fail("iter_excluded_ranges", format!("{} iter_excluded_ranges() = {}, model {}", w.s(), show_rs(&got_x), show_rs(&comp))));
    }
    // inclusive_iter: present iff not inverted, and then it is the member sequence
    match s.inclusive_iter() {
        Some(it) => {
            if s.is_inverted() {
                return Err(fail("inclusive_iter", format!("{} inclusive_iter() is Some on an inverted set", w.s())));
            }
            let got = ixs::<D>(it.take(k), w)?;
            if got != want_f {
                return Err(fail("inclusive_iter", format!("{} inclusive_iter() = {:?}…, model {:?}…", w.s(), &got[..got.len().min(12)], &want_f[..want_f.len().min(12)])));
            }
            let got = ixs::<D>(s.inclusive_iter().unwrap().rev().take(k), w)?;
            if got != want_b {
                return Err(fail("inclusive_iter", format!("{} inclusive_iter().rev() = {:?}…, model {:?}…", w.s(), &got[..got.len().min(12)], &want_b[..want_b.len().min(12)])));
            }
        }
        None => {
            if !s.is_inverted() {
                return Err(fail("inclusive_iter", format!("{} inclusive_iter() is None on a set that is not inverted", w.s())));
            }
        }
    }
    // intersects_range on (thinned) consecutive probe points, singletons, gaps and reversed (empty) ranges
    let stride = pts.len() / 10 + 1;
    let sel: Vec<u64> = pts.iter().copied().step_by(stride).collect();
    let mut pairs: Vec<(u64, u64)> = vec![];
    for wd in sel.windows(2) {
        pairs.push((wd[0], wd[1]));
        pairs.push((wd[1], wd[0]));
    }
    for p in probes.iter().take(3) {
        pairs.push((*p, *p));
    }
    if probes.len() >= 2 {
        pairs.push((probes[0].min(probes[1]), probes[0].max(probes[1])));
    }
    for r in m.iter().take(2).chain(m.iter().rev().take(2)) {
        pairs.push((r.1, r.1));
        if r.1 + 1 < n {
            let gap_end = succ(m, r.1).map(|x| x - 1).unwrap_or(n - 1);
            pairs.push((r.1 + 1, gap_end));
            pairs.push((r.1 + 1, (gap_end + 1).min(n - 1)));
        }
        if r.0 > 0 {
            pairs.push((0, r.0 - 1));
        }
    }
    pairs.push((0, n - 1));
    if heavy {
        let step = pairs.len().div_ceil(6).max(1);
        pairs = pairs.into_iter().step_by(step).collect();
    }
    for (lo, hi) in pairs {
        let want = hits(m, lo, hi);
        if s.intersects_range(D::val(lo)..=D::val(hi)) != want {
            return Err(fail("intersects_range", format!("{} intersects_range({}..={}) = {}, model {} ({})", w.s(), lo, hi, !want, want, show_rs(m))));
        }
    }
    Ok(())
}

fn check_pair<D: Dom>(s: &[IntSet<D::T>; 2], m: &[Rs; 2], st: &Stats, w: &Where) -> CaseResult {
    let eq = m[0] == m[1];
    if (s[0] == s[1]) != eq || (s[1] == s[0]) != eq {
        return Err(fail("eq", format!("{} A == B is {}, B == A is {}, model {} (A {}, B {})", w.s(), s[0] == s[1], s[1] == s[0], eq, show_rs(&m[0]), show_rs(&m[1]))));
    }
    let want = model_cmp(&m[0], &m[1]);
    let got = s[0].cmp(&s[1]);
    let got_r = s[1].cmp(&s[0]);
    if got != want || got_r != want.reverse() {
        return Err(fail("ord", format!("{} A.cmp(B) = {:?}, B.cmp(A) = {:?}, model {:?} (A {}{}, B {}{})", w.s(), got, got_r, want, if s[0].is_inverted() { "inverted " } else { "" }, show_rs(&m[0]), if s[1].is_inverted() { "inverted " } else { "" }, show_rs(&m[1]))));
    }
    if eq && hsh(&s[0]) != hsh(&s[1]) {
        return Err(fail("hash", format!("{} equal sets hash differently ({})", w.s(), show_rs(&m[0]))));
    }
    let inter = !and(&m[0], &m[1]).is_empty();
    if s[0].intersects_set(&s[1]) != inter || s[1].intersects_set(&s[0]) != inter {
        return Err(fail("intersects_set", format!("{} A.intersects_set(B) = {}, B.intersects_set(A) = {}, model {} (A {}, B {})", w.s(), s[0].intersects_set(&s[1]), s[1].intersects_set(&s[0]), inter, show_rs(&m[0]), show_rs(&m[1]))));
    }
    let mixed = s[0].is_inverted() != s[1].is_inverted();
    if eq && !m[0].is_empty() {
        st.class(if mixed { "pair:equal-nonempty-mixed-mode" } else { "pair:equal-nonempty-same-mode" });
    }
    if mixed {
        st.class("pair:mixed-mode");
    }
    Ok(())
}

/// a set with the given members stored inclusively or exclusively (exclusive needs the complement to be storable)
fn build<D: Dom>(m: &Rs, exclusive: bool) -> IntSet<D::T> {
    if exclusive {
        let mut t = IntSet::<D::T>::empty();
        for r in complement(m, D::N) {
            t.insert_range(D::val(r.0)..=D::val(r.1));
        }
        t.invert();
        t
    } else {
        let mut t = IntSet::<D::T>::empty();
        for r in m {
            t.insert_range(D::val(r.0)..=D::val(r.1));
        }
        t
    }
}

fn run_hist<D: Dom>(c: &HistCase, st: &Stats) -> CaseResult {
    let n = D::N;
    let cl = |e: u32| (e as u64).min(n - 1);
    let pool = c.dom.pool();
    let mut s: [IntSet<D::T>; 2] = [if c.a_all { IntSet::all() } else { IntSet::new() }, c.b_init.iter().map(|e| D::val(cl(*e))).collect()];
    let mut m: [Rs; 2] = [if c.a_all { vec![(0, n - 1)] } else { vec![] }, from_points(c.b_init.iter().map(|e| cl(*e)))];
    if c.b_inv {
        s[1].invert();
        m[1] = complement(&m[1], n);
    }
    for x in 0..2 {
        let w = Where { dom: D::NAME, step: 0, op: None, which: if x == 0 { "A" } else { "B" } };
        check_set::<D>(&s[x], &m[x], &[], &pool, &w)?;
    }
    let mut nt = false;
    let mut on_inverted = 0u64;
    for (i, step) in c.steps.iter().enumerate() {
        let x = step.b as usize;
        let y = 1 - x;
        let w = Where { dom: D::NAME, step: i + 1, op: Some(step), which: if x == 0 { "A" } else { "B" } };
        let mut probes: Vec<u64> = vec![];
        let (inv_x, inv_y) = (s[x].is_inverted(), s[y].is_inverted());
        if inv_x {
            on_inverted += 1;
        }
        let mut checked_other = false;
        {
            let (l, r) = s.split_at_mut(1);
            let (sx, sy): (&mut IntSet<D::T>, &mut IntSet<D::T>) = if x == 0 { (&mut l[0], &mut r[0]) } else { (&mut r[0], &mut l[0]) };
            let vals = |v: &Vec<u32>| -> Vec<u64> { v.iter().map(|e| cl(*e)).collect() };
            match &step.op {
                Op::Insert(e) => {
                    let e = cl(*e);
                    let want = !has(&m[x], e);
                    let got = sx.insert(D::val(e));
                    m[x] = or(&m[x], &[(e, e)]);
                    probes.push(e);
                    if got != want {
                        return Err(fail("insert-return", format!("{} insert({e}) returned {got}, model {want}", w.s())));
                    }
                }
                Op::Remove(e) => {
                    let e = cl(*e);
                    let want = has(&m[x], e);
                    let got = sx.remove(D::val(e));
                    m[x] = minus(&m[x], &[(e, e)]);
                    probes.push(e);
                    if got != want {
                        return Err(fail("remove-return", format!("{} remove({e}) returned {got}, model {want}", w.s())));
                    }
                }
                Op::InsertRange(a, b) => {
                    let (a, b) = (cl(*a), cl(*b));
                    sx.insert_range(D::val(a)..=D::val(b));
                    if a <= b {
                        m[x] = or(&m[x], &[(a, b)]);
                    }
                    probes.extend([a, b]);
                }
                Op::RemoveRange(a, b) => {
                    let (a, b) = (cl(*a), cl(*b));
                    sx.remove_range(D::val(a)..=D::val(b));
                    if a <= b {
                        m[x] = minus(&m[x], &[(a, b)]);
                    }
                    probes.extend([a, b]);
                }
                Op::Extend(v) => {
                    let v = vals(v);
                    sx.extend(v.iter().map(|e| D::val(*e)));
                    m[x] = or(&m[x], &from_points(v.iter().copied()));
                    probes.extend(v);
                }
                Op::ExtendSorted(v) => {
                    let mut v = vals(v);
                    v.sort_unstable();
                    sx.extend(v.iter().map(|e| D::val(*e)));
                    m[x] = or(&m[x], &from_points(v.iter().copied()));
                    probes.extend(v);
                }
                Op::ExtendUnsorted(v) => {
                    let v = vals(v);
                    sx.extend_unsorted(v.iter().map(|e| D::val(*e)));
                    m[x] = or(&m[x], &from_points(v.iter().copied()));
                    probes.extend(v);
                }
                Op::RemoveAll(v) => {
                    let v = vals(v);
                    sx.remove_all(v.iter().map(|e| D::val(*e)));
                    m[x] = minus(&m[x], &from_points(v.iter().copied()));
                    probes.extend(v);
                }
                Op::Collect(v) => {
                    let v = vals(v);
                    *sx = v.iter().map(|e| D::val(*e)).collect();
                    m[x] = from_points(v.iter().copied());
                    probes.extend(v);
                }
                Op::Union => {
                    sx.union(sy);
                    m[x] = or(&m[x], &m[y]);
                }
                Op::Intersect => {
                    sx.intersect(sy);
                    m[x] = and(&m[x], &m[y]);
                }
                Op::Subtract => {
                    sx.subtract(sy);
                    m[x] = minus(&m[x], &m[y]);
                }
                Op::Invert => {
                    sx.invert();
                    m[x] = complement(&m[x], n);
                    nt = true;
                }
                Op::Clear => {
                    sx.clear();
                    m[x] = vec![];
                }
                Op::Fill => {
                    *sx = IntSet::all();
                    m[x] = vec![(0, n - 1)];
                    nt = true;
                }
                Op::Assign => {
                    *sx = sy.clone();
                    m[x] = m[y].clone();
                }
                Op::Converge(method) => {
                    let surplus = minus(&m[x], &m[y]);
                    let missing = minus(&m[y], &m[x]);
                    let widest = surplus.iter().chain(missing.iter()).map(|r| r.1 - r.0).max().unwrap_or(0);
                    let changes = rs_len(&surplus) + rs_len(&missing);
                    // wide differences (e.g. sets of different modes) only through set algebra: no million-page inserts
                    let method = if widest > 100_000 { 3 } else if changes > 64 && matches!(*method % 5, 1 | 2) { 0 } else { *method % 5 };
                    match method {
                        0 => {
                            for r in &surplus {
                                sx.remove_range(D::val(r.0)..=D::val(r.1));
                            }
                            for r in &missing {
                                sx.insert_range(D::val(r.0)..=D::val(r.1));
                            }
                        }
                        1 => {
                            for v in members_fwd(&surplus, 65) {
                                sx.remove(D::val(v));
                            }
                            for v in members_fwd(&missing, 65) {
                                sx.insert(D::val(v));
                            }
                        }
                        2 => {
                            sx.remove_all(members_fwd(&surplus, 65).into_iter().map(D::val));
                            sx.extend(members_fwd(&missing, 65).into_iter().map(D::val));
                        }
                        3 => {
                            sx.intersect(sy);
                            sx.union(sy);
                        }
                        _ => {
                            let mut h1 = IntSet::<D::T>::empty();
                            for r in &surplus {
                                h1.insert_range(D::val(r.0)..=D::val(r.1));
                            }
                            let mut h2 = IntSet::<D::T>::empty();
                            for r in &missing {
                                h2.insert_range(D::val(r.0)..=D::val(r.1));
                            }
                            sx.subtract(&h1);
                            sx.union(&h2);
                        }
                    }
                    m[x] = m[y].clone();
                    probes.extend(surplus.iter().chain(missing.iter()).take(3).map(|r| r.0));
                    st.class("pair:converged(equal members, independent histories)");
                    if i > 0 {
                        nt = true;
                    }
                }
                Op::Mirror => {
                    *sy = if n <= 65_536 { build::<D>(&m[x], !inv_x) } else { sx.clone() };
                    m[y] = m[x].clone();
                    checked_other = true;
                }
            }
        }
        if matches!(step.op, Op::Union | Op::Intersect | Op::Subtract) {
            let cls = match (inv_x, inv_y) {
                (false, false) => "binop:incl-incl",
                (false, true) => "binop:incl-excl",
                (true, false) => "binop:excl-incl",
                (true, true) => "binop:excl-excl",
            };
            st.class(cls);
            if inv_x != inv_y {
                nt = true;
            }
            // the operand of a binary operation must be unchanged: covered by the pair checks on the model of y
        }
        check_set::<D>(&s[x], &m[x], &probes, &pool, &w)?;
        if checked_other || matches!(step.op, Op::Union | Op::Intersect | Op::Subtract | Op::Assign) {
            let wy = Where { dom: D::NAME, step: i + 1, op: Some(step), which: if y == 0 { "A (the other set)" } else { "B (the other set)" } };
            check_set::<D>(&s[y], &m[y], &probes, &pool, &wy)?;
        }
        check_pair::<D>(&s, &m, st, &w)?;
    }
    st.evals(c.steps.len() as u64);
    st.class_n("hist:steps-on-inverted-set", on_inverted);
    st.class(match c.steps.len() {
        0 => "hist:len=0",
        1..=4 => "hist:len=1..4",
        5..=50 => "hist:len=5..50",
        _ => "hist:len>50",
    });
    st.class(&format!("hist:dom={}", D::NAME));
    if nt && !c.steps.is_empty() {
        st.nontrivial(hash_json(c));
        if c.steps.len() <= 12 && c.steps.len() >= 5 && st.want_sample() && sample_slot(&S_HIST, 3) {
            st.sample(json!({"stage": "history", "case": c, "final_A": show_rs(&m[0]), "final_B": show_rs(&m[1]), "A_inverted": s[0].is_inverted(), "B_inverted": s[1].is_inverted()}));
        }
    }
    Ok(())
}

fn test_hist(c: &HistCase, st: &Stats) -> CaseResult {
    match c.dom {
        Dk::U32 => run_hist::<DU32>(c, st),
        Dk::U16 => run_hist::<DU16>(c, st),
        Dk::U8 => run_hist::<DU8>(c, st),
        Dk::Gid16 => run_hist::<DGid16>(c, st),
        Dk::Gid => run_hist::<DGid>(c, st),
        Dk::Tag => run_hist::<DTag>(c, st),
        Dk::NameId => run_hist::<DName>(c, st),
        Dk::Ev => run_hist::<DEv>(c, st),
    }
}

// ---- random history generator ---------------------------------------------------------------
fn elem(dk: Dk) -> BoxedStrategy<u32> {
    let n = dk.n();
    let pool = dk.pool();
    let top = (n - 1) as u32;
    let any_el: BoxedStrategy<u32> = if n == 1 << 32 { any::<u32>().boxed() } else { (0u32..=top).boxed() };
    prop_oneof![
        5 => select(pool.clone()),
        3 => (select(pool), -3i64..=3).prop_map(move |(p, d)| (p as i64 + d).clamp(0, top as i64) as u32),
        2 => 0u32..=top.min(1100),
        1 => any_el,
    ]
    .boxed()
}
fn range_of(dk: Dk) -> BoxedStrategy<(u32, u32)> {
    let top = (dk.n() - 1) as u32;
    let width = prop_oneof![70 => 0u32..40, 20 => 0u32..1500, 8 => 0u32..20_000, 2 => 0u32..70_000];
    (elem(dk), width, 0u32..100)
        .prop_map(move |(a, w, rev)| {
            if rev < 6 {
                (a, a.saturating_sub(w.saturating_add(1))) // reversed (empty) unless a == 0
            } else {
                (a, a.saturating_add(w).min(top))
            }
        })
        .boxed()
}
fn op_strategy(dk: Dk) -> BoxedStrategy<Op> {
    let list = || proptest::collection::vec(elem(dk), 0..12);
    prop_oneof![
        60 => elem(dk).prop_map(Op::Insert),
        50 => elem(dk).prop_map(Op::Remove),
        40 => range_of(dk).prop_map(|(a, b)| Op::InsertRange(a, b)),
        40 => range_of(dk).prop_map(|(a, b)| Op::RemoveRange(a, b)),
        10 => list().prop_map(Op::Extend),
        10 => list().prop_map(Op::ExtendSorted),
        10 => list().prop_map(Op::ExtendUnsorted),
        20 => list().prop_map(Op::RemoveAll),
        4 => list().prop_map(Op::Collect),
        22 => Just(Op::Union),
        18 => Just(Op::Intersect),
        22 => Just(Op::Subtract),
        22 => Just(Op::Invert),
        2 => Just(Op::Clear),
        2 => Just(Op::Fill),
        5 => Just(Op::Assign),
        8 => Just(Op::Mirror),
        10 => (0u8..5).prop_map(Op::Converge),
    ]
    .boxed()
}
fn hist_for(dk: Dk, max_len: usize) -> BoxedStrategy<HistCase> {
    let step = (0u32..10, op_strategy(dk)).prop_map(|(b, op)| Step { b: b < 3, op });
    (0u32..4, proptest::collection::vec(elem(dk), 0..6), 0u32..4, proptest::collection::vec(step, 0..max_len))
        .prop_map(move |(a_all, b_init, b_inv, steps)| HistCase { dom: dk, a_all: a_all == 0, b_init, b_inv: b_inv == 0, steps })
        .boxed()
}
fn hist_strategy() -> impl Strategy<Value = HistCase> {
    prop_oneof![
        5 => hist_for(Dk::U32, 200),
        4 => hist_for(Dk::U16, 200),
        2 => hist_for(Dk::U8, 200),
        1 => hist_for(Dk::Gid16, 120),
        1 => hist_for(Dk::Gid, 120),
        1 => hist_for(Dk::Tag, 120),
        1 => hist_for(Dk::NameId, 120),
        3 => hist_for(Dk::Ev, 80),
    ]
}

/// Short detours on both sets (inserts and removals in pages of their own, range removals, clears of ranges, intersections),
/// then one set is given the other's members by surgery (never by copying), optionally followed by inverting both:
/// equal member sets reached by different histories, each with its own left-over pages.
fn converge_for(dk: Dk) -> BoxedStrategy<HistCase> {
    let detour = prop_oneof![
        30 => elem(dk).prop_map(Op::Insert),
        30 => elem(dk).prop_map(Op::Remove),
        10 => range_of(dk).prop_map(|(a, b)| Op::InsertRange(a, b)),
        15 => range_of(dk).prop_map(|(a, b)| Op::RemoveRange(a, b)),
        8 => proptest::collection::vec(elem(dk), 0..6).prop_map(Op::RemoveAll),
        5 => proptest::collection::vec(elem(dk), 0..6).prop_map(Op::ExtendUnsorted),
        4 => Just(Op::Intersect),
        3 => Just(Op::Subtract),
        2 => Just(Op::Union),
        2 => Just(Op::Invert),
    ];
    let step = (any::<bool>(), detour).prop_map(|(b, op)| Step { b, op });
    let segment = (proptest::collection::vec(step, 0..7), any::<bool>(), 0u8..5, 0u32..4).prop_map(|(mut steps, side, method, tail)| {
        steps.push(Step { b: side, op: Op::Converge(method) });
        if tail == 0 {
            steps.push(Step { b: false, op: Op::Invert });
            steps.push(Step { b: true, op: Op::Invert });
        }
        steps
    });
    (0u32..6, proptest::collection::vec(elem(dk), 0..4), 0u32..6, proptest::collection::vec(segment, 1..4))
        .prop_map(move |(a_all, b_init, b_inv, segs)| HistCase { dom: dk, a_all: a_all == 0, b_init, b_inv: b_inv == 0, steps: segs.into_iter().flatten().collect() })
        .boxed()
}
fn converge_strategy() -> impl Strategy<Value = HistCase> {
    prop_oneof![5 => converge_for(Dk::U32), 4 => converge_for(Dk::U16), 1 => converge_for(Dk::U8), 1 => converge_for(Dk::Gid16), 1 => converge_for(Dk::Gid), 1 => converge_for(Dk::Tag), 1 => converge_for(Dk::NameId), 2 => converge_for(Dk::Ev)]
}

// ---- exhaustive bounded histories -----------------------------------------------------------
const EXH_POOL: [u32; 6] = [0, 511, 512, 1023, 1024, 65_535];
const EXH_RANGES: [(u32, u32); 4] = [(0, 511), (512, 1023), (511, 1024), (1024, 65_535)];
const EXH_ALPHABET: u64 = 31;
const EXH_LEN: u32 = 4;
fn exh_op(k: u64) -> Step {
    let a = |op| Step { b: false, op };
    let b = |op| Step { b: true, op };
    match k {
        0..=5 => a(Op::Insert(EXH_POOL[k as usize])),
        6..=11 => a(Op::Remove(EXH_POOL[k as usize - 6])),
        12..=15 => a(Op::InsertRange(EXH_RANGES[k as usize - 12].0, EXH_RANGES[k as usize - 12].1)),
        16..=19 => a(Op::RemoveRange(EXH_RANGES[k as usize - 16].0, EXH_RANGES[k as usize - 16].1)),
        20 => a(Op::Invert),
        21 => a(Op::Clear),
        22 => a(Op::Union),
        23 => a(Op::Intersect),
        24 => a(Op::Subtract),
        25 => b(Op::Invert),
        26 => b(Op::Insert(1023)),
        27 => b(Op::Remove(512)),
        28 => b(Op::InsertRange(0, 512)),
        29 => a(Op::ExtendUnsorted(vec![1024, 0, 512])),
        _ => a(Op::RemoveAll(vec![511, 65_535, 1023])),
    }
}
fn exh_total() -> u64 {
    2 * EXH_ALPHABET.pow(EXH_LEN)
}
fn exh_case(i: u64) -> HistCase {
    let a_all = i % 2 == 1;
    let mut j = i / 2;
    let mut steps = vec![];
    for _ in 0..EXH_LEN {
        steps.push(exh_op(j % EXH_ALPHABET));
        j /= EXH_ALPHABET;
    }
    HistCase { dom: Dk::U16, a_all, b_init: vec![511, 512, 1024], b_inv: false, steps }
}

// =============================================================================================
// Eq / Ord / Hash on pairs built by different routes
// =============================================================================================
#[derive(Clone, Debug, Serialize, Deserialize)]
struct Desc {
    els: Vec<u32>,
    ranges: Vec<(u32, u32)>,
    /// the described set is the complement of els + ranges
    inv: bool,
    /// store it exclusively (ignored on 2^32-value domains, where storage follows `inv`)
    excl: bool,
}
#[derive(Clone, Debug, Serialize, Deserialize)]
enum Second {
    Independent(Desc),
    /// the first set with these elements toggled (empty: an equal set), stored as told
    Toggled { toggle: Vec<u32>, excl: bool },
}
#[derive(Clone, Debug, Serialize, Deserialize)]
struct EqCase {
    dom: Dk,
    a: Desc,
    b: Second,
}
fn desc_strategy(dk: Dk) -> BoxedStrategy<Desc> {
    (proptest::collection::vec(elem(dk), 0..8), proptest::collection::vec(range_of(dk), 0..3), any::<bool>(), any::<bool>())
        .prop_map(|(els, ranges, inv, excl)| Desc { els, ranges, inv, excl })
        .boxed()
}
fn eq_for(dk: Dk) -> BoxedStrategy<EqCase> {
    let second = prop_oneof![
        3 => desc_strategy(dk).prop_map(Second::Independent),
        2 => (proptest::collection::vec(elem(dk), 0..3), any::<bool>()).prop_map(|(toggle, excl)| Second::Toggled { toggle, excl }),
        1 => any::<bool>().prop_map(|excl| Second::Toggled { toggle: vec![], excl }),
    ];
    (desc_strategy(dk), second).prop_map(move |(a, b)| EqCase { dom: dk, a, b }).boxed()
}
fn eq_strategy() -> impl Strategy<Value = EqCase> {
    prop_oneof![4 => eq_for(Dk::U16), 2 => eq_for(Dk::U8), 2 => eq_for(Dk::Ev), 2 => eq_for(Dk::U32), 1 => eq_for(Dk::Tag), 1 => eq_for(Dk::NameId)]
}
fn run_eq<D: Dom>(c: &EqCase, st: &Stats) -> CaseResult {
    let n = D::N;
    let cl = |e: u32| (e as u64).min(n - 1);
    let big = n > 65_536;
    let target = |d: &Desc| -> Rs {
        let mut m = from_points(d.els.iter().map(|e| cl(*e)));
        for (a, b) in &d.ranges {
            let (a, b) = (cl(*a), cl(*b));
            if a <= b {
                m = or(&m, &[(a, b)]);
            }
        }
        if d.inv {
            complement(&m, n)
        } else {
            m
        }
    };
    let ma = target(&c.a);
    let ea = if big { c.a.inv } else { c.a.excl };
    let (mb, eb) = match &c.b {
        Second::Independent(d) => (target(d), if big { d.inv } else { d.excl }),
        Second::Toggled { toggle, excl } => (combine(&ma, &from_points(toggle.iter().map(|e| cl(*e))), |x, y| x != y), if big { c.a.inv } else { *excl }),
    };
    let s = [build::<D>(&ma, ea), build::<D>(&mb, eb)];
    let m = [ma, mb];
    for x in 0..2 {
        if s[x].len() != rs_len(&m[x]) || s[x].is_inverted() != [ea, eb][x] {
            return Err(fail("eqord-build", format!("[{}] built set {} has len {} inverted {}, wanted {} members ({}) inverted {}", D::NAME, x, s[x].len(), s[x].is_inverted(), rs_len(&m[x]), show_rs(&m[x]), [ea, eb][x])));
        }
    }
    let w = Where { dom: D::NAME, step: 0, op: None, which: "A/B" };
    check_pair::<D>(&s, &m, st, &w)?;
    // a clone and a twice-inverted copy are equal to the original, with equal hash
    let mut t = s[0].clone();
    t.invert();
    t.invert();
    if t != s[0] || hsh(&t) != hsh(&s[0]) || t.cmp(&s[0]) != Ordering::Equal {
        return Err(fail("eq", format!("[{}] a twice inverted clone differs from the original ({})", D::NAME, show_rs(&m[0]))));
    }
    st.class(&format!("eqord:dom={}", D::NAME));
    st.class(match model_cmp(&m[0], &m[1]) {
        Ordering::Equal => "eqord:equal",
        Ordering::Less => "eqord:less",
        Ordering::Greater => "eqord:greater",
    });
    if ea != eb {
        st.class("eqord:mixed-mode");
        st.nontrivial(hash_json(c));
    }
    Ok(())
}
fn test_eq(c: &EqCase, st: &Stats) -> CaseResult {
    match c.dom {
        Dk::U32 => run_eq::<DU32>(c, st),
        Dk::U16 => run_eq::<DU16>(c, st),
        Dk::U8 => run_eq::<DU8>(c, st),
        Dk::Gid16 => run_eq::<DGid16>(c, st),
        Dk::Gid => run_eq::<DGid>(c, st),
        Dk::Tag => run_eq::<DTag>(c, st),
        Dk::NameId => run_eq::<DName>(c, st),
        Dk::Ev => run_eq::<DEv>(c, st),
    }
}

// =============================================================================================
// RangeSet
// =============================================================================================
#[derive(Clone, Copy, Debug, Serialize, Deserialize, PartialEq, Eq)]
enum Rk {
    U32,
    U16,
    Fixed,
}
#[derive(Clone, Debug, Serialize, Deserialize)]
enum ROp {
    /// inclusive range in index space (Fixed: index = bits - i32::MIN); start > end is ignored by the set
    Insert(u32, u32),
    Extend(Vec<(u32, u32)>),
    Collect(Vec<(u32, u32)>),
    Reset,
}
#[derive(Clone, Debug, Serialize, Deserialize)]
struct RCase {
    ty: Rk,
    steps: Vec<(bool, ROp)>,
}
fn r_range(ty: Rk) -> BoxedStrategy<(u32, u32)> {
    let top: u32 = if ty == Rk::U16 { 0xFFFF } else { u32::MAX };
    let pool: Vec<u32> = [0u32, 1, 2, 10, 11, 12, 20, 100, 101, 0x7FFF_FFFF, 0x8000_0000, 0x8000_0001, 0xFFFE, 0xFFFF, top - 1, top].into_iter().filter(|v| *v <= top).collect();
    let el = prop_oneof![4 => select(pool.clone()), 3 => (select(pool), -3i64..=3).prop_map(move |(p, d)| (p as i64 + d).clamp(0, top as i64) as u32), 4 => 0u32..60, 1 => 0u32..=top];
    let width = prop_oneof![6 => 0u32..6, 3 => 0u32..40, 1 => any::<u32>()];
    (el, width, 0u32..100).prop_map(move |(a, w, rev)| if rev < 5 { (a, a.saturating_sub(w.saturating_add(1))) } else { (a, a.saturating_add(w).min(top)) }).boxed()
}
fn r_strategy() -> impl Strategy<Value = RCase> {
    let f = |ty: Rk| {
        let list = move || proptest::collection::vec(r_range(ty), 0..6);
        let op = prop_oneof![12 => r_range(ty).prop_map(|(a, b)| ROp::Insert(a, b)), 3 => list().prop_map(ROp::Extend), 1 => list().prop_map(ROp::Collect), 1 => Just(ROp::Reset)];
        proptest::collection::vec((prop::bool::weighted(0.4), op), 0..40).prop_map(move |steps| RCase { ty, steps }).boxed()
    };
    prop_oneof![f(Rk::U32), f(Rk::U16), f(Rk::Fixed)]
}
macro_rules! run_rangeset {
    ($fname:ident, $t:ty, $label:expr, $n:expr, |$i:ident| $val:expr, |$v:ident| $idx:expr) => {
        fn $fname(c: &RCase, st: &Stats) -> CaseResult {
            let n: u64 = $n;
            let val = |$i: u64| -> $t { $val };
            let idx = |$v: $t| -> u64 { $idx };
            let cl = |e: u32| (e as u64).min(n - 1);
            let mut s: [RangeSet<$t>; 2] = [RangeSet::default(), RangeSet::default()];
            let mut m: [Rs; 2] = [vec![], vec![]];
            let mut merged = false;
            let ins = |m: &Rs, a: u64, b: u64, merged: &mut bool| -> Rs {
                if a > b {
                    return m.clone();
                }
                let out = or(m, &[(a, b)]);
                if out.len() <= m.len() && &out != m {
                    *merged = true; // touched at least one existing range
                }
                out
            };
            for (i, (on_b, op)) in c.steps.iter().enumerate() {
                let x = *on_b as usize;
                match op {
                    ROp::Insert(a, b) => {
                        let (a, b) = (cl(*a), cl(*b));
                        s[x].insert(val(a)..=val(b));
                        m[x] = ins(&m[x], a, b, &mut merged);
                    }
                    ROp::Extend(v) => {
                        s[x].extend(v.iter().map(|(a, b)| val(cl(*a))..=val(cl(*b))));
                        for (a, b) in v {
                            m[x] = ins(&m[x], cl(*a), cl(*b), &mut merged);
                        }
                    }
                    ROp::Collect(v) => {
                        s[x] = v.iter().map(|(a, b)| val(cl(*a))..=val(cl(*b))).collect();
                        m[x] = vec![];
                        for (a, b) in v {
                            m[x] = ins(&m[x], cl(*a), cl(*b), &mut merged);
                        }
                    }
                    ROp::Reset => {
                        s[x] = RangeSet::default();
                        m[x] = vec![];
                    }
                }
                let got: Rs = s[x].iter().map(|r| (idx(*r.start()), idx(*r.end()))).collect();
                if got != m[x] {
                    // say which invariant broke
                    let sorted = got.windows(2).all(|w| w[0].0 < w[1].0);
                    let disjoint = got.windows(2).all(|w| w[0].1 < w[1].0) && got.iter().all(|r| r.0 <= r.1);
                    let nonadj = got.windows(2).all(|w| w[0].1 + 1 < w[1].0);
                    let what = if !sorted { "rangeset-sorted" } else if !disjoint { "rangeset-disjoint" } else if !nonadj { "rangeset-adjacent" } else { "rangeset-members" };
                    return Err(fail(what, format!("[RangeSet<{}> set {} after step {} {:?}] ranges {} but the model has {}", $label, x, i + 1, op, show_rs(&got), show_rs(&m[x]))));
                }
                if s[x].is_empty() != m[x].is_empty() {
                    return Err(fail("rangeset-is_empty", format!("[RangeSet<{}> step {}] is_empty() = {} with ranges {}", $label, i + 1, s[x].is_empty(), show_rs(&m[x]))));
                }
                let want = and(&m[0], &m[1]);
                for (p, q) in [(0usize, 1usize), (1, 0)] {
                    let got: Rs = s[p].intersection(&s[q]).map(|r| (idx(*r.start()), idx(*r.end()))).collect();
                    let ordered = got.windows(2).all(|w| w[0].1 < w[1].0) && got.iter().all(|r| r.0 <= r.1);
                    // membership: canonicalise what came out
                    let mut canon: Rs = vec![];
                    if ordered {
                        for r in &got {
                            canon = or(&canon, &[*r]);
                        }
                    }
                    if !ordered || canon != want {
                        return Err(fail("rangeset-intersection", format!("[RangeSet<{}> after step {} {:?}] intersection({}∩{}) = {} but the model has {} (A {}, B {})", $label, i + 1, op, p, q, show_rs(&got), show_rs(&want), show_rs(&m[0]), show_rs(&m[1]))));
                    }
                }
                if (s[0] == s[1]) != (m[0] == m[1]) {
                    return Err(fail("rangeset-eq", format!("[RangeSet<{}> step {}] A == B is {} for A {}, B {}", $label, i + 1, s[0] == s[1], show_rs(&m[0]), show_rs(&m[1]))));
                }
            }
            st.evals(c.steps.len() as u64);
            st.class(concat!("rangeset:", $label));
            let inter = !and(&m[0], &m[1]).is_empty();
            if inter {
                st.class("rangeset:final-intersection-nonempty");
            }
            if merged {
                st.class("rangeset:merged");
                st.nontrivial(hash_json(c));
            }
            Ok(())
        }
    };
}
run_rangeset!(rangeset_u32, u32, "u32", 1 << 32, |i| i as u32, |v| v as u64);
run_rangeset!(rangeset_u16, u16, "u16", 1 << 16, |i| i as u16, |v| v as u64);
run_rangeset!(rangeset_fixed, Fixed, "Fixed", 1 << 32, |i| Fixed::from_bits((i as i64 + i32::MIN as i64) as i32), |v| (v.to_bits() as i64 - i32::MIN as i64) as u64);
fn test_rangeset(c: &RCase, st: &Stats) -> CaseResult {
    match c.ty {
        Rk::U32 => rangeset_u32(c, st),
        Rk::U16 => rangeset_u16(c, st),
        Rk::Fixed => rangeset_fixed(c, st),
    }
}

// =============================================================================================
// Sparse bit set codec
// =============================================================================================
fn bf_of(code: u8) -> u32 {
    [2, 4, 8, 32][(code & 3) as usize]
}
/// documented maximum heights of the implementation (BranchFactor::max_height)
fn max_height(bf: u32) -> u32 {
    match bf {
        2 => 31,
        4 => 16,
        8 => 11,
        _ => 7,
    }
}
struct RefOut {
    ranges: Vec<(u32, u32)>,
    consumed: usize,
    height: u32,
    filled: bool,
    dropped: bool,
    total: u64,
}
/// Transcription of the IFT specification's "sparse bit set decoding" algorithm, in arbitrary-width arithmetic:
/// header byte (bits 0-1 branch factor code, bits 2-6 height H); H = 0: empty set; otherwise a FIFO queue of
/// (start, depth) seeded with (0, 1); for each node read B bits (least significant bit of each byte first): all zero:
/// every value of [start, start + B^(H-depth+1) - 1] is a member; else bit i set: depth = H: start + i is a member,
/// depth < H: enqueue (start + i * B^(H-depth), depth + 1). Running out of input is an error. Members are reported
/// + bias, those > max dropped. Consumed = header + whole bytes touched by the node bits.
fn ref_decode(data: &[u8], bias: u32, max: u32) -> Result<RefOut, ()> {
    ref_decode_vol(data, bias, max, &mut 0)
}
/// `vol` receives the number of members produced so far, also when the input then runs out
fn ref_decode_vol(data: &[u8], bias: u32, max: u32, vol: &mut u64) -> Result<RefOut, ()> {
    let b0 = *data.first().ok_or(())?;
    let bf = bf_of(b0) as u128;
    let h = ((b0 >> 2) & 0x1F) as u32;
    if h == 0 {
        return Ok(RefOut { ranges: vec![], consumed: 1, height: 0, filled: false, dropped: false, total: 0 });
    }
    let mut bitpos: usize = 8;
    let mut read = |n: u32| -> Result<u64, ()> {
        let mut v = 0u64;
        for i in 0..n {
            let byte = *data.get(bitpos / 8).ok_or(())?;
            v |= (((byte >> (bitpos % 8)) & 1) as u64) << i;
            bitpos += 1;
        }
        Ok(v)
    };
    let (bias, max) = (bias as u128, max as u128);
    let mut out: Vec<(u128, u128)> = vec![];
    let (mut filled, mut dropped) = (false, false);
    let mut queue: std::collections::VecDeque<(u128, u32)> = [(0u128, 1u32)].into();
    while let Some((start, depth)) = queue.pop_front() {
        let v = read(bf as u32)?;
        if v == 0 {
            filled = true;
            let size = bf.pow(h - depth + 1);
            let (lo, hi) = (start + bias, start + size - 1 + bias);
            if hi > max {
                dropped = true;
            }
            if lo <= max {
                out.push((lo, hi.min(max)));
                *vol = vol.saturating_add((hi.min(max) - lo + 1) as u64);
            }
            continue;
        }
        for i in 0..bf {
            if (v >> i) & 1 == 1 {
                if depth == h {
                    let x = start + i + bias;
                    if x <= max {
                        out.push((x, x));
                    } else {
                        dropped = true;
                    }
                } else {
                    queue.push_back((start + i * bf.pow(h - depth), depth + 1));
                }
            }
        }
    }
    out.sort_unstable();
    let mut m: Vec<(u32, u32)> = vec![];
    for (lo, hi) in out {
        if let Some(l) = m.last_mut() {
            if lo <= l.1 as u128 + 1 {
                l.1 = l.1.max(hi as u32);
                continue;
            }
        }
        m.push((lo as u32, hi as u32));
    }
    let total = m.iter().map(|r| (r.1 - r.0) as u64 + 1).sum();
    Ok(RefOut { ranges: m, consumed: bitpos.div_ceil(8), height: h, filled, dropped, total })
}
fn set_ranges(s: &IntSet<u32>) -> Vec<(u32, u32)> {
    s.iter_ranges().map(|r| (*r.start(), *r.end())).collect()
}
fn show_r32(a: &[(u32, u32)]) -> String {
    show_rs(&a.iter().map(|r| (r.0 as u64, r.1 as u64)).collect::<Vec<_>>())
}
fn hex(d: &[u8]) -> String {
    let mut s: String = d.iter().take(48).map(|b| format!("{b:02x}")).collect();
    if d.len() > 48 {
        s.push_str(&format!("… ({} bytes)", d.len()));
    }
    s
}

#[derive(Clone, Debug, Serialize, Deserialize)]
struct SetDesc {
    /// all values are reduced to this many bits (varies the tree height)
    bits: u8,
    pts: Vec<u32>,
    /// (start, width)
    ranges: Vec<(u32, u32)>,
    /// blocks aligned to a power of a branch factor: (bf code, level, block number): [k*bf^level, (k+1)*bf^level - 1]
    blocks: Vec<(u8, u8, u32)>,
}
impl SetDesc {
    fn model(&self) -> Rs {
        let mask: u64 = (1u64 << self.bits.clamp(1, 32)) - 1;
        let mut m = from_points(self.pts.iter().map(|p| *p as u64 & mask));
        for (a, w) in &self.ranges {
            let a = *a as u64 & mask;
            m = or(&m, &[(a, (a + *w as u64).min(mask))]);
        }
        for (code, level, k) in &self.blocks {
            let bf = bf_of(*code) as u64;
            // block sizes up to 2^12 values (2^15 for level 8): the encoder is quadratic in the length of a filled run
            let cap: u64 = if *level >= 8 { 1 << 15 } else { 1 << 12 };
            let mut lv = *level as u32;
            while bf.pow(lv) > cap {
                lv -= 1;
            }
            let sz = bf.pow(lv);
            let nblocks = ((mask + 1) / sz).max(1);
            let k = (*k as u64) % nblocks;
            m = or(&m, &[(k * sz, k * sz + sz - 1)]);
        }
        m
    }
}
fn codec_value() -> BoxedStrategy<u32> {
    let pool: Vec<u32> = vec![0, 1, 2, 3, 7, 8, 31, 32, 33, 63, 64, 255, 256, 511, 512, 1023, 1024, 32_767, 32_768, 65_535, 65_536, 0x10_FFFF, 0x3FFF_FFFF, 0x4000_0000, 0x7FFF_FFFF, 0x8000_0000, 0xFFFF_FFFE, 0xFFFF_FFFF];
    prop_oneof![
        4 => select(pool.clone()),
        2 => (select(pool), -4i64..=4).prop_map(|(p, d)| (p as i64 + d).clamp(0, u32::MAX as i64) as u32),
        6 => 0u32..300,
        3 => 0u32..70_000,
        1 => (0u32..32, any::<u32>()).prop_map(|(sh, v)| v >> sh),
    ]
    .boxed()
}
fn set_desc() -> BoxedStrategy<SetDesc> {
    let width = prop_oneof![60 => 0u32..70, 18 => 0u32..1200, 1 => 0u32..12_000];
    let block = (0u8..4, prop_oneof![60 => 1u8..8, 1 => Just(8u8)], prop_oneof![3 => 0u32..6, 1 => any::<u32>(), 1 => Just(u32::MAX)]);
    let bits = prop_oneof![4 => Just(32u8), 1 => Just(31u8), 5 => 1u8..=32];
    (bits, proptest::collection::vec(codec_value(), 0..24), proptest::collection::vec((codec_value(), width), 0..4), proptest::collection::vec(block, 0..4))
        .prop_map(|(bits, pts, ranges, blocks)| SetDesc { bits, pts, ranges, blocks })
        .boxed()
}
fn bias_max() -> BoxedStrategy<(u32, u32)> {
    let bias = prop_oneof![5 => Just(0u32), 2 => 1u32..100, 1 => Just(0xFFFFu32), 1 => Just(u32::MAX - 5), 1 => Just(u32::MAX), 1 => any::<u32>()];
    // max: absolute boundary values or relative to the bias
    let max = prop_oneof![
        5 => Just((false, u32::MAX as i64)),
        2 => (0i64..5000).prop_map(|v| (false, v)),
        1 => Just((false, 0x10_FFFF)),
        1 => Just((false, u32::MAX as i64 - 1)),
        1 => Just((false, 0)),
        3 => (-2i64..70).prop_map(|v| (true, v)),
        1 => (0i64..100_000).prop_map(|v| (true, v)),
        1 => any::<u32>().prop_map(|v| (false, v as i64)),
    ];
    (bias, max).prop_map(|(b, (rel, v))| (b, if rel { (b as i64 + v).clamp(0, u32::MAX as i64) as u32 } else { v as u32 })).boxed()
}
fn build_u32(m: &Rs) -> IntSet<u32> {
    let mut s = IntSet::<u32>::empty();
    for r in m {
        s.insert_range(r.0 as u32..=r.1 as u32);
    }
    s
}
fn encode(s: &IntSet<u32>, code: u8) -> Vec<u8> {
    match code {
        0 => to_sparse_bit_set_with_bf::<2>(s),
        1 => to_sparse_bit_set_with_bf::<4>(s),
        2 => to_sparse_bit_set_with_bf::<8>(s),
        3 => to_sparse_bit_set_with_bf::<32>(s),
        _ => s.to_sparse_bit_set(),
    }
}
/// model of decode(encode(S), bias, max): {v + bias | v in S, v + bias <= max}
fn shifted(m: &Rs, bias: u32, max: u32) -> Vec<(u32, u32)> {
    let mut out = vec![];
    for r in m {
        let (lo, hi) = (r.0 + bias as u64, (r.1 + bias as u64).min(max as u64));
        if lo <= hi {
            out.push((lo as u32, hi as u32));
        }
    }
    out
}

#[derive(Clone, Debug, Serialize, Deserialize)]
struct RtCase {
    set: SetDesc,
    bias: u32,
    max: u32,
    trail: Vec<u8>,
}
fn rt_strategy() -> impl Strategy<Value = RtCase> {
    (set_desc(), bias_max(), proptest::collection::vec(prop_oneof![Just(0u8), Just(0xFF), any::<u8>()], 0..5)).prop_map(|(set, (bias, max), trail)| RtCase { set, bias, max, trail })
}
fn test_roundtrip(c: &RtCase, st: &Stats) -> CaseResult {
    let m = c.set.model();
    let want: Vec<(u32, u32)> = m.iter().map(|r| (r.0 as u32, r.1 as u32)).collect();
    let s = build_u32(&m);
    let mut nt = false;
    for code in 0u8..5 {
        let name = ["bf2", "bf4", "bf8", "bf32", "auto"][code as usize];
        let bytes = encode(&s, code);
        // (1) plain decode
        let dec = IntSet::<u32>::from_sparse_bit_set(&bytes).map_err(|_| fail("roundtrip-decode-error", format!("[{name}] decoding the encoding of {} fails; bytes {}", show_rs(&m), hex(&bytes))))?;
        if set_ranges(&dec) != want || dec != s {
            return Err(fail("roundtrip-members", format!("[{name}] decode(encode(S)) = {} for S = {}; bytes {}", show_r32(&set_ranges(&dec)), show_rs(&m), hex(&bytes))));
        }
        // (2) remainder: with trailing bytes appended exactly those are left unread
        let mut data = bytes.clone();
        data.extend_from_slice(&c.trail);
        let (dec, rest) = IntSet::<u32>::from_sparse_bit_set_bounded(&data, 0, u32::MAX).map_err(|_| fail("roundtrip-decode-error", format!("[{name}] decoding encoding + trailing bytes fails; bytes {}", hex(&data))))?;
        if rest != &c.trail[..] {
            return Err(fail("roundtrip-remainder", format!("[{name}] remainder has {} bytes, expected the {} appended ones; S = {}; bytes {}", rest.len(), c.trail.len(), show_rs(&m), hex(&data))));
        }
        if set_ranges(&dec) != want {
            return Err(fail("roundtrip-members", format!("[{name}] decode(encode(S) + trailing) = {} for S = {}", show_r32(&set_ranges(&dec)), show_rs(&m))));
        }
        // (3) bias and maximum
        let (dec, rest) = IntSet::<u32>::from_sparse_bit_set_bounded(&bytes, c.bias, c.max).map_err(|_| fail("roundtrip-decode-error", format!("[{name}] bounded decode (bias {}, max {}) of a valid encoding fails; S = {}; bytes {}", c.bias, c.max, show_rs(&m), hex(&bytes))))?;
        let want_b = shifted(&m, c.bias, c.max);
        let mut canon: Vec<(u32, u32)> = vec![];
        for r in want_b {
            match canon.last_mut() {
                Some(l) if l.1 as u64 + 1 >= r.0 as u64 => l.1 = l.1.max(r.1),
                _ => canon.push(r),
            }
        }
        if set_ranges(&dec) != canon || !rest.is_empty() {
            return Err(fail("roundtrip-bounded", format!("[{name}] decode(encode(S), bias {}, max {}) = {} with {} unread bytes, expected {}; S = {}; bytes {}", c.bias, c.max, show_r32(&set_ranges(&dec)), rest.len(), show_r32(&canon), show_rs(&m), hex(&bytes))));
        }
        // (4) the specification's algorithm reads the same set out of the encoder's bytes
        match ref_decode(&bytes, 0, u32::MAX) {
            Ok(r) => {
                if r.ranges != want || r.consumed != bytes.len() {
                    return Err(fail("roundtrip-spec", format!("[{name}] the specification's decoder reads {} ({} of {} bytes) from the encoding of {}; bytes {}", show_r32(&r.ranges), r.consumed, bytes.len(), show_rs(&m), hex(&bytes))));
                }
                if r.height >= 2 || r.filled {
                    nt = true;
                }
                if r.filled {
                    st.class(&format!("roundtrip:{name}:filled-node"));
                }
                st.class(&format!("roundtrip:{name}:height={}", match r.height { 0 => "0", 1 => "1", 2..=4 => "2..4", 5..=10 => "5..10", _ => ">10" }));
            }
            Err(()) => return Err(fail("roundtrip-spec", format!("[{name}] the specification's decoder runs out of input on the encoding of {}; bytes {}", show_rs(&m), hex(&bytes)))),
        }
        st.evals(1);
    }
    if nt {
        st.nontrivial(hash_json(&c.set));
        if rs_len(&m) < 40 && m.len() >= 2 && st.want_sample() && sample_slot(&S_RT, 2) {
            st.sample(json!({"stage": "codec-roundtrip", "set": show_rs(&m), "bf8_bytes": hex(&encode(&s, 2))}));
        }
    }
    Ok(())
}

// ---- arbitrary bytes ------------------------------------------------------------------------
#[derive(Clone, Debug, Serialize, Deserialize)]
struct Edit {
    /// position, scaled into the buffer
    pos: u16,
    kind: u8,
    val: u8,
}
#[derive(Clone, Debug, Serialize, Deserialize)]
enum Input {
    /// header from (bf code, height, reserved bit) + arbitrary body
    Raw { bf: u8, h: u8, rsv: bool, body: Vec<u8> },
    /// header + node values packed by the harness (least significant bit first) + trailing bytes
    Nodes { bf: u8, h: u8, nodes: Vec<u32>, trail: Vec<u8> },
    /// a valid encoding (bf code 0..3, 4 = smallest) of a set, then edited
    Havoc { set: SetDesc, bf: u8, edits: Vec<Edit> },
}
#[derive(Clone, Debug, Serialize, Deserialize)]
struct BytesCase {
    input: Input,
    bias: u32,
    max: u32,
}
fn height_for(code: u8) -> BoxedStrategy<u8> {
    let mh = max_height(bf_of(code)) as u8;
    prop_oneof![5 => 0u8..=4, 4 => 0u8..=mh, 2 => select(vec![mh - 1, mh]), 1 => select(vec![mh + 1, 31u8.max(mh + 1)]), 1 => 0u8..32].boxed()
}
fn pack_nodes(code: u8, h: u8, nodes: &[u32], trail: &[u8]) -> Vec<u8> {
    let bf = bf_of(code);
    let mut out = vec![(code & 3) | ((h & 31) << 2)];
    let mut bitpos = 0usize;
    for n in nodes {
        for i in 0..bf {
            if bitpos % 8 == 0 {
                out.push(0);
            }
            if (n >> i) & 1 == 1 {
                *out.last_mut().unwrap() |= 1 << (bitpos % 8);
            }
            bitpos += 1;
        }
    }
    out.extend_from_slice(trail);
    out
}
fn input_strategy() -> BoxedStrategy<Input> {
    let byte = || prop_oneof![3 => Just(0u8), 3 => any::<u8>(), 1 => Just(0xFFu8), 3 => (0u32..8).prop_map(|k| 1u8 << k), 1 => select(vec![0x11u8, 0x12, 0x21, 0x22, 0x55, 0x66, 0x99, 0xAA, 0x01, 0x10])];
    let raw = (0u8..4).prop_flat_map(move |code| (Just(code), height_for(code), prop::bool::weighted(0.04), proptest::collection::vec(byte(), 0..60))).prop_map(|(bf, h, rsv, body)| Input::Raw { bf, h, rsv, body });
    let nodes = (0u8..4)
        .prop_flat_map(|code| {
            let bf = bf_of(code);
            let mask = if bf == 32 { u32::MAX } else { (1u32 << bf) - 1 };
            let node = prop_oneof![
                10 => (0u32..bf).prop_map(|k| 1u32 << k),
                3 => (0u32..bf, 0u32..bf).prop_map(|(a, b)| (1u32 << a) | (1u32 << b)),
                2 => Just(0u32),
                1 => Just(1u32 << (bf - 1)),
                1 => any::<u32>().prop_map(move |v| v & mask),
                1 => Just(mask),
            ];
            (Just(code), height_for(code), proptest::collection::vec(node, 0..70), proptest::collection::vec(any::<u8>(), 0..3))
        })
        .prop_map(|(bf, h, nodes, trail)| Input::Nodes { bf, h, nodes, trail });
    let edit = (any::<u16>(), 0u8..10, prop_oneof![Just(0u8), any::<u8>(), Just(0xFFu8)]).prop_map(|(pos, kind, val)| Edit { pos, kind, val });
    let havoc = (set_desc(), 0u8..5, proptest::collection::vec(edit, 0..4)).prop_map(|(set, bf, edits)| Input::Havoc { set, bf, edits });
    prop_oneof![3 => raw, 4 => nodes, 3 => havoc].boxed()
}
fn bytes_strategy() -> impl Strategy<Value = BytesCase> {
    (input_strategy(), bias_max()).prop_map(|(input, (bias, max))| BytesCase { input, bias, max })
}
fn materialize(i: &Input) -> Vec<u8> {
    match i {
        Input::Raw { bf, h, rsv, body } => {
            let mut d = vec![(bf & 3) | ((h & 31) << 2) | if *rsv { 0x80 } else { 0 }];
            d.extend_from_slice(body);
            d
        }
        Input::Nodes { bf, h, nodes, trail } => pack_nodes(*bf, *h, nodes, trail),
        Input::Havoc { set, bf, edits } => {
            // keep the valid encodings small: at most 1024 members
            let mut m = set.model();
            let mut budget = 1024u64;
            let mut cut: Rs = vec![];
            for r in m.drain(..) {
                if budget == 0 {
                    break;
                }
                let len = (r.1 - r.0 + 1).min(budget);
                budget -= len;
                cut.push((r.1 + 1 - len, r.1));
            }
            let mut d = encode(&build_u32(&cut), *bf);
            for e in edits {
                let at = |len: usize| ((e.pos as usize) * len) >> 16;
                match e.kind {
                    0 if !d.is_empty() => {
                        let p = at(d.len());
                        d[p] = e.val
                    }
                    1 if !d.is_empty() => {
                        let p = at(d.len());
                        d[p] ^= 1 << (e.val % 8)
                    }
                    2 if !d.is_empty() => {
                        let p = at(d.len());
                        d[p] = 0
                    }
                    3 if !d.is_empty() => {
                        let p = at(d.len());
                        d[p] = 0xFF
                    }
                    4 => d.truncate(at(d.len() + 1)),
                    5 => {
                        let p = at(d.len() + 1);
                        d.insert(p, e.val)
                    }
                    6 if !d.is_empty() => {
                        let p = at(d.len());
                        d.remove(p);
                    }
                    7 => d.push(e.val),
                    8 if !d.is_empty() => {
                        // height +-1
                        let h = (d[0] >> 2) & 31;
                        let h2 = if e.val % 2 == 0 { h.saturating_add(1).min(31) } else { h.saturating_sub(1) };
                        d[0] = (d[0] & 0x83) | (h2 << 2);
                    }
                    9 if !d.is_empty() => d[0] = (d[0] & 0xFC) | (e.val & 3),
                    _ => {}
                }
            }
            d
        }
    }
}
/// more members than this and the comparison is made at a reduced maximum (keeps the set's pages small)
const MEMBER_CAP: u64 = 1 << 18;

fn compare_with_spec(data: &[u8], bias: u32, max: u32, st: Option<&Stats>) -> Result<Option<RefOut>, Fail> {
    let reference = ref_decode(data, bias, max);
    let got = IntSet::<u32>::from_sparse_bit_set_bounded(data, bias, max);
    match (got, reference) {
        (Ok((set, rest)), Ok(r)) => {
            let consumed = data.len() - rest.len();
            if rest != &data[data.len() - rest.len()..] {
                return Err(fail("bytes-remainder", "the remainder is not a suffix of the input".into()));
            }
            let members = set_ranges(&set);
            if members != r.ranges {
                return Err(fail("bytes-members", format!("decoded {} but the specification's algorithm gives {}; bias {bias} max {max}; bytes {}", show_r32(&members), show_r32(&r.ranges), hex(data))));
            }
            if set.len() != r.total {
                return Err(fail("bytes-len", format!("decoded set reports len {} but has {} members; bytes {}", set.len(), r.total, hex(data))));
            }
            if consumed != r.consumed {
                return Err(fail("bytes-remainder", format!("implementation consumed {} bytes, the specification's algorithm {} (of {}); bias {bias} max {max}; bytes {}", consumed, r.consumed, data.len(), hex(data))));
            }
            if let Some(st) = st {
                st.class("bytes:both-ok");
            }
            Ok(Some(r))
        }
        (Err(_), Err(())) => {
            if let Some(st) = st {
                st.class("bytes:both-error");
            }
            Ok(None)
        }
        (Ok((set, rest)), Err(())) => Err(fail("bytes-ok-vs-error", format!("implementation decodes {} ({} bytes unread) but the specification's algorithm runs out of input; bias {bias} max {max}; bytes {}", show_r32(&set_ranges(&set)), rest.len(), hex(data)))),
        (Err(_), Ok(r)) => Err(fail("bytes-error-vs-ok", format!("implementation reports an error but the specification's algorithm decodes {} consuming {} bytes; bias {bias} max {max}; bytes {}", show_r32(&r.ranges), r.consumed, hex(data)))),
    }
}
fn test_bytes(c: &BytesCase, st: &Stats) -> CaseResult {
    let data = materialize(&c.input);
    st.class(match &c.input {
        Input::Raw { .. } => "bytes:raw",
        Input::Nodes { .. } => "bytes:nodes",
        Input::Havoc { .. } => "bytes:havoc",
    });
    let Some(b0) = data.first().copied() else {
        // empty input: an error, not a panic
        if IntSet::<u32>::from_sparse_bit_set_bounded(&data, c.bias, c.max).is_ok() {
            return Err(fail("bytes-ok-vs-error", "empty input decodes successfully".into()));
        }
        st.class("bytes:empty-input");
        return Ok(());
    };
    let bf = bf_of(b0);
    let h = ((b0 >> 2) & 31) as u32;
    // resource guard: a filled node may stand for up to 2^32 members; those inputs are decoded at a reduced maximum
    let mut max = c.max;
    let mut vol = 0u64;
    let _ = ref_decode_vol(&data, c.bias, max, &mut vol);
    if vol > MEMBER_CAP {
        max = max.min(c.bias.saturating_add(MEMBER_CAP as u32));
        st.class("bytes:maximum-reduced(huge-fill)");
    }
    if h > max_height(bf) || b0 & 0x80 != 0 {
        // outside the supported heights (or reserved header bit set): only "no panic" is demanded
        let _ = IntSet::<u32>::from_sparse_bit_set_bounded(&data, c.bias, max);
        st.class(if h > max_height(bf) { "bytes:height-above-maximum(no-panic-only)" } else { "bytes:reserved-bit(no-panic-only)" });
        return Ok(());
    }
    let r = compare_with_spec(&data, c.bias, max, Some(st))?;
    if let Some(r) = r {
        st.class(&format!("bytes:bf={bf}"));
        st.class(match r.height {
            0 => "bytes:height=0",
            1 => "bytes:height=1",
            2..=4 => "bytes:height=2..4",
            5..=10 => "bytes:height=5..10",
            _ => "bytes:height>10",
        });
        if r.height == max_height(bf) {
            st.class("bytes:height=maximum");
        }
        if r.filled {
            st.class("bytes:filled-node");
        }
        if r.dropped {
            st.class("bytes:members-above-max-dropped");
        }
        if r.consumed < data.len() {
            st.class("bytes:remainder-nonempty");
        }
        if !r.ranges.is_empty() {
            st.class("bytes:nonempty-set");
        }
        if r.height >= 2 || r.filled {
            st.nontrivial(hash_json(&(&data, c.bias, max)));
            if r.height >= 3 && !r.ranges.is_empty() && data.len() < 24 && st.want_sample() && sample_slot(&S_BYTES, 3) {
                st.sample(json!({"stage": "codec-bytes", "bytes": hex(&data), "bias": c.bias, "max": max, "members": show_r32(&r.ranges), "consumed": r.consumed}));
            }
        }
    }
    Ok(())
}

// ---- filled roots at the maximal heights ----------------------------------------------------
#[derive(Clone, Debug, Serialize, Deserialize)]
struct RootCase {
    bf: u8,
    h: u8,
    bias: u32,
    max: u32,
}
fn root_case(i: u64) -> RootCase {
    match i {
        0 => RootCase { bf: 3, h: 7, bias: 0, max: u32::MAX },
        1 => RootCase { bf: 2, h: 11, bias: 1, max: u32::MAX },
        2 => RootCase { bf: 1, h: 16, bias: 0, max: u32::MAX - 1 },
        _ => RootCase { bf: 0, h: 31, bias: 5, max: u32::MAX },
    }
}
fn test_root(c: &RootCase, st: &Stats) -> CaseResult {
    let data = pack_nodes(c.bf, c.h, &[0], &[0xAB]);
    let r = compare_with_spec(&data, c.bias, c.max, None)?;
    if let Some(r) = r {
        if r.filled {
            st.nontrivial(hash_json(c));
        }
        st.class("filled-root:compared");
    }
    Ok(())
}

fn main() {
    let ctx = Ctx::from_args("C14");
    ctx.set_rule(
        "IntSet histories: steps (insert/remove/insert_range/remove_range/extend/extend_unsorted/remove_all/from_iter/union/intersect/subtract/invert/clear/all/clone/\
         rebuild-in-opposite-mode/converge-to-the-other-set's-members-without-copying) on two evolving sets over u32,u16,u8,GlyphId16,GlyphId,Tag,NameId and a harness-defined discontinuous domain (even numbers in two parts); \
         elements from a page-edge/domain-edge pool +-3 and random; after every step the whole query surface of the changed set and the pair relations are compared with a \
         range-list model. Non-trivial history: contains an invert/all() or a binary operation on sets of different storage modes (every step is followed by queries); distinct by \
         hash of the history (hist-converge: a set was given the other's members by surgery after both had histories of their own). eqord: non-trivial = the two sets are stored in different modes. RangeSet: non-trivial = an insert merged with an existing range. Codec: non-trivial = \
         tree height >= 2 or a filled (all-zero) node; distinct by hash of the set / of (bytes, bias, max).",
    );
    ctx.assume("the model is a 60-line sorted range list (boolean combination by sweeping over range end points) written for this check");
    ctx.assume("the sparse-bit-set reference is a transcription of the IFT specification's decoding algorithm (FIFO of (start, depth), LSB-first bits, zero node = filled subtree) in 128-bit arithmetic; bit 7 of the header is reserved: inputs with it set are only required not to panic");
    ctx.assume("sets given to the encoder are stored inclusively (an inverted IntSet<u32> has ~2^32 members and cannot be encoded in bounded time)");
    ctx.assume("inclusive_iter() is required to be Some exactly when is_inverted() is false; which storage mode an operation leaves behind is not part of the property");

    // development aid: C14_ONLY=stage[,stage] runs a subset (never set by registered commands)
    let only = std::env::var("C14_ONLY").ok();
    let on = |name: &str| only.as_ref().map(|o| o.split(',').any(|x| x == name)).unwrap_or(true);
    // exhaustive bounded histories
    let total = exh_total();
    let count = ctx.n(total / 20, total).clamp(1, total);
    let stride = total / count;
    let offset = ctx.seed % stride;
    if on("hist-exhaustive") {
    ctx.index_stage("hist-exhaustive", Isolation::Threads, count, |i| exh_case((i * stride + offset).min(total - 1)), test_hist);
    }
    let complete = stride == 1 && count == total;
    ctx.note("exhaustive_stages", if complete && on("hist-exhaustive") { json!(["hist-exhaustive"]) } else { json!([]) });
    ctx.note(
        "hist_exhaustive_space",
        json!({"alphabet": EXH_ALPHABET, "length": EXH_LEN, "start_modes": 2, "histories": total, "executed": count, "stride": stride,
               "complete": complete, "note": "every prefix of a history is checked, so all lengths <= 4 are covered"}),
    );

    if on("hist-random") {
    ctx.prop_stage("hist-random", Isolation::Threads, ctx.n(8_000, 60_000), hist_strategy, test_hist);
    }
    if on("hist-converge") {
    ctx.prop_stage("hist-converge", Isolation::Threads, ctx.n(60_000, 600_000), converge_strategy, test_hist);
    }
    if on("eqord") {
    ctx.prop_stage("eqord", Isolation::Threads, ctx.n(100_000, 1_000_000), eq_strategy, test_eq);
    }
    if on("rangeset") {
    ctx.prop_stage("rangeset", Isolation::Threads, ctx.n(30_000, 500_000), r_strategy, test_rangeset);
    }
    if on("codec-roundtrip") {
    ctx.prop_stage("codec-roundtrip", Isolation::Threads, ctx.n(8_000, 100_000), rt_strategy, test_roundtrip);
    }
    if on("codec-bytes") {
    ctx.prop_stage("codec-bytes", Isolation::Threads, ctx.n(600_000, 4_000_000), bytes_strategy, test_bytes);
    }
    if on("codec-filled-root") {
    ctx.index_stage("codec-filled-root", Isolation::Threads, 4, root_case, test_root);
    }
    ctx.finish();
}
