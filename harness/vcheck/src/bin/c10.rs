//! C10 — glyph variation deltas survive encoding, IUP optimisation and application.
//!
//! Stages
//!  * `iup-exhaustive`  every contour of a small finite space (see `ex_spaces`) x tolerance {0, 1/2, 1} through
//!                      `iup_delta_optimize`; every delta marked optional must be reproduced, within the tolerance, by the
//!                      OpenType inference rule evaluated in exact rationals over the retained deltas.
//!  * `iup-random`      1..6 contours of 1..60 points (+ 4 phantom points), coordinates with ties and collinear runs,
//!                      smooth-plus-noise deltas, tolerance {0, 1/4, 1/2, 3/4, 1, 4}; same oracle.
//!  * `gvar-table`      GlyphVariations/GlyphDeltas -> Gvar -> dump_table -> (a) an independent spec decoder in this file and
//!                      (b) read-fonts `glyph_variation_data(gid).tuples()`: both agree; peaks/intermediates equal the input;
//!                      every required delta decodes exactly; inference over the decoded explicit deltas reproduces every
//!                      optional delta within its declared tolerance. Optional flags come from `iup_delta_optimize` or from
//!                      a by-construction recipe (required set chosen to hit run/gap/count boundaries, optional deltas =
//!                      rounded exact inference, declared tolerance 3/4).
//!  * `gvar-many-peaks` thousands of tiny glyphs, distinct peak tuples around the 4095-entry limit of the shared tuple list.
//!  * `gvar-offsets`    tables steered to a total glyph-data size around 131070 bytes (short/long offset switch).
//!  * `draw`            fontkit variable font (hand-encoded glyf, fvar, gvar bytes from write-fonts); OutlineGlyph::draw
//!                      unscaled, both path styles, at generated normalized locations versus the exact reference
//!                      default + sum_r scalar_r * delta_r (inferred deltas by the spec rule), bound derived from the
//!                      fixed-point widths (see `draw_check`); phantom points through `Gvar::phantom_point_deltas`.
use kurbo::{Point as KPoint, Vec2};
use proptest::collection::vec as pvec;
use proptest::prelude::*;
use read_fonts::tables::gvar as rg;
use read_fonts::types::{F2Dot14, GlyphId};
use read_fonts::{FontData, FontRead, TableProvider};
use serde::{Deserialize, Serialize};
use serde_json::json;
use skrifa::outline::pen::{PathElement, PathStyle};
use skrifa::outline::DrawSettings;
use skrifa::prelude::{LocationRef, Size};
use skrifa::MetadataProvider;
use std::collections::BTreeMap;
use vcore::*;
use write_fonts::dump_table;
use write_fonts::tables::gvar::{iup::iup_delta_optimize, GlyphDelta, GlyphDeltas, GlyphVariations, Gvar, Tent};

fn fail(sig: &str, msg: String) -> Fail {
    Fail::new(format!("c10|{sig}"), msg)
}

type P = (i32, i32);

/// tolerances as exact fractions (all exactly representable as f64)
const TOLS: [(i64, i64); 6] = [(0, 1), (1, 4), (1, 2), (3, 4), (1, 1), (4, 1)];
const TOL_3_4: (i64, i64) = (3, 4);

/// at most `max` samples per stage (the engine keeps 8 in total)
fn sample_slot(slot: &std::sync::atomic::AtomicUsize, max: usize, stats: &Stats) -> bool {
    stats.want_sample() && slot.fetch_add(1, std::sync::atomic::Ordering::Relaxed) < max
}
static IUP_SAMPLES: std::sync::atomic::AtomicUsize = std::sync::atomic::AtomicUsize::new(0);
static TABLE_SAMPLES: std::sync::atomic::AtomicUsize = std::sync::atomic::AtomicUsize::new(0);
static DRAW_SAMPLES: std::sync::atomic::AtomicUsize = std::sync::atomic::AtomicUsize::new(0);

#[derive(Default)]
struct Cnt(BTreeMap<String, u64>);
impl Cnt {
    fn add(&mut self, k: &str) {
        self.add_n(k, 1)
    }
    fn add_n(&mut self, k: &str, n: u64) {
        if n > 0 {
            *self.0.entry(k.to_string()).or_insert(0) += n;
        }
    }
    fn flush(&self, stats: &Stats) {
        for (k, v) in &self.0 {
            stats.class_n(k, *v);
        }
    }
}

// ---------------------------------------------------------------------------------------------------------------
// exact rationals
// ---------------------------------------------------------------------------------------------------------------

fn gcd(a: i128, b: i128) -> i128 {
    let (mut a, mut b) = (a.abs(), b.abs());
    while b != 0 {
        let t = a % b;
        a = b;
        b = t;
    }
    a
}

#[derive(Clone, Copy, Debug, PartialEq, Eq)]
struct Q {
    n: i128,
    d: i128,
}
impl Q {
    const ZERO: Q = Q { n: 0, d: 1 };
    const ONE: Q = Q { n: 1, d: 1 };
    fn int(v: i64) -> Q {
        Q { n: v as i128, d: 1 }
    }
    fn new(n: i128, d: i128) -> Q {
        assert!(d != 0, "harness: zero denominator");
        let (n, d) = if d < 0 { (-n, -d) } else { (n, d) };
        let g = gcd(n, d).max(1);
        Q { n: n / g, d: d / g }
    }
    fn mul(self, o: Q) -> Q {
        let g1 = gcd(self.n, o.d).max(1);
        let g2 = gcd(o.n, self.d).max(1);
        Q { n: (self.n / g1) * (o.n / g2), d: (self.d / g2) * (o.d / g1) }
    }
    fn sub_int(self, v: i64) -> Q {
        Q::new(self.n - v as i128 * self.d, self.d)
    }
    /// nearest integer (ties away from floor, irrelevant for the use)
    fn round(self) -> i64 {
        (2 * self.n + self.d).div_euclid(2 * self.d) as i64
    }
    /// floor(self * 2^40) and whether that is exact: the value lies in [result, result + 1) units of 2^-40
    fn units(self) -> (i128, bool) {
        let q = self.n.div_euclid(self.d);
        let r = self.n.rem_euclid(self.d);
        ((q << 40) + ((r << 40) / self.d), (r << 40) % self.d == 0)
    }
}

/// ex^2 + ey^2 <= tol^2 * (1 + 1e-9)   (the slack covers the optimiser's f64 evaluation of the same inequality)
fn within_tol(ex: Q, ey: Q, tol: (i64, i64)) -> bool {
    let (tn, td) = (tol.0 as i128, tol.1 as i128);
    let lhs = (ex.n * ex.n * ey.d * ey.d + ey.n * ey.n * ex.d * ex.d) * td * td;
    let rhs = tn * tn * ex.d * ex.d * ey.d * ey.d;
    lhs <= rhs || lhs - rhs <= rhs / 1_000_000_000
}

// ---------------------------------------------------------------------------------------------------------------
// the specification's inference of deltas for un-referenced points
// (OpenType gvar, "Inferred deltas for un-referenced point numbers"), in exact arithmetic
// ---------------------------------------------------------------------------------------------------------------

#[derive(Clone, Copy, Debug)]
struct AxisInf {
    v: Q,
    /// largest |reference delta| the value depends on
    m: i64,
    /// distance from the lower reference coordinate when the value is interpolated, else 0
    x: i64,
}
const AXIS_ZERO: AxisInf = AxisInf { v: Q::ZERO, m: 0, x: 0 };

fn infer_axis(c: i64, c1: i64, d1: i64, c2: i64, d2: i64) -> AxisInf {
    let m = d1.abs().max(d2.abs());
    if c1 == c2 {
        return AxisInf { v: if d1 == d2 { Q::int(d1) } else { Q::ZERO }, m, x: 0 };
    }
    let (c1, d1, c2, d2) = if c1 < c2 { (c1, d1, c2, d2) } else { (c2, d2, c1, d1) };
    if c <= c1 {
        AxisInf { v: Q::int(d1), m, x: 0 }
    } else if c >= c2 {
        AxisInf { v: Q::int(d2), m, x: 0 }
    } else {
        let den = (c2 - c1) as i128;
        AxisInf { v: Q::new(d1 as i128 * den + (c - c1) as i128 * (d2 - d1) as i128, den), m, x: c - c1 }
    }
}

#[derive(Clone, Copy, Debug)]
struct Inf {
    x: AxisInf,
    y: AxisInf,
    explicit: bool,
}

/// `coords` = all points incl. the 4 phantom points; `ends` = last index of each real contour; `expl[i]` = the
/// explicitly stored delta of point i. Phantom points belong to no contour: un-referenced means zero.
fn infer_all(coords: &[P], ends: &[usize], expl: &[Option<P>]) -> Vec<Inf> {
    let mut out: Vec<Inf> = expl
        .iter()
        .map(|e| match e {
            Some(d) => Inf {
                x: AxisInf { v: Q::int(d.0 as i64), m: (d.0 as i64).abs(), x: 0 },
                y: AxisInf { v: Q::int(d.1 as i64), m: (d.1 as i64).abs(), x: 0 },
                explicit: true,
            },
            None => Inf { x: AXIS_ZERO, y: AXIS_ZERO, explicit: false },
        })
        .collect();
    let mut start = 0usize;
    for &end in ends {
        let refs: Vec<usize> = (start..=end).filter(|&i| expl[i].is_some()).collect();
        if refs.len() == 1 {
            let r = out[refs[0]];
            for (i, o) in out.iter_mut().enumerate().take(end + 1).skip(start) {
                if i != refs[0] {
                    *o = Inf { explicit: false, ..r };
                }
            }
        } else if refs.len() >= 2 {
            for j in 0..refs.len() {
                let (a, b) = (refs[j], refs[(j + 1) % refs.len()]);
                let (da, db) = (expl[a].unwrap(), expl[b].unwrap());
                let mut i = if a == end { start } else { a + 1 };
                while i != b {
                    let c = coords[i];
                    out[i] = Inf {
                        x: infer_axis(c.0 as i64, coords[a].0 as i64, da.0 as i64, coords[b].0 as i64, db.0 as i64),
                        y: infer_axis(c.1 as i64, coords[a].1 as i64, da.1 as i64, coords[b].1 as i64, db.1 as i64),
                        explicit: false,
                    };
                    i = if i == end { start } else { i + 1 };
                }
            }
        }
        start = end + 1;
    }
    out
}

// ---------------------------------------------------------------------------------------------------------------
// part 1: the optimiser oracle
// ---------------------------------------------------------------------------------------------------------------

struct IupOut {
    required: Vec<bool>,
}

/// Runs `iup_delta_optimize` and checks its answer against the exact inference.
fn check_iup(coords: &[P], ends: &[usize], deltas: &[P], tol: (i64, i64)) -> Result<IupOut, Fail> {
    let n = coords.len();
    let tol_f = tol.0 as f64 / tol.1 as f64;
    let out = iup_delta_optimize(
        deltas.iter().map(|d| Vec2::new(d.0 as f64, d.1 as f64)).collect(),
        coords.iter().map(|c| KPoint::new(c.0 as f64, c.1 as f64)).collect(),
        tol_f,
        ends,
    )
    .map_err(|e| fail("iup-error", format!("iup_delta_optimize returned {e:?} for coords {coords:?} ends {ends:?} deltas {deltas:?} tol {tol_f}")))?;
    if out.len() != n {
        return Err(fail("iup-length", format!("{} deltas returned for {n} points", out.len())));
    }
    let describe = || format!("coords {coords:?} ends {ends:?} deltas {deltas:?} tolerance {tol_f} flags {:?}", out.iter().map(|d| d.required as u8).collect::<Vec<_>>());
    let mut expl: Vec<Option<P>> = vec![None; n];
    for (i, g) in out.iter().enumerate() {
        if g.required {
            if (g.x as i32, g.y as i32) != deltas[i] {
                return Err(fail("iup-required-changed", format!("required delta {i} is ({}, {}), input {:?}; {}", g.x, g.y, deltas[i], describe())));
            }
            expl[i] = Some(deltas[i]);
        } else {
            // the value carried by an optional delta is what a dense encoding would store
            let (ex, ey) = (Q::int(g.x as i64 - deltas[i].0 as i64), Q::int(g.y as i64 - deltas[i].1 as i64));
            if !within_tol(ex, ey, tol) {
                return Err(fail("iup-optional-value", format!("optional delta {i} carries ({}, {}), input {:?}; {}", g.x, g.y, deltas[i], describe())));
            }
        }
    }
    // phantom points are single-point contours for the optimiser and contour-less for inference: both infer zero
    let inf = infer_all(coords, ends, &expl);
    for (i, f) in inf.iter().enumerate() {
        if f.explicit {
            continue;
        }
        let (ex, ey) = (f.x.v.sub_int(deltas[i].0 as i64), f.y.v.sub_int(deltas[i].1 as i64));
        if !within_tol(ex, ey, tol) {
            return Err(fail(
                "iup-optional-not-inferable",
                format!("delta {i} {:?} marked optional but inference from the retained deltas gives ({}/{}, {}/{}); {}", deltas[i], f.x.v.n, f.x.v.d, f.y.v.n, f.y.v.d, describe()),
            ));
        }
    }
    Ok(IupOut { required: out.iter().map(|d| d.required).collect() })
}

// ---- exhaustive spaces -----------------------------------------------------------------------------------------

const CO4: [i32; 4] = [0, 1, 2, 5];
/// tolerances (indices into TOLS) of the exhaustive stage: 0, 1/2, 1
const EX_TOLS: [u8; 3] = [0, 2, 4];
const EX_PHANTOM_DELTAS: [P; 4] = [(0, 0), (1, 0), (0, 0), (0, -2)];

struct ExSpace {
    name: &'static str,
    symbols: u32,
    /// points enumerated inside one block
    inner: u32,
    n_quick: u32,
    n_thorough: u32,
}
fn ex_spaces() -> [ExSpace; 5] {
    [
        ExSpace { name: "x-only: x in {0,1,2,5}, dx in -2..=2, y = dy = 0", symbols: 20, inner: 3, n_quick: 5, n_thorough: 6 },
        ExSpace { name: "y-only: y in {0,1,2,5}, dy in -2..=2, x = dx = 0", symbols: 20, inner: 3, n_quick: 5, n_thorough: 5 },
        ExSpace { name: "2-D small: (x,y) in {0,1,2}x{0,1}, (dx,dy) in {-1,0,1}^2", symbols: 54, inner: 2, n_quick: 3, n_thorough: 4 },
        ExSpace { name: "2-D: (x,y) in {0,1,2,5}^2, (dx,dy) in {-2..2}^2", symbols: 400, inner: 2, n_quick: 2, n_thorough: 2 },
        ExSpace { name: "2-D medium: (x,y) in {0,1,2,5}^2, (dx,dy) in {-1,0,1}^2", symbols: 144, inner: 2, n_quick: 2, n_thorough: 3 },
    ]
}
fn ex_symbol(space: u8, s: u32) -> (P, P) {
    let s = s as i32;
    match space {
        0 => ((CO4[(s / 5) as usize], 0), (s % 5 - 2, 0)),
        1 => ((0, CO4[(s / 5) as usize]), (0, s % 5 - 2)),
        2 => ((s % 3, (s / 3) % 2), ((s / 6) % 3 - 1, (s / 18) % 3 - 1)),
        3 => ((CO4[(s % 4) as usize], CO4[((s / 4) % 4) as usize]), ((s / 16) % 5 - 2, (s / 80) % 5 - 2)),
        _ => ((CO4[(s % 4) as usize], CO4[((s / 4) % 4) as usize]), ((s / 16) % 3 - 1, (s / 48) % 3 - 1)),
    }
}

#[derive(Clone, Debug, Serialize, Deserialize)]
struct ExBlock {
    space: u8,
    tol: u8,
    n: u8,
    /// symbols of the leading points; the trailing `min(n, inner)` points are enumerated by the test
    prefix: Vec<u32>,
}

/// (space, tol index, n, number of prefixes) in enumeration order
fn ex_layout(thorough: bool) -> Vec<(u8, u8, u8, u64)> {
    let mut v = vec![];
    for (si, sp) in ex_spaces().iter().enumerate() {
        let nmax = if thorough { sp.n_thorough } else { sp.n_quick };
        for n in 1..=nmax {
            let pre = n.saturating_sub(sp.inner);
            for t in EX_TOLS {
                v.push((si as u8, t, n as u8, (sp.symbols as u64).pow(pre)));
            }
        }
    }
    v
}
fn ex_block(layout: &[(u8, u8, u8, u64)], mut i: u64) -> ExBlock {
    for &(space, tol, n, cnt) in layout {
        if i < cnt {
            let sp = &ex_spaces()[space as usize];
            let pre = (n as u32).saturating_sub(sp.inner);
            let mut prefix = vec![];
            for _ in 0..pre {
                prefix.push((i % sp.symbols as u64) as u32);
                i /= sp.symbols as u64;
            }
            return ExBlock { space, tol, n, prefix };
        }
        i -= cnt;
    }
    panic!("harness: block index out of range")
}

fn test_ex_block(b: &ExBlock, stats: &Stats) -> CaseResult {
    let spaces = ex_spaces();
    let sp = spaces.get(b.space as usize).ok_or_else(|| fail("harness", "bad space".into()))?;
    let n = b.n as usize;
    let inner = n - b.prefix.len();
    let tol = TOLS[b.tol as usize % TOLS.len()];
    let mut coords: Vec<P> = vec![(0, 0); n + 4];
    let mut deltas: Vec<P> = vec![(0, 0); n + 4];
    deltas[n..].copy_from_slice(&EX_PHANTOM_DELTAS);
    for (i, s) in b.prefix.iter().enumerate() {
        let (c, d) = ex_symbol(b.space, *s % sp.symbols);
        coords[i] = c;
        deltas[i] = d;
    }
    let ends = [n - 1];
    let mut odo = vec![0u32; inner];
    let (mut cases, mut with_opt, mut opt_total) = (0u64, 0u64, 0u64);
    loop {
        for (k, s) in odo.iter().enumerate() {
            let (c, d) = ex_symbol(b.space, *s);
            coords[b.prefix.len() + k] = c;
            deltas[b.prefix.len() + k] = d;
        }
        let r = check_iup(&coords, &ends, &deltas, tol)?;
        cases += 1;
        // the two phantom points with zero delta are always optional: count only real points
        let real_opt = r.required[..n].iter().filter(|r| !**r).count() as u64;
        if real_opt > 0 {
            with_opt += 1;
            opt_total += real_opt;
        }
        // next
        let mut k = 0;
        loop {
            if k == inner {
                break;
            }
            odo[k] += 1;
            if odo[k] < sp.symbols {
                break;
            }
            odo[k] = 0;
            k += 1;
        }
        if k == inner {
            break;
        }
    }
    stats.evals(cases - 1);
    stats.class_n("ex|contours", cases);
    stats.class_n("ex|contours-with-optional-delta", with_opt);
    stats.class_n("ex|optional-deltas", opt_total);
    stats.class_n(&format!("ex|space{}|contours", b.space), cases);
    if with_opt > 0 {
        stats.nontrivial(hash_json(b));
    }
    Ok(())
}

// ---- random outlines ------------------------------------------------------------------------------------------------

#[derive(Clone, Debug, Serialize, Deserialize)]
struct Outline {
    contours: Vec<Vec<P>>,
    /// coordinates of the 4 phantom points (irrelevant to inference; the optimiser sees 4 single-point contours)
    phantom: Vec<P>,
}
impl Outline {
    fn n(&self) -> usize {
        self.contours.iter().map(|c| c.len()).sum()
    }
    fn coords(&self) -> Vec<P> {
        let mut v: Vec<P> = self.contours.iter().flatten().copied().collect();
        for i in 0..4 {
            v.push(self.phantom.get(i).copied().unwrap_or((0, 0)));
        }
        v
    }
    fn ends(&self) -> Vec<usize> {
        let mut acc = 0;
        self.contours
            .iter()
            .filter(|c| !c.is_empty())
            .map(|c| {
                acc += c.len();
                acc - 1
            })
            .collect()
    }
}

fn step() -> impl Strategy<Value = i32> {
    prop_oneof![4 => Just(0), 4 => -3i32..=3, 3 => -60i32..=60, 1 => -1500i32..=1500]
}
fn contour(min: usize, max: usize, lim: i32) -> impl Strategy<Value = Vec<P>> {
    ((-500i32..=500, -500i32..=500), pvec((step(), step()), min..=max)).prop_map(move |((mut x, mut y), steps)| {
        steps
            .into_iter()
            .map(|(sx, sy)| {
                x = (x + sx).clamp(-lim, lim);
                y = (y + sy).clamp(-lim, lim);
                (x, y)
            })
            .collect()
    })
}
fn outline(cmin: usize, cmax: usize, pmin: usize, pmax: usize, lim: i32) -> impl Strategy<Value = Outline> {
    (pvec(contour(pmin, pmax, lim), cmin..=cmax), pvec((-50i32..=50, -50i32..=50), 4)).prop_map(|(contours, phantom)| Outline { contours, phantom })
}

/// deltas for `coords`: mode 0/1 linear in the coordinate (+ sparse noise), 2 constant (+ sparse noise), 3 all zero,
/// 4 small random, 5 wide random
fn delta_field(coords: Vec<P>, dl: i32) -> BoxedStrategy<Vec<P>> {
    let n = coords.len();
    let modes: Vec<u8> = vec![0, 0, 0, 1, 1, 2, 3, 4, 5];
    (proptest::sample::select(modes), -3i32..=3, -3i32..=3, proptest::sample::select(vec![1i32, 1, 2, 3, 7]), -40i32..=40, -40i32..=40)
        .prop_flat_map(move |(mode, a, c, k, b, b2)| {
            let noise: BoxedStrategy<i32> = match mode {
                0 | 2 => prop_oneof![12 => Just(0), 2 => -1i32..=1, 1 => -40i32..=40].boxed(),
                1 => prop_oneof![40 => Just(0), 1 => -2i32..=2].boxed(),
                3 => Just(0).boxed(),
                4 => prop_oneof![3 => Just(0), 3 => -3i32..=3, 1 => -127i32..=127].boxed(),
                _ => prop_oneof![1 => Just(0), 2 => -127i32..=127, 3 => -dl..=dl].boxed(),
            };
            let coords = coords.clone();
            pvec((noise.clone(), noise), n).prop_map(move |ns| {
                ns.iter()
                    .zip(&coords)
                    .map(|((nx, ny), p)| {
                        let (fx, fy) = match mode {
                            0 | 1 => (a * p.0 / k + b, c * p.1 / k + b2),
                            2 => (b, b2),
                            _ => (0, 0),
                        };
                        ((fx + nx).clamp(-dl, dl), (fy + ny).clamp(-dl, dl))
                    })
                    .collect()
            })
        })
        .boxed()
}

#[derive(Clone, Debug, Serialize, Deserialize)]
struct IupCase {
    outline: Outline,
    deltas: Vec<P>,
    tol: u8,
}
fn iup_strategy() -> impl Strategy<Value = IupCase> {
    let lim = prop_oneof![3 => Just(300i32), 3 => Just(4000), 1 => Just(16000)];
    lim.prop_flat_map(|lim| outline(1, 6, 1, 60, lim))
        .prop_flat_map(|o| {
            let coords = o.coords();
            (Just(o), prop_oneof![4 => Just(200i32), 1 => Just(16000)].prop_flat_map(move |dl| delta_field(coords.clone(), dl)), 0u8..TOLS.len() as u8)
        })
        .prop_map(|(outline, deltas, tol)| IupCase { outline, deltas, tol })
}
fn test_iup(c: &IupCase, stats: &Stats) -> CaseResult {
    let coords = c.outline.coords();
    let ends = c.outline.ends();
    if c.deltas.len() != coords.len() || ends.is_empty() {
        return Err(fail("harness", "malformed replay case".into()));
    }
    let tol = TOLS[c.tol as usize % TOLS.len()];
    let r = check_iup(&coords, &ends, &c.deltas, tol)?;
    let n = c.outline.n();
    let real_opt = r.required[..n].iter().filter(|r| !**r).count();
    stats.class(&format!("iup|tol={}/{}", tol.0, tol.1));
    stats.class(match n {
        0..=8 => "iup|points<=8",
        9..=60 => "iup|points=9..60",
        _ => "iup|points>60",
    });
    stats.class_n("iup|optional-deltas", real_opt as u64);
    if real_opt > 0 {
        stats.class("iup|with-optional");
        if real_opt < n {
            stats.class("iup|mixed-required-and-optional");
        }
        stats.nontrivial(hash_json(c));
        if real_opt < n && sample_slot(&IUP_SAMPLES, 2, stats) {
            stats.sample(json!({"stage": "iup-random", "contours": c.outline.contours.iter().map(|c| c.len()).collect::<Vec<_>>(), "tolerance": tol.0 as f64 / tol.1 as f64,
                "optional": real_opt, "first_points": c.outline.contours[0].iter().take(6).collect::<Vec<_>>(), "first_deltas": c.deltas.iter().take(6).collect::<Vec<_>>()}));
        }
    }
    Ok(())
}

// ---------------------------------------------------------------------------------------------------------------
// part 2: gvar table level
// ---------------------------------------------------------------------------------------------------------------

/// (start, peak, end) in F2Dot14 bits; valid tents only: start <= peak <= end, not straddling zero
type TentM = (i16, i16, i16);

#[derive(Clone, Debug, Serialize, Deserialize)]
enum Src {
    /// deltas given; optional flags from `iup_delta_optimize` at tolerance TOLS[tol]
    Opt { deltas: Vec<P>, tol: u8 },
    /// required set by recipe: segments (count, gap, kind) place `count` consecutive required points, the first `gap`
    /// after the previous required point; kind 0/1/2 = zero / byte / word deltas (y uses the kind of the following
    /// segment). Optional deltas = exact inference rounded to integers (error <= 1/2 per axis), declared tolerance 3/4.
    /// `ph[i]`: phantom point i is 0 = zero and optional, 1 = required byte, 2 = required word.
    Shaped { segs: Vec<(u16, u16, u8)>, bytes: Vec<i32>, words: Vec<i32>, ph: Vec<u8> },
    /// the previous tuple's deltas and flags times `scale` (same point set: shared point number candidates)
    CopyPrev { scale: i32 },
}

#[derive(Clone, Debug, Serialize, Deserialize)]
struct TupleCase {
    /// index into the region pool, scaled: (region * pool_len) >> 8
    region: u8,
    src: Src,
}
#[derive(Clone, Debug, Serialize, Deserialize)]
struct GlyphCase {
    outline: Outline,
    tuples: Vec<TupleCase>,
}
#[derive(Clone, Debug, Serialize, Deserialize)]
struct GvarCase {
    regions: Vec<Vec<TentM>>,
    glyphs: Vec<GlyphCase>,
    /// seed of the order in which glyphs are handed to Gvar::new
    perm: u64,
    /// draw stage: per location, per axis (kind, region index, raw)
    locs: Vec<Vec<(u8, u8, i16)>>,
}

struct BTuple {
    tents: Vec<TentM>,
    deltas: Vec<P>,
    req: Vec<bool>,
    tol: (i64, i64),
}
struct BGlyph {
    coords: Vec<P>,
    ends: Vec<usize>,
    tuples: Vec<BTuple>,
}

/// generator limits of a stage
#[derive(Clone, Copy)]
struct Params {
    /// |coordinate| limit
    lim: i32,
    /// |delta| limit per tuple
    dl: i32,
    max_glyphs: usize,
    max_tuples: usize,
    /// 0 = draw sizes, 1 = table sizes, 2 = bulk (long offsets)
    sizes: u8,
    locs: usize,
}

fn peak_value() -> impl Strategy<Value = i16> {
    prop_oneof![
        4 => Just(16384i16), 3 => Just(-16384i16), 2 => Just(8192i16), 1 => Just(-8192i16), 1 => Just(1i16), 1 => Just(-1i16),
        1 => Just(16383i16), 2 => 1i16..=16384, 2 => -16384i16..=-1,
    ]
}
fn tent() -> impl Strategy<Value = TentM> {
    prop_oneof![
        3 => Just((0i16, 0i16, 0i16)),
        5 => peak_value().prop_map(|p| (p.min(0), p, p.max(0))),
        4 => (peak_value(), prop_oneof![Just(0u32), Just(65535u32), 0u32..=65535], prop_oneof![Just(0u32), Just(65535u32), 0u32..=65535]).prop_map(|(p, a, b)| {
            let pa = p.unsigned_abs() as u32;
            let inner = ((pa * a) >> 16) as i32; // 0..pa: distance of the near end from 0
            let outer = pa as i32 + (((16384 - pa) * b) >> 16) as i32; // pa..16384
            if p > 0 { (inner as i16, p, outer as i16) } else { ((-outer) as i16, p, (-inner) as i16) }
        }),
    ]
}
fn region(naxes: usize) -> impl Strategy<Value = Vec<TentM>> {
    pvec(tent(), naxes).prop_map(|mut r| {
        // a region whose peaks are all zero applies at the default location too, where no variation data is
        // consulted at all: outside the domain
        if r.iter().all(|t| t.1 == 0) {
            r[0] = (0, 16384, 16384);
        }
        r
    })
}

fn shaped_src() -> impl Strategy<Value = Src> {
    let count = prop_oneof![6 => 1u16..=3, 2 => 4u16..=20, 1 => Just(62u16), 2 => Just(63u16), 3 => Just(64u16), 3 => Just(65u16), 1 => Just(66u16),
        1 => Just(126u16), 2 => Just(127u16), 2 => Just(128u16), 2 => Just(129u16), 1 => Just(130u16), 1 => Just(200u16)];
    let gap = prop_oneof![10 => Just(1u16), 3 => 2u16..=5, 2 => 6u16..=40, 2 => Just(127u16), 2 => Just(128u16), 2 => Just(129u16), 2 => Just(255u16), 2 => Just(256u16), 2 => Just(257u16), 1 => 258u16..=600];
    (
        pvec((count, gap, 0u8..3), 1..10),
        pvec(prop_oneof![1i32..=127, -128i32..=-1], 1..8),
        pvec(prop_oneof![128i32..=2000, -2000i32..=-129], 1..8),
        pvec(prop_oneof![2 => Just(0u8), 1 => Just(1u8), 1 => Just(2u8)], 4),
    )
        .prop_map(|(segs, bytes, words, ph)| Src::Shaped { segs, bytes, words, ph })
}

fn tuple_src(coords: Vec<P>, pr: Params) -> BoxedStrategy<Src> {
    let big = coords.len() > 1500;
    let opt = (delta_field(coords, pr.dl), prop_oneof![2 => Just(0u8), 1 => 1u8..TOLS.len() as u8]).prop_map(|(deltas, tol)| Src::Opt { deltas, tol });
    if big {
        return prop_oneof![6 => opt, 1 => (prop_oneof![Just(1i32), Just(-1i32)]).prop_map(|scale| Src::CopyPrev { scale })].boxed();
    }
    prop_oneof![
        6 => opt,
        3 => shaped_src(),
        2 => prop_oneof![Just(1i32), Just(-1i32), Just(2i32)].prop_map(|scale| Src::CopyPrev { scale }),
    ]
    .boxed()
}

fn glyph_outline(pr: Params) -> BoxedStrategy<Outline> {
    let l = pr.lim;
    match pr.sizes {
        0 => prop_oneof![
            1 => outline(0, 0, 1, 1, l),
            6 => outline(1, 3, 1, 12, l),
            3 => outline(1, 4, 8, 60, l),
            1 => outline(1, 2, 120, 320, l),
        ]
        .boxed(),
        1 => prop_oneof![
            1 => outline(0, 0, 1, 1, l),
            5 => outline(1, 3, 1, 12, l),
            3 => outline(1, 4, 10, 60, l),
            4 => outline(1, 3, 100, 330, l),
            1 => outline(1, 2, 500, 900, l),
        ]
        .boxed(),
        _ => outline(1, 2, 1500, 3000, l).boxed(),
    }
}

fn glyph_case(pr: Params) -> impl Strategy<Value = GlyphCase> {
    glyph_outline(pr).prop_flat_map(move |o| {
        let coords = o.coords();
        let tuples = pvec((any::<u8>(), tuple_src(coords, pr)).prop_map(|(region, src)| TupleCase { region, src }), 0..=pr.max_tuples);
        (Just(o), tuples).prop_map(|(outline, tuples)| GlyphCase { outline, tuples })
    })
}

fn loc_axis() -> impl Strategy<Value = (u8, u8, i16)> {
    let kind = prop_oneof![1 => Just(0u8), 5 => Just(1u8), 1 => Just(2u8), 1 => Just(3u8), 3 => Just(4u8), 3 => Just(5u8), 1 => Just(6u8), 1 => Just(7u8), 1 => Just(8u8), 1 => Just(9u8), 2 => Just(10u8)];
    (kind, any::<u8>(), prop_oneof![Just(0i16), Just(16384i16), Just(-16384i16), -16384i16..=16384])
}
/// a location: per axis (kind, region, raw); mostly all axes refer to the same region so that it is active
fn location(naxes: usize) -> impl Strategy<Value = Vec<(u8, u8, i16)>> {
    (pvec(loc_axis(), naxes), any::<u8>(), 0u8..4).prop_map(|(mut l, r, share)| {
        if share != 0 {
            for a in l.iter_mut() {
                a.1 = r;
            }
        }
        l
    })
}

fn gvar_strategy(pr: Params) -> impl Strategy<Value = GvarCase> {
    (1usize..=4).prop_flat_map(move |naxes| {
        (
            prop_oneof![2 => pvec(region(naxes), 1..=4), 1 => pvec(region(naxes), 5..=12)],
            prop_oneof![1 => pvec(glyph_case(pr), 1..=2), 1 => pvec(glyph_case(pr), 1..=pr.max_glyphs)],
            any::<u64>(),
            pvec(location(naxes), pr.locs..=pr.locs.max(1) * 2 - usize::from(pr.locs == 0) * 2),
        )
            .prop_map(|(regions, glyphs, perm, locs)| GvarCase { regions, glyphs, perm, locs })
    })
}

/// required positions of a `Shaped` recipe among `n` real points
fn shaped_required(segs: &[(u16, u16, u8)], n: usize) -> Vec<(usize, u8, u8)> {
    let mut out = vec![];
    let mut pos: i64 = -1;
    'outer: for (si, (count, gap, kind)) in segs.iter().enumerate() {
        let ykind = segs[(si + 1) % segs.len()].2;
        for k in 0..*count {
            pos += if k == 0 { (*gap).max(1) as i64 } else { 1 };
            if pos as usize >= n {
                break 'outer;
            }
            out.push((pos as usize, *kind % 3, ykind % 3));
        }
    }
    out
}

fn build_model(c: &GvarCase, pr: Params) -> Result<Vec<BGlyph>, Fail> {
    if c.regions.is_empty() || c.regions.iter().any(|r| r.len() != c.regions[0].len() || r.is_empty()) {
        return Err(fail("harness", "malformed replay case (regions)".into()));
    }
    let mut model = vec![];
    for g in &c.glyphs {
        let coords = g.outline.coords();
        let ends = g.outline.ends();
        let n = g.outline.n();
        let np = n + 4;
        let mut tuples: Vec<BTuple> = vec![];
        for t in &g.tuples {
            let tents = c.regions[(t.region as usize * c.regions.len()) >> 8].clone();
            let (deltas, req, tol): (Vec<P>, Vec<bool>, (i64, i64)) = match &t.src {
                Src::Opt { deltas, tol } => {
                    if deltas.len() != np {
                        return Err(fail("harness", "malformed replay case (delta count)".into()));
                    }
                    let tol = TOLS[*tol as usize % TOLS.len()];
                    let r = check_iup(&coords, &ends, deltas, tol)?;
                    (deltas.clone(), r.required, tol)
                }
                Src::Shaped { segs, bytes, words, ph } => {
                    if segs.is_empty() || bytes.is_empty() || words.is_empty() || ph.len() != 4 {
                        return Err(fail("harness", "malformed replay case (recipe)".into()));
                    }
                    let mut expl: Vec<Option<P>> = vec![None; np];
                    let val = |kind: u8, i: usize| match kind {
                        0 => 0,
                        1 => bytes[i % bytes.len()],
                        _ => words[i % words.len()],
                    };
                    for (j, (pos, kx, ky)) in shaped_required(segs, n).into_iter().enumerate() {
                        expl[pos] = Some((val(kx, j), val(ky, j + 3)));
                    }
                    for i in 0..4 {
                        if ph[i] % 3 != 0 {
                            expl[n + i] = Some((val(ph[i] % 3, i), val(ph[i] % 3, i + 1)));
                        }
                    }
                    let inf = infer_all(&coords, &ends, &expl);
                    let deltas: Vec<P> = inf.iter().map(|f| (f.x.v.round() as i32, f.y.v.round() as i32)).collect();
                    (deltas, expl.iter().map(|e| e.is_some()).collect(), TOL_3_4)
                }
                Src::CopyPrev { scale } => match tuples.last() {
                    Some(p) => {
                        let s = if p.deltas.iter().all(|d| (d.0 * scale).abs() <= pr.dl && (d.1 * scale).abs() <= pr.dl) { *scale } else { 1 };
                        (p.deltas.iter().map(|d| (d.0 * s, d.1 * s)).collect(), p.req.clone(), (p.tol.0 * s.abs() as i64, p.tol.1))
                    }
                    None => {
                        let deltas: Vec<P> = vec![(3, -2); np];
                        let r = check_iup(&coords, &ends, &deltas, TOLS[0])?;
                        (deltas, r.required, TOLS[0])
                    }
                },
            };
            tuples.push(BTuple { tents, deltas, req, tol });
        }
        model.push(BGlyph { coords, ends, tuples });
    }
    Ok(model)
}

fn f2(v: i16) -> F2Dot14 {
    F2Dot14::from_bits(v)
}

fn build_gvar(model: &[BGlyph], naxes: usize, perm: u64) -> Result<Vec<u8>, Fail> {
    let mut order: Vec<usize> = (0..model.len()).collect();
    let mut p = perm;
    for i in (1..order.len()).rev() {
        p = p.wrapping_mul(6364136223846793005).wrapping_add(1442695040888963407);
        order.swap(i, (p >> 33) as usize % (i + 1));
    }
    let vars: Vec<GlyphVariations> = order
        .iter()
        .map(|&g| {
            let tv = model[g]
                .tuples
                .iter()
                .map(|t| {
                    GlyphDeltas::new(
                        t.tents.iter().map(|(s, p, e)| Tent::new(f2(*p), Some((f2(*s), f2(*e))))).collect(),
                        t.deltas.iter().zip(&t.req).map(|(d, r)| GlyphDelta::new(d.0 as i16, d.1 as i16, *r)).collect(),
                    )
                })
                .collect();
            GlyphVariations::new(GlyphId::new(g as u32), tv)
        })
        .collect();
    let gvar = Gvar::new(vars, naxes as u16).map_err(|e| fail("builder-rejects", format!("Gvar::new rejected consistent input: {e}")))?;
    dump_table(&gvar).map_err(|e| fail("dump", format!("dump_table(gvar) failed: {e}")))
}

// ---- independent decoder (transcribed from the OpenType gvar / TupleVariationStore specification) ----------------

struct Rd<'a> {
    b: &'a [u8],
    p: usize,
}
impl Rd<'_> {
    fn take(&mut self, n: usize) -> Result<&[u8], String> {
        let s = self.b.get(self.p..self.p + n).ok_or_else(|| format!("read of {n} bytes at {} beyond the end ({})", self.p, self.b.len()))?;
        self.p += n;
        Ok(s)
    }
    fn u8(&mut self) -> Result<u8, String> {
        Ok(self.take(1)?[0])
    }
    fn u16(&mut self) -> Result<u16, String> {
        let s = self.take(2)?;
        Ok(u16::from_be_bytes([s[0], s[1]]))
    }
    fn u32(&mut self) -> Result<u32, String> {
        let s = self.take(4)?;
        Ok(u32::from_be_bytes([s[0], s[1], s[2], s[3]]))
    }
}

/// None = all points
fn dec_points(r: &mut Rd) -> Result<Option<Vec<u16>>, String> {
    let b0 = r.u8()?;
    let count = if b0 & 0x80 != 0 { (((b0 & 0x7F) as usize) << 8) | r.u8()? as usize } else { b0 as usize };
    if count == 0 {
        return Ok(None);
    }
    let mut pts = Vec::with_capacity(count);
    let mut last = 0u32;
    while pts.len() < count {
        let c = r.u8()?;
        let n = (c & 0x7F) as usize + 1;
        for _ in 0..n {
            if pts.len() == count {
                break;
            }
            let v = if c & 0x80 != 0 { r.u16()? as u32 } else { r.u8()? as u32 };
            last += v;
            if last > 0xFFFF {
                return Err("point number beyond 65535".into());
            }
            pts.push(last as u16);
        }
    }
    Ok(Some(pts))
}
fn dec_deltas(r: &mut Rd, count: usize) -> Result<Vec<i32>, String> {
    let mut out = Vec::with_capacity(count);
    while out.len() < count {
        let c = r.u8()?;
        let n = (c & 0x3F) as usize + 1;
        for _ in 0..n {
            let v = match (c & 0x80 != 0, c & 0x40 != 0) {
                (true, false) => 0,
                (false, false) => r.u8()? as i8 as i32,
                (false, true) => r.u16()? as i16 as i32,
                (true, true) => r.u32()? as i32,
            };
            if out.len() < count {
                out.push(v);
            }
        }
    }
    Ok(out)
}

#[derive(Debug, PartialEq)]
struct DecTuple {
    peak: Vec<i16>,
    inter: Option<(Vec<i16>, Vec<i16>)>,
    private: bool,
    embedded: bool,
    /// None = all points
    points: Option<Vec<u16>>,
    dx: Vec<i32>,
    dy: Vec<i32>,
}
struct DecGvar {
    long: bool,
    shared_tuples: usize,
    /// per glyph: None = no data; Some(shared point numbers present, tuples)
    glyphs: Vec<Option<(bool, Vec<DecTuple>)>>,
    data_len: u32,
}

fn decode_gvar(b: &[u8], npts: &[usize]) -> Result<DecGvar, String> {
    let mut r = Rd { b, p: 0 };
    let (major, _minor, axis_count, shared_count, shared_off, glyph_count, flags, data_off) = (r.u16()?, r.u16()?, r.u16()? as usize, r.u16()? as usize, r.u32()? as usize, r.u16()? as usize, r.u16()?, r.u32()? as usize);
    if major != 1 {
        return Err(format!("majorVersion {major}"));
    }
    if glyph_count != npts.len() {
        return Err(format!("glyphCount {glyph_count}, {} glyphs written", npts.len()));
    }
    let long = flags & 1 != 0;
    let mut offs = vec![];
    for _ in 0..=glyph_count {
        offs.push(if long { r.u32()? } else { r.u16()? as u32 * 2 });
    }
    let mut shared = vec![];
    let mut sr = Rd { b, p: shared_off };
    for _ in 0..shared_count {
        let mut t = vec![];
        for _ in 0..axis_count {
            t.push(sr.u16()? as i16);
        }
        shared.push(t);
    }
    let mut glyphs = vec![];
    for g in 0..glyph_count {
        let (s, e) = (offs[g] as usize, offs[g + 1] as usize);
        if e < s {
            return Err(format!("glyph {g}: offsets decrease ({s} > {e})"));
        }
        if e == s {
            glyphs.push(None);
            continue;
        }
        let d = b.get(data_off + s..data_off + e).ok_or_else(|| format!("glyph {g}: data range {s}..{e} beyond the table"))?;
        let mut h = Rd { b: d, p: 0 };
        let cf = h.u16()?;
        let data_offset = h.u16()? as usize;
        let count = (cf & 0x0FFF) as usize;
        let mut body = Rd { b: d, p: data_offset };
        let shared_points = if cf & 0x8000 != 0 { Some(dec_points(&mut body).map_err(|e| format!("glyph {g} shared points: {e}"))?) } else { None };
        let mut tuples = vec![];
        for t in 0..count {
            let size = h.u16()? as usize;
            let ti = h.u16()?;
            let embedded = ti & 0x8000 != 0;
            let rd_tuple = |h: &mut Rd| -> Result<Vec<i16>, String> { (0..axis_count).map(|_| h.u16().map(|v| v as i16)).collect() };
            let peak = if embedded { rd_tuple(&mut h)? } else { shared.get((ti & 0x0FFF) as usize).cloned().ok_or_else(|| format!("glyph {g} tuple {t}: shared tuple index {} of {}", ti & 0x0FFF, shared.len()))? };
            let inter = if ti & 0x4000 != 0 { Some((rd_tuple(&mut h)?, rd_tuple(&mut h)?)) } else { None };
            let private = ti & 0x2000 != 0;
            let td = d.get(body.p..body.p + size).ok_or_else(|| format!("glyph {g} tuple {t}: data of {size} bytes at {} beyond the glyph's {} bytes", body.p, d.len()))?;
            body.p += size;
            let mut tr = Rd { b: td, p: 0 };
            let points = if private {
                dec_points(&mut tr).map_err(|e| format!("glyph {g} tuple {t} private points: {e}"))?
            } else {
                shared_points.clone().ok_or_else(|| format!("glyph {g} tuple {t}: neither private nor shared point numbers"))?
            };
            let nd = match &points {
                Some(p) => p.len(),
                None => npts[g],
            };
            let all = dec_deltas(&mut tr, nd * 2).map_err(|e| format!("glyph {g} tuple {t} deltas ({nd} points, {} data bytes): {e}", td.len()))?;
            let (dx, dy) = (all[..nd].to_vec(), all[nd..].to_vec());
            tuples.push(DecTuple { peak, inter, private, embedded, points, dx, dy });
        }
        glyphs.push(Some((shared_points.is_some(), tuples)));
    }
    Ok(DecGvar { long, shared_tuples: shared_count, glyphs, data_len: *offs.last().unwrap() })
}

fn bits(t: &read_fonts::tables::variations::Tuple) -> Vec<i16> {
    t.values.iter().map(|v| v.get().to_bits()).collect()
}

/// explicit deltas per glyph per tuple, as decoded
type Explicit = Vec<Vec<Vec<Option<P>>>>;

fn check_table(model: &[BGlyph], bytes: &[u8], cnt: &mut Cnt) -> Result<(DecGvar, Explicit), Fail> {
    let npts: Vec<usize> = model.iter().map(|g| g.coords.len()).collect();
    let dec = decode_gvar(bytes, &npts).map_err(|e| fail("spec-decode", format!("the compiled gvar does not decode by the specification: {e}")))?;
    let rd = rg::Gvar::read(FontData::new(bytes)).map_err(|e| fail("read", format!("read-fonts rejects the compiled gvar: {e}")))?;
    cnt.add(if dec.long { "gvar|offsets=long" } else { "gvar|offsets=short" });
    cnt.add(if dec.shared_tuples > 0 { "gvar|has-shared-tuples" } else { "gvar|no-shared-tuples" });
    let mut explicit: Explicit = vec![];
    for (g, gm) in model.iter().enumerate() {
        let vd = rd.glyph_variation_data(GlyphId::new(g as u32)).map_err(|e| fail("read-glyph", format!("glyph_variation_data({g}): {e}")))?;
        let rtuples: Vec<_> = vd.as_ref().map(|v| v.tuples().collect()).unwrap_or_default();
        let (shared_pts, dtuples) = match &dec.glyphs[g] {
            Some((s, t)) => (*s, t.as_slice()),
            None => (false, &[][..]),
        };
        if vd.is_some() != dec.glyphs[g].is_some() || rtuples.len() != dtuples.len() {
            return Err(fail("reader-vs-spec", format!("glyph {g}: read-fonts sees {} tuples (data present: {}), the spec decoder {}", rtuples.len(), vd.is_some(), dtuples.len())));
        }
        if dtuples.len() != gm.tuples.len() {
            return Err(fail("tuple-count", format!("glyph {g}: {} tuples written, {} decoded", gm.tuples.len(), dtuples.len())));
        }
        if gm.tuples.is_empty() {
            cnt.add("glyph|no-tuples");
        }
        if shared_pts {
            cnt.add("glyph|shared-point-numbers");
        }
        let np = gm.coords.len();
        let mut gex = vec![];
        for (ti, ((tm, dt), rt)) in gm.tuples.iter().zip(dtuples).zip(&rtuples).enumerate() {
            let at = format!("glyph {g} tuple {ti}");
            // (b) read-fonts agrees with the spec decoder
            let r_inter = match (rt.intermediate_start(), rt.intermediate_end()) {
                (Some(a), Some(b)) => Some((bits(&a), bits(&b))),
                (None, None) => None,
                _ => return Err(fail("reader-vs-spec", format!("{at}: read-fonts reports only one intermediate tuple"))),
            };
            let r_deltas: Vec<(u16, i32, i32)> = rt.deltas().map(|d| (d.position, d.x_delta, d.y_delta)).collect();
            let d_deltas: Vec<(u16, i32, i32)> = match &dt.points {
                Some(p) => p.iter().zip(dt.dx.iter().zip(&dt.dy)).map(|(p, (x, y))| (*p, *x, *y)).collect(),
                None => dt.dx.iter().zip(&dt.dy).enumerate().map(|(i, (x, y))| (i as u16, *x, *y)).collect(),
            };
            if bits(&rt.peak()) != dt.peak || r_inter != dt.inter || rt.has_deltas_for_all_points() != dt.points.is_none() || r_deltas != d_deltas {
                let k = r_deltas.iter().zip(&d_deltas).position(|(a, b)| a != b);
                return Err(fail(
                    "reader-vs-spec",
                    format!("{at}: read-fonts peak {:?} inter {:?} all-points {} {} deltas; spec decoder peak {:?} inter {:?} all-points {} {} deltas; first differing delta {:?}: {:?} vs {:?}",
                        bits(&rt.peak()), r_inter, rt.has_deltas_for_all_points(), r_deltas.len(), dt.peak, dt.inter, dt.points.is_none(), d_deltas.len(), k, k.map(|k| r_deltas[k]), k.map(|k| d_deltas[k])),
                ));
            }
            if !rt.has_deltas_for_all_points() {
                let rp: Vec<u16> = rt.point_numbers().take(70_000).collect();
                if Some(&rp) != dt.points.as_ref() {
                    return Err(fail("reader-vs-spec", format!("{at}: point_numbers() yields {} numbers, the spec decoder {:?}", rp.len(), dt.points.as_ref().map(|p| p.len()))));
                }
            }
            // (a) the decoded tuple against the input
            let peaks: Vec<i16> = tm.tents.iter().map(|t| t.1).collect();
            if dt.peak != peaks {
                return Err(fail("peak", format!("{at}: peak {:?} decoded, {:?} written", dt.peak, peaks)));
            }
            match &dt.inter {
                Some((s, e)) => {
                    if *s != tm.tents.iter().map(|t| t.0).collect::<Vec<_>>() || *e != tm.tents.iter().map(|t| t.2).collect::<Vec<_>>() {
                        return Err(fail("intermediate", format!("{at}: intermediate region {s:?}..{e:?} decoded, tents written {:?}", tm.tents)));
                    }
                    cnt.add("tuple|intermediate");
                }
                None => {
                    if tm.tents.iter().any(|t| (t.0, t.2) != (t.1.min(0), t.1.max(0))) {
                        return Err(fail("intermediate", format!("{at}: no intermediate region decoded, tents written {:?}", tm.tents)));
                    }
                    cnt.add("tuple|peak-only");
                }
            }
            let mut expl: Vec<Option<P>> = vec![None; np];
            let mut prev: i64 = -1;
            for (p, x, y) in &d_deltas {
                if *p as usize >= np {
                    return Err(fail("point-range", format!("{at}: explicit delta for point {p}, the glyph has {np} points incl. phantom points")));
                }
                if *p as i64 <= prev {
                    return Err(fail("point-order", format!("{at}: point number {p} after {prev}")));
                }
                prev = *p as i64;
                expl[*p as usize] = Some((*x, *y));
            }
            for i in 0..np {
                if tm.req[i] && expl[i] != Some(tm.deltas[i]) {
                    return Err(fail(
                        "required-delta",
                        format!("{at}: required delta of point {i} is {:?}, decoded {:?} (all-points form: {}, {} explicit deltas, {} required, {np} points)", tm.deltas[i], expl[i], dt.points.is_none(), d_deltas.len(), tm.req.iter().filter(|r| **r).count()),
                    ));
                }
            }
            let inf = infer_all(&gm.coords, &gm.ends, &expl);
            for (i, f) in inf.iter().enumerate() {
                if tm.req[i] {
                    continue;
                }
                let (ex, ey) = (f.x.v.sub_int(tm.deltas[i].0 as i64), f.y.v.sub_int(tm.deltas[i].1 as i64));
                if !within_tol(ex, ey, tm.tol) {
                    return Err(fail(
                        "optional-delta",
                        format!("{at}: optional delta of point {i} is {:?} (declared tolerance {}/{}), the decoded data give ({}/{}, {}/{}) ({})", tm.deltas[i], tm.tol.0, tm.tol.1, f.x.v.n, f.x.v.d, f.y.v.n, f.y.v.d,
                            if f.explicit { "stored explicitly" } else { "by inference" }),
                    ));
                }
            }
            // distribution
            let nreq = tm.req.iter().filter(|r| **r).count();
            cnt.add(match (dt.points.is_none(), dt.private) {
                (true, true) => "tuple|all-points,private",
                (true, false) => "tuple|all-points,shared",
                (false, true) => "tuple|sparse,private",
                (false, false) => "tuple|sparse,shared",
            });
            cnt.add(if dt.embedded { "tuple|peak=embedded" } else { "tuple|peak=shared" });
            if nreq == 0 {
                cnt.add("tuple|no-required-delta");
            }
            if nreq < np {
                cnt.add("tuple|has-optional-deltas");
            }
            if let Some(p) = &dt.points {
                match p.len() {
                    127 => cnt.add("points|count=127"),
                    128 => cnt.add("points|count=128"),
                    129 => cnt.add("points|count=129"),
                    _ => {}
                }
                let mut last = 0u16;
                for q in p {
                    match q - last {
                        127 => cnt.add("points|gap=127"),
                        128 => cnt.add("points|gap=128"),
                        129 => cnt.add("points|gap=129"),
                        255 => cnt.add("points|gap=255"),
                        256 => cnt.add("points|gap=256"),
                        257..=65535 => cnt.add("points|gap>=257"),
                        _ => {}
                    }
                    last = *q;
                }
            }
            for stream in [&dt.dx, &dt.dy] {
                // maximal runs of one storage class in the written stream
                let class = |v: i32| if v == 0 { 0 } else if (-128..=127).contains(&v) { 1 } else { 2 };
                let mut i = 0;
                while i < stream.len() {
                    let k = class(stream[i]);
                    let mut j = i;
                    while j < stream.len() && class(stream[j]) == k {
                        j += 1;
                    }
                    let name = ["zero", "byte", "word"][k];
                    match j - i {
                        63 => cnt.add(&format!("deltas|{name}-run=63")),
                        64 => cnt.add(&format!("deltas|{name}-run=64")),
                        65 => cnt.add(&format!("deltas|{name}-run=65")),
                        66..=usize::MAX => cnt.add(&format!("deltas|{name}-run>65")),
                        _ => {}
                    }
                    i = j;
                }
            }
            gex.push(expl);
        }
        explicit.push(gex);
    }
    Ok((dec, explicit))
}

fn boundary_hit(cnt: &Cnt) -> bool {
    cnt.0.keys().any(|k| k.starts_with("points|") || k.starts_with("deltas|"))
}

const TABLE_PARAMS: Params = Params { lim: 12000, dl: 16000, max_glyphs: 12, max_tuples: 6, sizes: 1, locs: 0 };

fn test_table(c: &GvarCase, stats: &Stats) -> CaseResult {
    let model = build_model(c, TABLE_PARAMS)?;
    let bytes = build_gvar(&model, c.regions[0].len(), c.perm)?;
    let mut cnt = Cnt::default();
    let (dec, _) = check_table(&model, &bytes, &mut cnt)?;
    cnt.add(&format!("gvar|axes={}", c.regions[0].len()));
    let optional = model.iter().flat_map(|g| &g.tuples).any(|t| t.req.iter().any(|r| !*r));
    cnt.flush(stats);
    if optional || boundary_hit(&cnt) {
        stats.nontrivial(hash_json(c));
        if model.iter().any(|g| g.tuples.len() > 1) && sample_slot(&TABLE_SAMPLES, 3, stats) {
            stats.sample(json!({"stage": "gvar-table", "axes": c.regions[0].len(), "regions": c.regions, "glyph_points": model.iter().map(|g| g.coords.len()).collect::<Vec<_>>(),
                "tuples_per_glyph": model.iter().map(|g| g.tuples.len()).collect::<Vec<_>>(), "required_per_tuple": model.iter().map(|g| g.tuples.iter().map(|t| t.req.iter().filter(|r| **r).count()).collect::<Vec<_>>()).collect::<Vec<_>>(),
                "table_bytes": bytes.len(), "long_offsets": dec.long}));
        }
    }
    Ok(())
}

// ---------------------------------------------------------------------------------------------------------------
// gvar-offsets: total glyph data steered around the short/long offset switch (131070 bytes)
// ---------------------------------------------------------------------------------------------------------------

#[derive(Clone, Debug, Serialize, Deserialize)]
struct OffsetsCase {
    base: GvarCase,
    /// wanted total size of the glyph variation data array
    target: u32,
    /// deltas of the filler glyph (cycled), all non-zero bytes
    fill: Vec<i32>,
}
const BULK_PARAMS: Params = Params { lim: 12000, dl: 16000, max_glyphs: 3, max_tuples: 5, sizes: 2, locs: 0 };

fn offsets_strategy() -> impl Strategy<Value = OffsetsCase> {
    (
        gvar_strategy(BULK_PARAMS),
        proptest::sample::select(vec![131_060u32, 131_066, 131_068, 131_070, 131_072, 131_074, 131_080, 140_000]),
        pvec(prop_oneof![1i32..=127, -128i32..=-1], 1..6),
    )
        .prop_map(|(base, target, fill)| OffsetsCase { base, target, fill })
}

fn filler(n: usize, naxes: usize, fill: &[i32]) -> BGlyph {
    let np = n + 4;
    BGlyph {
        coords: (0..np as i32).map(|i| (i, 0)).collect(),
        ends: if n > 0 { vec![n - 1] } else { vec![] },
        tuples: vec![BTuple {
            tents: (0..naxes).map(|a| if a == 0 { (0, 16384, 16384) } else { (0, 0, 0) }).collect(),
            deltas: (0..np).map(|i| (fill[i % fill.len()], fill[(i + 1) % fill.len()])).collect(),
            req: vec![true; np],
            tol: TOLS[0],
        }],
    }
}

fn test_offsets(c: &OffsetsCase, stats: &Stats) -> CaseResult {
    if c.fill.is_empty() || c.fill.iter().any(|v| *v == 0 || !(-128..=127).contains(v)) {
        return Err(fail("harness", "malformed replay case (fill)".into()));
    }
    let naxes = c.base.regions[0].len();
    let mut model = build_model(&c.base, BULK_PARAMS)?;
    // size of a dense all-byte tuple stream of np points: 2 * (np + ceil(np / 64)); steer the filler's point count
    let stream = |np: usize| 2 * (np + np.div_ceil(64));
    // (a tuple's data size is a u16: fillers are capped at 15000 points and multiplied instead)
    const CAP: usize = 15_000;
    let base_len = model.len();
    let mut fillers: Vec<usize> = vec![60];
    let mut cnt = Cnt::default();
    let mut last: Option<(Vec<u8>, u32)> = None;
    for _round in 0..10 {
        model.truncate(base_len);
        for n in &fillers {
            model.push(filler(*n, naxes, &c.fill));
        }
        let bytes = build_gvar(&model, naxes, c.base.perm)?;
        let npts: Vec<usize> = model.iter().map(|g| g.coords.len()).collect();
        let total = decode_gvar(&bytes, &npts).map_err(|e| fail("spec-decode", format!("the compiled gvar ({} bytes) does not decode by the specification: {e}", bytes.len())))?.data_len;
        last = Some((bytes, total));
        if total == c.target {
            break;
        }
        let n = *fillers.last().unwrap();
        let want = stream(n + 4) as i64 + c.target as i64 - total as i64;
        if want > stream(CAP + 4) as i64 {
            *fillers.last_mut().unwrap() = CAP;
            fillers.push(60);
            continue;
        }
        if want < stream(5) as i64 {
            break; // the data without this filler already exceed the target
        }
        // largest point count whose stream size does not exceed the wanted size
        let mut np = (want as usize) / 2;
        while stream(np) as i64 > want {
            np -= 1;
        }
        if np - 4 == n {
            break;
        }
        *fillers.last_mut().unwrap() = np - 4;
    }
    let (bytes, total) = last.unwrap();
    let (dec, _) = check_table(&model, &bytes, &mut cnt)?;
    let d = total as i64 - 131_070;
    stats.class(&format!("offsets|total-131070={}", if d < -8 { "<-8".to_string() } else if d > 8 { ">8".to_string() } else { d.to_string() }));
    stats.class(if dec.long { "offsets|long" } else { "offsets|short" });
    cnt.flush(stats);
    if (-8..=8).contains(&d) {
        stats.nontrivial(hash_json(c));
    }
    Ok(())
}

// ---------------------------------------------------------------------------------------------------------------
// gvar-many-peaks: thousands of tiny glyphs whose tuples draw their peaks from a pool of distinct regions around the
// 4095-entry limit of the shared tuple list (tupleIndex has 12 index bits)
// ---------------------------------------------------------------------------------------------------------------

#[derive(Clone, Debug, Serialize, Deserialize)]
struct ManyCase {
    naxes: u8,
    /// distinct peaks used by at least two tuples (candidates for the shared tuple list)
    shared: u16,
    /// how many of those are used a third time
    triple: u16,
    /// distinct peaks used exactly once (always embedded)
    once: u16,
    /// tuples per glyph
    tpg: u8,
    /// real points per glyph (+ 4 phantom points)
    npts: u8,
    /// peak of pool member k: axis 0 = (k % 181 + 1) * s0, axis 1 = (k / 181 + 1) * s1, further axes c2
    s0: i16,
    s1: i16,
    c2: i16,
    vals: Vec<i16>,
    /// every n-th tuple has an intermediate region / takes its flags from iup_delta_optimize (0 = never)
    inter_every: u8,
    iup_every: u8,
    perm: u64,
}

fn many_strategy() -> impl Strategy<Value = ManyCase> {
    let stride = prop_oneof![1i16..=80, -80i16..=-1];
    (
        (2u8..=3, prop_oneof![1 => 20u16..=400, 1 => Just(4090u16), 2 => Just(4094u16), 3 => Just(4095u16), 3 => Just(4096u16), 3 => Just(4097u16), 2 => Just(4100u16), 1 => 4101u16..=5000], 0u16..=40, 0u16..=30),
        (2u8..=4, 0u8..=4, stride.clone(), stride, prop_oneof![Just(0i16), Just(16384i16), -16384i16..=16384]),
        (pvec(prop_oneof![3 => Just(0i16), 4 => -20i16..=20, 1 => -3000i16..=3000], 1..12), 0u8..=5, 0u8..=5, any::<u64>()),
    )
        .prop_map(|((naxes, shared, triple, once), (tpg, npts, s0, s1, c2), (vals, inter_every, iup_every, perm))| ManyCase { naxes, shared, triple, once, tpg, npts, s0, s1, c2, vals, inter_every, iup_every, perm })
}

fn test_many(c: &ManyCase, stats: &Stats) -> CaseResult {
    let m = c.shared as usize;
    if m == 0 || m > 5100 || c.s0 == 0 || c.s1 == 0 || c.s0.unsigned_abs() > 80 || c.s1.unsigned_abs() > 80 || c.vals.is_empty() || c.tpg == 0 || c.npts > 4 || !(2..=4).contains(&c.naxes) {
        return Err(fail("harness", "malformed replay case (many)".into()));
    }
    let naxes = c.naxes as usize;
    let once = c.once as usize;
    let triple = (c.triple as usize).min(m);
    // pool member k -> region
    let region = |k: usize, inter: bool| -> Vec<TentM> {
        (0..naxes)
            .map(|a| {
                let p = match a {
                    0 => ((k % 181) as i16 + 1) * c.s0,
                    1 => ((k / 181) as i16 + 1) * c.s1,
                    _ => c.c2,
                };
                if inter && p != 0 { if p > 0 { (p / 2, p, 16384) } else { (-16384, p, p / 2) } } else { (p.min(0), p, p.max(0)) }
            })
            .collect()
    };
    // slot -> pool member: every shared member twice (two different multiplicative orders), the first `triple` a third
    // time, then the `once` members (pool indices m..m+once)
    let mut slots: Vec<usize> = vec![];
    for j in 0..m {
        slots.push((j * 7919 + 13) % m);
    }
    for j in 0..once {
        slots.push(m + j);
    }
    for j in 0..m {
        slots.push((j * 6271 + 101) % m);
    }
    for j in 0..triple {
        slots.push((j * 5) % m);
    }
    let np = c.npts as usize + 4;
    let base: [P; 8] = [(0, 0), (10, 0), (10, 7), (0, 7), (0, 0), (12, 0), (0, 9), (0, -3)];
    let coords: Vec<P> = base[..c.npts as usize].iter().chain(&base[4..]).copied().collect();
    let ends: Vec<usize> = if c.npts > 0 { vec![c.npts as usize - 1] } else { vec![] };
    let mut model: Vec<BGlyph> = vec![];
    for (si, k) in slots.iter().enumerate() {
        if si % c.tpg as usize == 0 {
            model.push(BGlyph { coords: coords.clone(), ends: ends.clone(), tuples: vec![] });
        }
        let inter = c.inter_every != 0 && si % c.inter_every as usize == 0;
        let deltas: Vec<P> = (0..np).map(|i| (c.vals[(si + i) % c.vals.len()] as i32, c.vals[(si * 3 + i + 1) % c.vals.len()] as i32)).collect();
        let (req, tol) = if c.iup_every != 0 && si % c.iup_every as usize == 0 {
            let tol = TOLS[(si / c.iup_every as usize) % 3];
            (check_iup(&coords, &ends, &deltas, tol)?.required, tol)
        } else {
            (vec![true; np], TOLS[0])
        };
        model.last_mut().unwrap().tuples.push(BTuple { tents: region(*k, inter), deltas, req, tol });
    }
    let bytes = build_gvar(&model, naxes, c.perm)?;
    let mut cnt = Cnt::default();
    let (dec, _) = check_table(&model, &bytes, &mut cnt)?;
    stats.class(match m {
        0..=4094 => "many|shareable-peaks<4095",
        4095 => "many|shareable-peaks=4095",
        4096 => "many|shareable-peaks=4096",
        4097 => "many|shareable-peaks=4097",
        _ => "many|shareable-peaks>4097",
    });
    stats.class(match dec.shared_tuples {
        0..=4094 => "many|shared-tuple-list<4095",
        4095 => "many|shared-tuple-list=4095",
        _ => "many|shared-tuple-list>4095",
    });
    stats.class_n("many|glyphs", model.len() as u64);
    stats.class_n("many|tuples", slots.len() as u64);
    stats.class_n("many|tuples,peak=embedded", *cnt.0.get("tuple|peak=embedded").unwrap_or(&0));
    stats.class_n("many|tuples,peak=shared", *cnt.0.get("tuple|peak=shared").unwrap_or(&0));
    stats.evals(slots.len() as u64);
    if m >= 4095 {
        stats.nontrivial(hash_json(c));
    }
    Ok(())
}

// ---------------------------------------------------------------------------------------------------------------
// part 3: draw route
// ---------------------------------------------------------------------------------------------------------------

const DRAW_PARAMS: Params = Params { lim: 4000, dl: 2000, max_glyphs: 5, max_tuples: 6, sizes: 0, locs: 3 };

/// simple glyph, every point on-curve, coordinates as 16-bit deltas (hand encoded, independent of write-fonts)
fn encode_glyph(contours: &[Vec<P>]) -> Vec<u8> {
    let pts: Vec<P> = contours.iter().flatten().copied().collect();
    if pts.is_empty() {
        return vec![];
    }
    let mut v = vec![];
    let be = |v: &mut Vec<u8>, x: i32| v.extend_from_slice(&(x as i16).to_be_bytes());
    be(&mut v, contours.len() as i32);
    be(&mut v, pts.iter().map(|p| p.0).min().unwrap());
    be(&mut v, pts.iter().map(|p| p.1).min().unwrap());
    be(&mut v, pts.iter().map(|p| p.0).max().unwrap());
    be(&mut v, pts.iter().map(|p| p.1).max().unwrap());
    let mut acc = 0;
    for c in contours {
        acc += c.len();
        v.extend_from_slice(&((acc - 1) as u16).to_be_bytes());
    }
    be(&mut v, 0); // instructionLength
    v.extend(std::iter::repeat(0x01u8).take(pts.len()));
    let mut last = 0;
    for p in &pts {
        be(&mut v, p.0 - last);
        last = p.0;
    }
    last = 0;
    for p in &pts {
        be(&mut v, p.1 - last);
        last = p.1;
    }
    while v.len() % 4 != 0 {
        v.push(0);
    }
    v
}

/// the specification's scalar of one axis; the flag says whether the value is a proper quotient (a fixed-point
/// implementation rounds once per such factor)
fn tent_scalar(t: TentM, c: i16) -> (Q, bool) {
    let (s, p, e, c) = (t.0 as i128, t.1 as i128, t.2 as i128, c as i128);
    if p == 0 || c == p {
        (Q::ONE, false)
    } else if c < s || c > e {
        (Q::ZERO, false)
    } else if c < p {
        (Q::new(c - s, p - s), true)
    } else {
        (Q::new(e - c, e - p), true)
    }
}

fn resolve_loc(spec: &[(u8, u8, i16)], regions: &[Vec<TentM>]) -> Vec<i16> {
    spec.iter()
        .enumerate()
        .map(|(a, (kind, r, raw))| {
            let t = regions[(*r as usize * regions.len()) >> 8][a];
            let mid = |x: i16, y: i16| ((x as i32 + y as i32) / 2) as i16;
            let v = match kind {
                0 => 0,
                1 => t.1,
                2 => t.0,
                3 => t.2,
                4 => mid(t.0, t.1),
                5 => mid(t.1, t.2),
                6 => t.1.saturating_add(1),
                7 => t.1.saturating_sub(1),
                8 => t.0.saturating_add(1),
                9 => t.2.saturating_sub(1),
                _ => *raw,
            };
            v.clamp(-16384, 16384)
        })
        .collect()
}

fn path_points(els: &[PathElement]) -> Result<Vec<Vec<(f32, f32)>>, String> {
    let mut out: Vec<Vec<(f32, f32)>> = vec![];
    let mut open = false;
    for e in els {
        match e {
            PathElement::MoveTo { x, y } => {
                if open {
                    return Err("MoveTo inside an open subpath".into());
                }
                out.push(vec![(*x, *y)]);
                open = true;
            }
            PathElement::LineTo { x, y } if open => out.last_mut().unwrap().push((*x, *y)),
            PathElement::Close if open => open = false,
            other => return Err(format!("unexpected path element {other:?} for an all-on-curve outline")),
        }
    }
    if open {
        return Err("unclosed subpath".into());
    }
    Ok(out)
}

/// floor(v * 2^40) of a drawn coordinate
fn f32_units(v: f32) -> i128 {
    ((v as f64) * (1u64 << 40) as f64).floor() as i128
}

const U_2_17: i128 = 1 << 23; // 2^-17 in units of 2^-40
const U_2_10: i128 = 1 << 30;
const U_HALF: i128 = 1 << 39;

/// Reference position of every point of glyph `gm` at `loc` as an enclosure [lo, hi] in units of 2^-40, plus the
/// error allowance of a 16.16 implementation (without the final rounding):
///   per active tuple r:  m * k_r * 2^-17   (scalar: one rounding of <= 2^-17 per axis factor, k_r factors; the scalar
///                                           multiplies deltas of magnitude <= m; delta * scalar itself is exact in 16.16)
///                      + X * 2^-17         (inferred points only: the interpolation slope is one 16.16 quotient, error
///                                           <= 2^-17, multiplied by the integer distance X from the lower reference)
/// A tuple whose exact scalar is 0 contributes exactly nothing (a zero factor makes the fixed-point product exactly 0).
struct Quant {
    lo: i128,
    hi: i128,
    err: i128,
}
struct RefPoint {
    lo: [i128; 2],
    hi: [i128; 2],
    err: [i128; 2],
}
fn reference(gm: &BGlyph, infs: &[Vec<Inf>], loc: &[i16]) -> (Vec<RefPoint>, usize) {
    let np = gm.coords.len();
    let mut out: Vec<RefPoint> = gm.coords.iter().map(|c| RefPoint { lo: [(c.0 as i128) << 40, (c.1 as i128) << 40], hi: [(c.0 as i128) << 40, (c.1 as i128) << 40], err: [0, 0] }).collect();
    let mut active = 0;
    for (ti, t) in gm.tuples.iter().enumerate() {
        let mut s = Q::ONE;
        let mut k = 0i128;
        for (a, tent) in t.tents.iter().enumerate() {
            let (f, q) = tent_scalar(*tent, loc[a]);
            s = s.mul(f);
            k += q as i128;
        }
        if s.n == 0 {
            continue;
        }
        active += 1;
        for i in 0..np {
            let f = &infs[ti][i];
            for (ax, a) in [f.x, f.y].iter().enumerate() {
                if a.v.n != 0 {
                    let (u, exact) = s.mul(a.v).units();
                    out[i].lo[ax] += u;
                    out[i].hi[ax] += u + i128::from(!exact);
                }
                out[i].err[ax] += (a.m as i128 * k + a.x as i128) * U_2_17;
            }
        }
    }
    (out, active)
}

fn test_draw(c: &GvarCase, stats: &Stats) -> CaseResult {
    draw_check(c, DRAW_PARAMS, stats)
}

/// Regression stage for a repaired defect (fix: "gvar builder encoded a tuple without required deltas as 'all points'
/// followed by no delta data"): a tuple without any required delta (all deltas zero and optional, which is what
/// `iup_delta_optimize` returns for an unchanged glyph) was written as point count 0 with no delta bytes; skrifa failed
/// to read such a tuple and then dropped the deltas of *every* tuple of the glyph wherever the empty tuple was active.
/// Every case here has such a tuple next to ordinary ones; the other stages generate them at their natural rate.
const DRAW_ZERO_PARAMS: Params = Params { max_glyphs: 2, ..DRAW_PARAMS };
fn draw_zero_strategy() -> impl Strategy<Value = GvarCase> {
    (gvar_strategy(DRAW_ZERO_PARAMS), any::<u8>(), any::<u8>()).prop_map(|(mut c, at, region)| {
        let g = &mut c.glyphs[0];
        let np = g.outline.n() + 4;
        let at = (at as usize * (g.tuples.len() + 1)) >> 8;
        g.tuples.insert(at, TupleCase { region, src: Src::Opt { deltas: vec![(0, 0); np], tol: 0 } });
        c
    })
}
fn test_draw_zero(c: &GvarCase, stats: &Stats) -> CaseResult {
    draw_check(c, DRAW_ZERO_PARAMS, stats).map_err(|f| match f.sig.strip_prefix("c10|") {
        Some(tail) if tail != "harness" => Fail::new(format!("c10|no-required-delta-tuple|{tail}"), f.msg),
        _ => f,
    })
}

fn draw_check(c: &GvarCase, pr: Params, stats: &Stats) -> CaseResult {
    let naxes = c.regions[0].len();
    let model = build_model(c, pr)?;
    let gvar_bytes = build_gvar(&model, naxes, c.perm)?;
    let mut cnt = Cnt::default();
    let (_dec, explicit) = check_table(&model, &gvar_bytes, &mut cnt)?;
    // font
    let mut glyf = vec![];
    let mut offsets = vec![0u32];
    for g in &c.glyphs {
        glyf.extend(encode_glyph(&g.outline.contours));
        offsets.push(glyf.len() as u32);
    }
    let kit = fontkit::Kit {
        num_glyphs: model.len() as u16,
        upem: 1000,
        glyf: Some((glyf, offsets)),
        // lsb = xMin: the scaler shifts nothing
        h_metrics: c.glyphs.iter().map(|g| (500u16, g.outline.contours.iter().flatten().map(|p| p.0).min().unwrap_or(0) as i16)).collect(),
        axes: (0..naxes).map(|a| fontkit::Axis { tag: [b'A', b'X', b'0', b'0' + a as u8], min: -0x10000, default: 0, max: 0x10000 }).collect(),
        extra: vec![(*b"gvar", gvar_bytes.clone())],
        ..Default::default()
    };
    let font_bytes = kit.build();
    let font = skrifa::FontRef::new(&font_bytes).map_err(|e| fail("harness", format!("kit font does not open: {e}")))?;
    let outlines = font.outline_glyphs();
    let (glyf_t, loca_t, gvar_t) = (
        font.glyf().map_err(|e| fail("harness", format!("glyf: {e}")))?,
        font.loca(None).map_err(|e| fail("harness", format!("loca: {e}")))?,
        font.gvar().map_err(|e| fail("harness", format!("gvar: {e}")))?,
    );
    let infs: Vec<Vec<Vec<Inf>>> = model.iter().zip(&explicit).map(|(gm, ge)| ge.iter().map(|e| infer_all(&gm.coords, &gm.ends, e)).collect()).collect();
    let mut nontrivial = false;
    for spec in &c.locs {
        if spec.len() != naxes {
            return Err(fail("harness", "malformed replay case (location)".into()));
        }
        let loc = resolve_loc(spec, &c.regions);
        let coords: Vec<F2Dot14> = loc.iter().map(|v| f2(*v)).collect();
        for (g, gm) in model.iter().enumerate() {
            let n = gm.coords.len() - 4;
            let (refp, active) = reference(gm, &infs[g], &loc);
            cnt.add(match active {
                0 => "draw|active-tuples=0",
                1 => "draw|active-tuples=1",
                _ => "draw|active-tuples>=2",
            });
            let inferred_active = gm.tuples.iter().zip(&explicit[g]).any(|(_, e)| e[..n].iter().any(|x| x.is_none()) && e[..n].iter().any(|x| x.is_some()));
            if active > 0 && inferred_active {
                nontrivial = true;
                cnt.add("draw|glyph-draws-with-inferred-deltas");
            }
            // phantom points: Gvar::phantom_point_deltas (16.16, no final rounding, never inferred)
            let ph = gvar_t.phantom_point_deltas(&glyf_t, &loca_t, &coords, GlyphId::new(g as u32)).map_err(|e| fail("phantom-error", format!("phantom_point_deltas(glyph {g}) at {loc:?}: {e}")))?;
            if let Some(ph) = ph {
                for i in 0..4 {
                    let r = &refp[n + i];
                    for (ax, got) in [ph[i].x, ph[i].y].iter().enumerate() {
                        let v = (got.to_bits() as i128) << 24;
                        let base = (if ax == 0 { gm.coords[n + i].0 } else { gm.coords[n + i].1 } as i128) << 40;
                        if v < r.lo[ax] - base - r.err[ax] || v > r.hi[ax] - base + r.err[ax] {
                            return Err(fail(
                                "phantom-delta",
                                format!("glyph {g} phantom point {i} {} at {loc:?}: phantom_point_deltas gives {}, reference {:.6} (allowance {:.6}); regions {:?}", ["x", "y"][ax], got.to_f64(),
                                    (r.lo[ax] - base) as f64 / (1u64 << 40) as f64, r.err[ax] as f64 / (1u64 << 40) as f64, c.regions),
                            ));
                        }
                    }
                }
            } else if !gm.tuples.is_empty() {
                return Err(fail("phantom-missing", format!("phantom_point_deltas(glyph {g}) is None for a glyph with {} tuples", gm.tuples.len())));
            }
            if n == 0 {
                continue;
            }
            let og = outlines.get(GlyphId::new(g as u32)).ok_or_else(|| fail("harness", format!("no outline for glyph {g}")))?;
            for (style, name) in [(PathStyle::FreeType, "FreeType"), (PathStyle::HarfBuzz, "HarfBuzz")] {
                let mut pen: Vec<PathElement> = vec![];
                let metrics = og
                    .draw(DrawSettings::unhinted(Size::unscaled(), LocationRef::new(&coords)).with_path_style(style), &mut pen)
                    .map_err(|e| fail("draw-error", format!("glyph {g} at {loc:?} ({name} style): {e}")))?;
                let got = path_points(&pen).map_err(|e| fail("draw-structure", format!("glyph {g} at {loc:?} ({name} style): {e}")))?;
                let want_lens: Vec<usize> = c.glyphs[g].outline.contours.iter().map(|c| c.len()).collect();
                if got.iter().map(|c| c.len()).collect::<Vec<_>>() != want_lens {
                    return Err(fail("draw-structure", format!("glyph {g} at {loc:?} ({name} style): contour lengths {:?}, expected {want_lens:?}", got.iter().map(|c| c.len()).collect::<Vec<_>>())));
                }
                // Final step of the scaler. FreeType style: the summed 16.16 delta of a point is rounded to an integer
                // (<= 1/2, nothing when the sum is an exact integer). HarfBuzz style: f32 accumulation without rounding;
                // every f32 operation on magnitudes < 2^15 is off by <= 2^-10, at most 8 per active tuple plus 2.
                // FreeType style then translates the outline by the varied first phantom point (side-bearing point, at x = 0
                // in the default instance of these fonts: lsb = xMin), a quantity computed and rounded the same way;
                // HarfBuzz style does not use the phantom points (neither for the outline nor for the adjusted metrics).
                let fin = |q: &Quant| match style {
                    PathStyle::FreeType => if q.lo == q.hi && q.err == 0 && q.lo & ((1i128 << 40) - 1) == 0 { 0 } else { U_HALF },
                    _ => (8 * active as i128 + 2) * U_2_10,
                };
                let quant = |r: &RefPoint, ax: usize, base: i128| Quant { lo: r.lo[ax] - base, hi: r.hi[ax] - base, err: r.err[ax] };
                let pp1 = quant(&refp[n], 0, (gm.coords[n].0 as i128) << 40);
                let pp2 = quant(&refp[n + 1], 0, (gm.coords[n + 1].0 as i128) << 40);
                let ft = matches!(style, PathStyle::FreeType);
                let unit = (1u64 << 40) as f64;
                for (i, p) in got.iter().flatten().enumerate() {
                    for (ax, v) in [p.0, p.1].iter().enumerate() {
                        let q = quant(&refp[i], ax, 0);
                        // x: position minus side-bearing point
                        let (lo, hi, allow) = if ax == 0 && ft { (q.lo - pp1.hi, q.hi - pp1.lo, q.err + fin(&q) + pp1.err + fin(&pp1)) } else { (q.lo, q.hi, q.err + fin(&q)) };
                        let u = f32_units(*v);
                        if u + 1 < lo - allow || u > hi + allow {
                            let tuples: Vec<String> = gm
                                .tuples
                                .iter()
                                .zip(&infs[g])
                                .map(|(t, inf)| {
                                    let a = if ax == 0 { inf[i].x } else { inf[i].y };
                                    format!("tents {:?} delta {}/{}{}", t.tents, a.v.n, a.v.d, if inf[i].explicit { "" } else { " (inferred)" })
                                })
                                .collect();
                            return Err(fail(
                                &format!("draw-position-{}", name.to_lowercase()),
                                format!("glyph {g} point {i} {} at {loc:?} ({name} style): drawn {v}, reference {:.6} (default {:?}, side-bearing point moves by {:.6} (FreeType style only), allowance {:.6}, {active} active tuples); {}", ["x", "y"][ax],
                                    lo as f64 / unit, gm.coords[i], pp1.lo as f64 / unit, allow as f64 / unit, tuples.join("; ")),
                            ));
                        }
                    }
                }
                // adjusted metrics: lsb = varied side-bearing point, advance = distance of the two horizontal phantom points (500 by default)
                let adv = Quant { lo: (500i128 << 40) + pp2.lo - pp1.hi, hi: (500i128 << 40) + pp2.hi - pp1.lo, err: pp1.err + pp2.err };
                for (what, got, q, allow) in [("lsb", metrics.lsb, &pp1, pp1.err + fin(&pp1)), ("advance_width", metrics.advance_width, &adv, adv.err + fin(&pp1) + fin(&pp2))] {
                    let (Some(v), true) = (got, ft) else { continue };
                    let u = f32_units(v);
                    if u + 1 < q.lo - allow || u > q.hi + allow {
                        return Err(fail(
                            &format!("draw-metrics-{}", name.to_lowercase()),
                            format!("glyph {g} at {loc:?} ({name} style): adjusted {what} {v}, reference {:.6} (allowance {:.6}); phantom deltas {:?}, regions {:?}", q.lo as f64 / unit, allow as f64 / unit,
                                gm.tuples.iter().map(|t| (t.deltas[n], t.deltas[n + 1])).collect::<Vec<_>>(), gm.tuples.iter().map(|t| t.tents.clone()).collect::<Vec<_>>()),
                        ));
                    }
                }
                stats.evals(1);
            }
        }
        let on_peak = loc.iter().zip(spec).any(|(v, s)| *v != 0 && (1..=3).contains(&s.0));
        cnt.add(if loc.iter().all(|v| *v == 0) { "draw|location=default" } else if on_peak { "draw|location=on-region-boundary-or-peak" } else { "draw|location=other" });
    }
    cnt.flush(stats);
    if nontrivial || boundary_hit(&cnt) {
        stats.nontrivial(hash_json(c));
        if nontrivial && sample_slot(&DRAW_SAMPLES, 3, stats) {
            stats.sample(json!({"stage": "draw", "axes": naxes, "regions": c.regions, "locations": c.locs.iter().map(|l| resolve_loc(l, &c.regions)).collect::<Vec<_>>(),
                "glyph_points": model.iter().map(|g| g.coords.len() - 4).collect::<Vec<_>>(), "tuples_per_glyph": model.iter().map(|g| g.tuples.len()).collect::<Vec<_>>()}));
        }
    }
    Ok(())
}

fn main() {
    let ctx = Ctx::from_args("C10");
    ctx.set_rule(
        "iup-exhaustive: every contour of the finite spaces listed under `exhaustive_stages` (one engine case = one block of the enumeration; evaluations count single contours) x tolerance {0, 1/2, 1}. \
         iup-random: proptest outlines of 1..6 contours x 1..60 points + 4 phantom points (steps biased to 0 / +-3 / +-60 / +-1500, so ties and collinear runs are common), deltas linear-in-coordinate / constant / zero / random with sparse noise, tolerance {0, 1/4, 1/2, 3/4, 1, 4}. \
         gvar-table / gvar-offsets / draw: 1..4 axes, pool of 1..12 regions (peak-only and intermediate tents; peaks +-1, +-0.5, +-1 bit, random), 1..12 glyphs of 0..900 points (bulk: 1500..6000), 0..6 tuples each; optional flags from iup_delta_optimize, or required sets by recipe (runs of 1..200 required points with gaps 1..600 incl. 127/128/129/255/256/257, zero/byte/word deltas) with optional deltas = rounded exact inference, or a copy of the previous tuple's point set; draw adds 3..6 normalized locations per case (region starts, peaks, ends, midpoints, +-1 bit, default, random). \
         gvar-many-peaks: 2..3 axes, up to ~5000 glyphs of 0..4 points with 2..4 tuples each, peaks from a pool of distinct regions: 20..5000 (mostly 4094/4095/4096/4097/4100) used two or three times + 0..30 used once, every n-th tuple with an intermediate region / iup flags; whole table checked (non-trivial: >= 4095 shareable peaks). \
         Non-trivial: iup stages: at least one real (non-phantom) delta was marked optional (exhaustive: a block containing such a contour); table/offsets stages: a tuple has optional deltas, or a delta run >= 63 / point count 127..129 / point gap >= 127 was written, or (offsets) the data size is within 8 bytes of 131070; draw: a glyph was drawn at a location where a tuple with inferred deltas is active. Distinct by hash of the generated case.",
    );
    ctx.assume("the oracle is this file's transcription of the OpenType rules in exact integer/rational arithmetic (i128): inference of un-referenced point deltas, tuple scalars, packed point numbers / packed deltas / TupleVariationHeader / gvar header decoding; read-fonts is compared against that decoder, not trusted");
    ctx.assume("tolerance comparisons allow a relative slack of 1e-9 on the squared distance for the optimiser's f64 evaluation of the same inequality");
    ctx.assume("draw bound per coordinate, derived from the 16.16 widths, not tuned: final rounding (FreeType style: 1/2 per rounded quantity, 0 when the exact value is an integer; HarfBuzz style: (8*active_tuples+2)*2^-10 of f32 noise) + sum over active tuples of (max |reference delta| * (number of axis factors of the scalar) + distance to the lower interpolation reference) * 2^-17; FreeType style x coordinates are relative to the varied side-bearing phantom point");
    ctx.assume("tents are valid by construction (start <= peak <= end, not straddling zero, at least one non-zero peak per region); coordinates |c| <= 4000 and |delta| <= 2000 per tuple in the draw stage so that no 16.16 intermediate overflows");
    let thorough = !ctx.quick();
    let layout = ex_layout(thorough);
    let nblocks: u64 = layout.iter().map(|l| l.3).sum();
    ctx.note(
        "exhaustive_stages",
        json!({"iup-exhaustive": {"complete": true, "blocks": nblocks, "tolerances": [0.0, 0.5, 1.0], "phantom_deltas": EX_PHANTOM_DELTAS,
            "spaces": ex_spaces().iter().map(|s| json!({"alphabet": s.name, "contour_lengths": format!("1..={}", if thorough { s.n_thorough } else { s.n_quick })})).collect::<Vec<_>>()}}),
    );
    // development aid only (never set by registered commands): C10_ONLY=stage[,stage] runs a subset of the stages
    let only = std::env::var("C10_ONLY").ok();
    let on = |s: &str| only.as_ref().map(|o| o.split(',').any(|x| x == s)).unwrap_or(true);
    if on("iup-exhaustive") {
        ctx.index_stage("iup-exhaustive", Isolation::Threads, nblocks, |i| ex_block(&layout, i), test_ex_block);
    }
    if on("iup-random") {
        ctx.prop_stage("iup-random", Isolation::Threads, ctx.n(50_000, 400_000), iup_strategy, test_iup);
    }
    if on("gvar-offsets") {
        ctx.prop_stage("gvar-offsets", Isolation::Threads, ctx.n(160, 1_000), offsets_strategy, test_offsets);
    }
    if on("gvar-many-peaks") {
        ctx.prop_stage("gvar-many-peaks", Isolation::Threads, ctx.n(96, 960), many_strategy, test_many);
    }
    if on("draw") {
        ctx.prop_stage("draw", Isolation::Threads, ctx.n(14_000, 100_000), || gvar_strategy(DRAW_PARAMS), test_draw);
    }
    if on("draw-no-required") {
        ctx.prop_stage("draw-no-required", Isolation::Threads, ctx.n(300, 3_000), draw_zero_strategy, test_draw_zero);
    }
    if on("gvar-table") {
        ctx.prop_stage("gvar-table", Isolation::Threads, ctx.n(10_000, 40_000), || gvar_strategy(TABLE_PARAMS), test_table);
    }
    ctx.finish();
}
