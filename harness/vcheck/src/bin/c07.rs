//! C07 — compilation is deterministic across threads, runs and unrelated prior work.
//!
//! A *recipe* (the replay format) describes an input value; `compile(recipe)` rebuilds the value from scratch and
//! compiles it (dump_table / builders / FontBuilder::build / klippa::subset_font / pack_mock_graph). The oracle is byte
//! equality of every recomputation of one recipe with its reference:
//!  * stage `schedule`: reference; recompute (which also counts the object ids the compilation allocates, through a
//!    queue of zero gaps); recompute after a generated list of unrelated compilations; recompute under generated id-gap
//!    sequences pushed through the `write_fonts::verif::push_id_gaps` hook (the harness owns the schedule of the
//!    process-wide object counter: an arbitrary gap sequence is the observable effect of an arbitrary interleaving);
//!  * stage `threads`: N real threads compile a generated mix of the same and of different recipes concurrently
//!    (barrier start, several rounds), each result compared with the single-threaded reference;
//!  * stage `processes`: the binary re-executes itself (`--digest-child`, recipes on stdin, digests on stdout) in >= 8
//!    fresh processes per case (own hash seeds, own counter, rotated order of work) and compares the digests.
//! All stage shards themselves run concurrently on the engine's threads, so every reference is already computed
//! while other threads allocate object ids.
#![allow(dead_code)]
use proptest::prelude::*;
use read_fonts::types::{F2Dot14, FWord, Fixed, GlyphId, GlyphId16, NameId, Tag, UfWord, Uint24};
use read_fonts::{collections::IntSet, FontData, FontRead, FontRef, TableProvider};
use serde::{Deserialize, Serialize};
use serde_json::json;
use std::collections::{BTreeMap, BTreeSet};
use std::sync::atomic::{AtomicU64, Ordering};
use std::sync::OnceLock;
use vcore::*;
use write_fonts::from_obj::ToOwnedTable;
use write_fonts::tables as wt;
use write_fonts::tables::variations::ivs_builder::{RemapVariationIndices, VariationStoreBuilder};
use write_fonts::validate::{Validate, ValidationCtx};
use write_fonts::verif::{pack_mock_graph, pending_id_gaps, push_id_gaps, MockLink, MockNode};
use write_fonts::{dump_table, FontBuilder, FontWrite, NullableOffsetMarker, OffsetMarker, TableWriter};

// =================================================================================================
// tape-driven table builders (ported from the C04 check: a tape of u32 words drives one builder per table kind;
// count fields are derived from the arrays). `Tape::big` asks for many lookups per GSUB/GPOS.
struct Tape<'a> {
    w: &'a [u32],
    i: usize,
    /// variant label of what was built (class counter)
    label: String,
    /// a version/format discriminant other than the type's default was chosen
    nondefault: bool,
    /// C07: more lookups per GSUB/GPOS (many sub-objects, many equal-sized siblings)
    big: bool,
}

const STD_TAGS: &[&[u8; 4]] = &[b"wght", b"wdth", b"ital", b"opsz", b"slnt", b"DFLT", b"latn", b"kern", b"liga", b"hasc", b"xhgt", b"ab  ", b"Z~!#"];

impl<'a> Tape<'a> {
    fn new(w: &'a [u32]) -> Self {
        Tape { w, i: 0, label: String::new(), nondefault: false, big: false }
    }
    fn nlookups(&mut self) -> usize {
        if self.big {
            3 + self.len(14)
        } else {
            self.len(3)
        }
    }
    fn raw(&mut self) -> u32 {
        let v = self.w.get(self.i).copied().unwrap_or(0);
        self.i += 1;
        v
    }
    /// uniform in 0..n (monotone in the tape word: shrinks towards 0)
    fn below(&mut self, n: u32) -> u32 {
        ((self.raw() as u64 * n as u64) >> 32) as u32
    }
    fn bool(&mut self) -> bool {
        self.raw() >= 0x8000_0000
    }
    /// true with probability num/den (false when the tape word shrinks to 0)
    fn chance(&mut self, num: u32, den: u32) -> bool {
        self.below(den) >= den - num
    }
    /// boundary-biased 16-bit scalar
    fn u16(&mut self) -> u16 {
        let r = self.raw();
        match r >> 29 {
            0 => (r & 7) as u16,
            1 => 0xFFFF - (r & 3) as u16,
            2 => 0x7FFF + (r & 1) as u16,
            3 => 0x00FF + (r & 1) as u16,
            _ => r as u16,
        }
    }
    fn i16(&mut self) -> i16 {
        self.u16() as i16
    }
    fn u8(&mut self) -> u8 {
        let r = self.raw();
        match r >> 30 {
            0 => (r & 3) as u8,
            1 => 0xFF - (r & 1) as u8,
            _ => r as u8,
        }
    }
    fn u32(&mut self) -> u32 {
        let r = self.raw();
        match r >> 29 {
            0 => r & 7,
            1 => 0xFFFF_FFFF - (r & 3),
            2 => 0x7FFF_FFFF + (r & 1),
            3 => 0xFFFF + (r & 1),
            _ => r.wrapping_mul(0x9E37_79B9),
        }
    }
    fn u24(&mut self) -> Uint24 {
        Uint24::new(self.u32() & 0xFF_FFFF)
    }
    /// array length in 0..=max: 1/8 empty, 1/8 one, 1/4 2..=4, 1/2 uniform
    fn len(&mut self, max: usize) -> usize {
        let r = self.raw();
        let rest = (r & 0x1FFF_FFFF) as u64;
        let n = match r >> 29 {
            0 => 0,
            1 => 1,
            2 | 3 => 2 + (rest * 3 >> 29) as usize,
            _ => (rest * (max as u64 + 1) >> 29) as usize,
        };
        n.min(max)
    }
    /// like `len`, but one case in 24 is large (up to `big`)
    fn len_big(&mut self, max: usize, big: usize) -> usize {
        if self.chance(1, 24) {
            let r = self.raw() as u64;
            max + ((r * (big - max) as u64) >> 32) as usize
        } else {
            self.len(max)
        }
    }
    fn tag(&mut self) -> Tag {
        let r = self.raw();
        if r >> 31 == 0 {
            Tag::new(STD_TAGS[((r as u64 & 0x7FFF_FFFF) * STD_TAGS.len() as u64 >> 31) as usize])
        } else {
            let b = r.to_be_bytes();
            let m = |x: u8| if x >= 0x80 { b'a' + x % 26 } else { b'A' + x % 26 };
            Tag::new(&[m(b[0]), m(b[1]), m(b[2]), m(b[3])])
        }
    }
    fn fixed(&mut self) -> Fixed {
        Fixed::from_bits(self.u32() as i32)
    }
    fn f2(&mut self) -> F2Dot14 {
        F2Dot14::from_bits(self.i16())
    }
    fn fword(&mut self) -> FWord {
        FWord::new(self.i16())
    }
    fn ufword(&mut self) -> UfWord {
        UfWord::new(self.u16())
    }
    fn name_id(&mut self) -> NameId {
        NameId::new(self.u16())
    }
    fn gid(&mut self) -> GlyphId16 {
        GlyphId16::new(self.u16())
    }
    fn bytes(&mut self, n: usize) -> Vec<u8> {
        (0..n).map(|_| self.u8()).collect()
    }
    /// strictly increasing glyph ids (at most n; fewer if 0xFFFF is reached)
    fn glyph_set(&mut self, n: usize) -> Vec<GlyphId16> {
        let mut out = Vec::with_capacity(n);
        let mut cur: u32 = if self.chance(1, 8) { 0xFFFF - n.min(0xFFFF) as u32 } else { self.below(300) };
        let dense = self.bool();
        for _ in 0..n {
            if cur > 0xFFFF {
                break;
            }
            out.push(GlyphId16::new(cur as u16));
            cur += if dense { 1 } else { 1 + self.below(5) * self.below(40) };
        }
        out
    }
    /// label + mark as carrying a non-default version/format discriminant
    fn lab_nd(&mut self, s: &str) {
        self.nondefault = true;
        self.lab(s);
    }
    fn lab(&mut self, s: &str) {
        if !self.label.is_empty() {
            self.label.push('+');
        }
        self.label.push_str(s);
    }
}

fn nullable<T, const N: usize>(v: Option<T>) -> NullableOffsetMarker<T, N> {
    NullableOffsetMarker::new(v)
}

fn b_dsim(t: &mut Tape) -> wt::variations::DeltaSetIndexMap {
    use wt::variations::*;
    let bits = (t.below(16) | (t.below(4) << 4)) as u8;
    let ef = EntryFormat::from_bits_truncate(bits);
    let entry_size = ((bits >> 4) & 3) as usize + 1;
    let n = t.len_big(12, 400);
    let data = t.bytes(n * entry_size);
    if t.bool() {
        t.lab_nd("dsim1");
        DeltaSetIndexMap::Format1(DeltaSetIndexMapFormat1 { entry_format: ef, map_count: n as u32, map_data: data })
    } else {
        t.lab("dsim0");
        DeltaSetIndexMap::Format0(DeltaSetIndexMapFormat0 { entry_format: ef, map_count: n as u16, map_data: data })
    }
}

fn b_ivs(t: &mut Tape) -> wt::variations::ItemVariationStore {
    b_ivs_with(t, false)
}

fn b_ivs_with(t: &mut Tape, zero_axes: bool) -> wt::variations::ItemVariationStore {
    use wt::variations::*;
    let nregions = t.len(5);
    // a region without axes is a zero-sized record (listed finding `zero-sized-records`): excluded here
    let axis_count = if zero_axes { 0 } else if nregions > 0 { 1 + t.len(3) } else { t.len(4) };
    let regions: Vec<VariationRegion> = (0..nregions)
        .map(|_| VariationRegion { region_axes: (0..axis_count).map(|_| RegionAxisCoordinates { start_coord: t.f2(), peak_coord: t.f2(), end_coord: t.f2() }).collect() })
        .collect();
    let ndata = t.len(4);
    let mut long = false;
    let mut null = false;
    let data: Vec<NullableOffsetMarker<ItemVariationData, 4>> = (0..ndata)
        .map(|_| {
            if t.chance(1, 6) {
                null = true;
                return nullable(None);
            }
            let m = t.len(nregions);
            let region_indexes: Vec<u16> = (0..m).map(|_| t.below(nregions.max(1) as u32) as u16).collect();
            let words = t.len(m);
            let is_long = t.chance(1, 3);
            long |= is_long;
            let (ws, ss) = if is_long { (4, 2) } else { (2, 1) };
            let row = words * ws + (m - words) * ss;
            let items = t.len_big(5, 200);
            nullable(Some(ItemVariationData { item_count: items as u16, word_delta_count: words as u16 | if is_long { 0x8000 } else { 0 }, region_indexes, delta_sets: t.bytes(items * row) }))
        })
        .collect();
    let _ = null;
    if long {
        t.lab_nd("ivs-long");
    } else {
        t.lab("ivs");
    }
    ItemVariationStore { variation_region_list: OffsetMarker::new(VariationRegionList { axis_count: axis_count as u16, variation_regions: regions }), item_variation_data: data }
}

fn b_stat(t: &mut Tape) -> wt::stat::Stat {
    use wt::stat::*;
    let na = t.len(4);
    let axes: Vec<AxisRecord> = (0..na).map(|_| AxisRecord { axis_tag: t.tag(), axis_name_id: t.name_id(), axis_ordering: t.u16() }).collect();
    let values = if t.chance(1, 5) {
        t.lab("no-values");
        None
    } else {
        let nv = t.len(5);
        let mut fm = 0u32;
        t.lab("values");
        let v: Vec<OffsetMarker<AxisValue>> = (0..nv)
            .map(|_| {
                let flags = AxisValueTableFlags::from_bits_truncate(t.u16());
                let f = t.below(4);
                fm |= 1 << f;
                let av = match f {
                    0 => AxisValue::Format1(AxisValueFormat1 { axis_index: t.u16(), flags, value_name_id: t.name_id(), value: t.fixed() }),
                    1 => AxisValue::Format2(AxisValueFormat2 { axis_index: t.u16(), flags, value_name_id: t.name_id(), nominal_value: t.fixed(), range_min_value: t.fixed(), range_max_value: t.fixed() }),
                    2 => AxisValue::Format3(AxisValueFormat3 { axis_index: t.u16(), flags, value_name_id: t.name_id(), value: t.fixed(), linked_value: t.fixed() }),
                    _ => AxisValue::Format4(AxisValueFormat4 { flags, value_name_id: t.name_id(), axis_values: (0..t.len(4)).map(|_| AxisValueRecord { axis_index: t.u16(), value: t.fixed() }).collect() }),
                };
                OffsetMarker::new(av)
            })
            .collect();
        for f in 0..4 {
            if fm & (1 << f) != 0 {
                t.lab(["value-f1", "value-f2", "value-f3", "value-f4"][f]);
            }
        }
        Some(v)
    };
    Stat { design_axes: OffsetMarker::new(axes), offset_to_axis_values: nullable(values), elided_fallback_name_id: Some(t.name_id()) }
}

const MAC_CHARS: &[char] = &['A', 'z', ' ', '0', '~', 'Ä', 'Å', 'Ç', 'É', 'Ñ', 'Ö', 'Ü', 'á', 'à', 'ë'];

const UNI_CHARS: &[char] = &['A', 'b', ' ', '-', '9', 'é', 'ß', 'Ω', 'я', '中', '\u{FFFD}', '\u{1F600}', '\u{10FFFF}', '\u{0}', '"', '\\', '}'];

fn b_string(t: &mut Tape, alphabet: &[char], max: usize) -> String {
    let n = t.len(max);
    (0..n).map(|_| alphabet[t.below(alphabet.len() as u32) as usize]).collect()
}

fn b_name(t: &mut Tape) -> wt::name::Name {
    use wt::name::*;
    let n = t.len_big(6, 120);
    let mut recs: Vec<NameRecord> = (0..n)
        .map(|_| {
            let (p, e) = match t.below(5) {
                0 => (0u16, t.below(7) as u16),
                1 => (1, 0),
                2 => (3, 0),
                3 => (3, 1),
                _ => (3, 10),
            };
            let s = if p == 1 { b_string(t, MAC_CHARS, 12) } else { b_string(t, UNI_CHARS, 12) };
            let lang = if t.bool() { 0x409 } else { t.u16() };
            NameRecord { platform_id: p, encoding_id: e, language_id: lang, name_id: NameId::new(t.below(30) as u16), string: OffsetMarker::new(s) }
        })
        .collect();
    recs.sort();
    recs.dedup_by(|a, b| (a.platform_id, a.encoding_id, a.language_id, a.name_id) == (b.platform_id, b.encoding_id, b.language_id, b.name_id));
    let lang = if t.chance(1, 3) {
        t.lab_nd("v1");
        Some((0..t.len(3)).map(|_| LangTagRecord { lang_tag: OffsetMarker::new(b_string(t, &['e', 'n', '-', 'U', 'S', 'ö'], 8)) }).collect())
    } else {
        t.lab("v0");
        None
    };
    Name { name_record: recs, lang_tag_record: lang }
}

/// a coverage table over exactly `glyphs` (sorted, unique), either format
fn b_cov_of(t: &mut Tape, glyphs: &[GlyphId16]) -> wt::layout::CoverageTable {
    use wt::layout::*;
    if t.bool() {
        CoverageTable::Format1(CoverageFormat1 { glyph_array: glyphs.to_vec() })
    } else {
        let mut recs: Vec<RangeRecord> = vec![];
        for (i, g) in glyphs.iter().enumerate() {
            match recs.last_mut() {
                Some(r) if r.end_glyph_id.to_u16() as u32 + 1 == g.to_u16() as u32 => r.end_glyph_id = *g,
                _ => recs.push(RangeRecord { start_glyph_id: *g, end_glyph_id: *g, start_coverage_index: i as u16 }),
            }
        }
        CoverageTable::Format2(CoverageFormat2 { range_records: recs })
    }
}

fn b_cov(t: &mut Tape, max: usize) -> (wt::layout::CoverageTable, usize) {
    let n = t.len(max);
    let g = t.glyph_set(n);
    (b_cov_of(t, &g), g.len())
}

/// class definition using exactly the classes 1..=k (each at least once when k <= number of glyphs); returns class count (k+1)
fn b_classdef(t: &mut Tape, k: usize) -> (wt::layout::ClassDef, u16) {
    use wt::layout::*;
    if t.bool() {
        let n = k + t.len(6);
        let start = t.below(0xFFFF - n as u32) as u16;
        let vals: Vec<u16> = (0..n).map(|i| if i < k { (i + 1) as u16 } else { t.below(k as u32 + 1) as u16 }).collect();
        let count = if k == 0 { 1 } else { k as u16 + 1 };
        (ClassDef::Format1(ClassDefFormat1 { start_glyph_id: GlyphId16::new(start), class_value_array: vals }), count)
    } else {
        let mut cur = t.below(200);
        let n = k + t.len(3);
        let mut recs = vec![];
        for i in 0..n {
            let len = t.below(4);
            let cls = if i < k { (i + 1) as u16 } else { 1 + t.below(k.max(1) as u32) as u16 };
            recs.push(ClassRangeRecord { start_glyph_id: GlyphId16::new(cur as u16), end_glyph_id: GlyphId16::new((cur + len) as u16), class: if k == 0 { 0 } else { cls } });
            cur += len + 1 + t.below(10);
        }
        (ClassDef::Format2(ClassDefFormat2 { class_range_records: recs }), k as u16 + 1)
    }
}

fn b_device(t: &mut Tape) -> wt::layout::Device {
    use wt::layout::*;
    let start = t.u16().min(0xFF00);
    let n = 1 + t.len(20);
    let (fmt, per) = match t.below(3) {
        0 => (DeltaFormat::Local2BitDeltas, 8),
        1 => (DeltaFormat::Local4BitDeltas, 4),
        _ => (DeltaFormat::Local8BitDeltas, 2),
    };
    Device { start_size: start, end_size: start + n as u16 - 1, delta_format: fmt, delta_value: (0..n.div_ceil(per)).map(|_| t.u16()).collect() }
}

fn b_dev_or_var(t: &mut Tape) -> wt::layout::DeviceOrVariationIndex {
    use wt::layout::*;
    if t.bool() {
        DeviceOrVariationIndex::Device(b_device(t))
    } else {
        DeviceOrVariationIndex::VariationIndex(VariationIndex { delta_set_outer_index: t.u16(), delta_set_inner_index: t.u16() })
    }
}

fn b_lookup_flag(t: &mut Tape) -> (wt::layout::LookupFlag, Option<u16>) {
    use wt::layout::LookupFlag;
    let mut bits = t.u16() & 0xFF0F; // defined bits: low nibble + mark attachment class
    let mfs = if t.chance(1, 3) {
        bits |= 0x10;
        Some(t.u16())
    } else {
        None
    };
    (LookupFlag::from_bits_truncate(bits), mfs)
}

fn b_lookup<T>(t: &mut Tape, mut sub: impl FnMut(&mut Tape) -> T) -> wt::layout::Lookup<T> {
    let (lookup_flag, mark_filtering_set) = b_lookup_flag(t);
    let n = 1 + t.len(2);
    wt::layout::Lookup { lookup_flag, subtables: (0..n).map(|_| OffsetMarker::new(sub(t))).collect(), mark_filtering_set }
}

fn b_seq_records(t: &mut Tape) -> Vec<wt::layout::SequenceLookupRecord> {
    (0..t.len(3)).map(|_| wt::layout::SequenceLookupRecord { sequence_index: t.u16(), lookup_list_index: t.u16() }).collect()
}

fn b_gids(t: &mut Tape, max: usize) -> Vec<GlyphId16> {
    (0..t.len(max)).map(|_| t.gid()).collect()
}

fn b_u16s(t: &mut Tape, max: usize) -> Vec<u16> {
    (0..t.len(max)).map(|_| t.u16()).collect()
}

fn b_covs(t: &mut Tape, max: usize) -> Vec<OffsetMarker<wt::layout::CoverageTable>> {
    (0..t.len(max)).map(|_| OffsetMarker::new(b_cov(t, 5).0)).collect()
}

fn b_seq_context(t: &mut Tape) -> wt::layout::SequenceContext {
    use wt::layout::*;
    match t.below(3) {
        0 => {
            t.lab("ctx1");
            let (cov, n) = b_cov(t, 4);
            let sets = (0..n)
                .map(|_| {
                    if t.chance(1, 4) {
                        return nullable(None);
                    }
                    nullable(Some(SequenceRuleSet { seq_rules: (0..t.len(3)).map(|_| OffsetMarker::new(SequenceRule { input_sequence: b_gids(t, 3), seq_lookup_records: b_seq_records(t) })).collect() }))
                })
                .collect();
            SequenceContext::Format1(SequenceContextFormat1 { coverage: OffsetMarker::new(cov), seq_rule_sets: sets })
        }
        1 => {
            t.lab("ctx2");
            let (cov, _) = b_cov(t, 4);
            let k = t.len(3);
            let (cd, count) = b_classdef(t, k);
            let sets = (0..count)
                .map(|_| {
                    if t.chance(1, 4) {
                        return nullable(None);
                    }
                    nullable(Some(ClassSequenceRuleSet {
                        class_seq_rules: (0..t.len(3)).map(|_| OffsetMarker::new(ClassSequenceRule { input_sequence: b_u16s(t, 3), seq_lookup_records: b_seq_records(t) })).collect(),
                    }))
                })
                .collect();
            SequenceContext::Format2(SequenceContextFormat2 { coverage: OffsetMarker::new(cov), class_def: OffsetMarker::new(cd), class_seq_rule_sets: sets })
        }
        _ => {
            t.lab("ctx3");
            let mut covs = b_covs(t, 3);
            if covs.is_empty() {
                covs.push(OffsetMarker::new(b_cov(t, 3).0));
            }
            SequenceContext::Format3(SequenceContextFormat3 { coverages: covs, seq_lookup_records: b_seq_records(t) })
        }
    }
}

fn b_chain_context(t: &mut Tape) -> wt::layout::ChainedSequenceContext {
    use wt::layout::*;
    match t.below(3) {
        0 => {
            t.lab("chain1");
            let (cov, n) = b_cov(t, 4);
            let sets = (0..n)
                .map(|_| {
                    if t.chance(1, 4) {
                        return nullable(None);
                    }
                    nullable(Some(ChainedSequenceRuleSet {
                        chained_seq_rules: (0..t.len(3))
                            .map(|_| OffsetMarker::new(ChainedSequenceRule { backtrack_sequence: b_gids(t, 3), input_sequence: b_gids(t, 3), lookahead_sequence: b_gids(t, 3), seq_lookup_records: b_seq_records(t) }))
                            .collect(),
                    }))
                })
                .collect();
            ChainedSequenceContext::Format1(ChainedSequenceContextFormat1 { coverage: OffsetMarker::new(cov), chained_seq_rule_sets: sets })
        }
        1 => {
            t.lab("chain2");
            let (cov, _) = b_cov(t, 4);
            let (b, _) = { let k = t.len(2); b_classdef(t, k) };
            let (i, count) = { let k = t.len(3); b_classdef(t, k) };
            let (l, _) = { let k = t.len(2); b_classdef(t, k) };
            let sets = (0..count)
                .map(|_| {
                    if t.chance(1, 4) {
                        return nullable(None);
                    }
                    nullable(Some(ChainedClassSequenceRuleSet {
                        chained_class_seq_rules: (0..t.len(3))
                            .map(|_| OffsetMarker::new(ChainedClassSequenceRule { backtrack_sequence: b_u16s(t, 3), input_sequence: b_u16s(t, 3), lookahead_sequence: b_u16s(t, 3), seq_lookup_records: b_seq_records(t) }))
                            .collect(),
                    }))
                })
                .collect();
            ChainedSequenceContext::Format2(ChainedSequenceContextFormat2 {
                coverage: OffsetMarker::new(cov),
                backtrack_class_def: OffsetMarker::new(b),
                input_class_def: OffsetMarker::new(i),
                lookahead_class_def: OffsetMarker::new(l),
                chained_class_seq_rule_sets: sets,
            })
        }
        _ => {
            t.lab("chain3");
            let mut input = b_covs(t, 3);
            if input.is_empty() {
                input.push(OffsetMarker::new(b_cov(t, 3).0));
            }
            ChainedSequenceContext::Format3(ChainedSequenceContextFormat3 { backtrack_coverages: b_covs(t, 2), input_coverages: input, lookahead_coverages: b_covs(t, 2), seq_lookup_records: b_seq_records(t) })
        }
    }
}

fn b_gsub_lookup(t: &mut Tape) -> wt::gsub::SubstitutionLookup {
    use wt::gsub::*;
    match t.below(8) {
        0 => SubstitutionLookup::Single(b_lookup(t, |t| {
            let (cov, n) = b_cov(t, 8);
            if t.bool() {
                t.lab("single1");
                SingleSubst::Format1(SingleSubstFormat1 { coverage: OffsetMarker::new(cov), delta_glyph_id: t.i16() })
            } else {
                t.lab("single2");
                SingleSubst::Format2(SingleSubstFormat2 { coverage: OffsetMarker::new(cov), substitute_glyph_ids: (0..n).map(|_| t.gid()).collect() })
            }
        })),
        1 => SubstitutionLookup::Multiple(b_lookup(t, |t| {
            t.lab("multiple");
            let (cov, n) = b_cov(t, 5);
            MultipleSubstFormat1 { coverage: OffsetMarker::new(cov), sequences: (0..n).map(|_| OffsetMarker::new(Sequence { substitute_glyph_ids: b_gids(t, 4) })).collect() }
        })),
        2 => SubstitutionLookup::Alternate(b_lookup(t, |t| {
            t.lab("alternate");
            let (cov, n) = b_cov(t, 5);
            AlternateSubstFormat1 { coverage: OffsetMarker::new(cov), alternate_sets: (0..n).map(|_| OffsetMarker::new(AlternateSet { alternate_glyph_ids: b_gids(t, 4) })).collect() }
        })),
        3 => SubstitutionLookup::Ligature(b_lookup(t, |t| {
            t.lab("ligature");
            let (cov, n) = b_cov(t, 4);
            LigatureSubstFormat1 {
                coverage: OffsetMarker::new(cov),
                ligature_sets: (0..n)
                    .map(|_| OffsetMarker::new(LigatureSet { ligatures: (0..t.len(3)).map(|_| OffsetMarker::new(Ligature { ligature_glyph: t.gid(), component_glyph_ids: b_gids(t, 3) })).collect() }))
                    .collect(),
            }
        })),
        4 => SubstitutionLookup::Contextual(b_lookup(t, |t| b_seq_context(t).into())),
        5 => SubstitutionLookup::ChainContextual(b_lookup(t, |t| b_chain_context(t).into())),
        6 => SubstitutionLookup::Reverse(b_lookup(t, |t| {
            t.lab("reverse");
            let (cov, n) = b_cov(t, 5);
            ReverseChainSingleSubstFormat1 { coverage: OffsetMarker::new(cov), backtrack_coverages: b_covs(t, 2), lookahead_coverages: b_covs(t, 2), substitute_glyph_ids: (0..n).map(|_| t.gid()).collect() }
        })),
        _ => SubstitutionLookup::Extension(b_lookup(t, |t| {
            t.lab("extension");
            let (cov, n) = b_cov(t, 5);
            if t.bool() {
                ExtensionSubtable::Single(ExtensionSubstFormat1 { extension_lookup_type: 1, extension: OffsetMarker::new(SingleSubst::Format2(SingleSubstFormat2 { coverage: OffsetMarker::new(cov), substitute_glyph_ids: (0..n).map(|_| t.gid()).collect() })) })
            } else {
                ExtensionSubtable::Multiple(ExtensionSubstFormat1 {
                    extension_lookup_type: 2,
                    extension: OffsetMarker::new(MultipleSubstFormat1 { coverage: OffsetMarker::new(cov), sequences: (0..n).map(|_| OffsetMarker::new(Sequence { substitute_glyph_ids: b_gids(t, 4) })).collect() }),
                })
            }
        })),
    }
}

fn b_value_record(t: &mut Tape, mask: u16) -> wt::gpos::ValueRecord {
    use read_fonts::tables::gpos::ValueFormat;
    let mut v = wt::gpos::ValueRecord::new().with_explicit_value_format(ValueFormat::from_bits_truncate(mask));
    if mask & 1 != 0 {
        v.x_placement = Some(t.i16());
    }
    if mask & 2 != 0 {
        v.y_placement = Some(t.i16());
    }
    if mask & 4 != 0 {
        v.x_advance = Some(t.i16());
    }
    if mask & 8 != 0 {
        v.y_advance = Some(t.i16());
    }
    if mask & 0x10 != 0 && t.bool() {
        v.x_placement_device = nullable(Some(b_dev_or_var(t)));
    }
    if mask & 0x20 != 0 && t.bool() {
        v.y_placement_device = nullable(Some(b_dev_or_var(t)));
    }
    if mask & 0x40 != 0 && t.bool() {
        v.x_advance_device = nullable(Some(b_dev_or_var(t)));
    }
    if mask & 0x80 != 0 && t.bool() {
        v.y_advance_device = nullable(Some(b_dev_or_var(t)));
    }
    v
}

fn b_value_mask(t: &mut Tape) -> u16 {
    match t.below(4) {
        0 => 0,
        1 => 4,
        2 => (t.below(16)) as u16,
        _ => t.below(256) as u16,
    }
}

fn b_anchor(t: &mut Tape) -> wt::gpos::AnchorTable {
    use wt::gpos::*;
    match t.below(3) {
        0 => AnchorTable::Format1(AnchorFormat1 { x_coordinate: t.i16(), y_coordinate: t.i16() }),
        1 => AnchorTable::Format2(AnchorFormat2 { x_coordinate: t.i16(), y_coordinate: t.i16(), anchor_point: t.u16() }),
        _ => AnchorTable::Format3(AnchorFormat3 {
            x_coordinate: t.i16(),
            y_coordinate: t.i16(),
            x_device: if t.bool() { nullable(Some(b_dev_or_var(t))) } else { nullable(None) },
            y_device: if t.bool() { nullable(Some(b_dev_or_var(t))) } else { nullable(None) },
        }),
    }
}

fn b_opt_anchor(t: &mut Tape) -> NullableOffsetMarker<wt::gpos::AnchorTable> {
    if t.chance(1, 4) {
        nullable(None)
    } else {
        nullable(Some(b_anchor(t)))
    }
}

/// mark coverage + mark array using the classes 0..k (each at least once); returns k
fn b_marks(t: &mut Tape) -> (wt::layout::CoverageTable, wt::gpos::MarkArray, usize) {
    // at least one mark, hence at least one class: records of zero anchors are zero-sized (listed finding)
    let n0 = 1 + t.len(5);
    let g = t.glyph_set(n0);
    let n = g.len();
    let cov = b_cov_of(t, &g);
    let k = 1 + t.below(n.min(3) as u32) as usize;
    let recs = (0..n).map(|i| wt::gpos::MarkRecord { mark_class: if i < k { i as u16 } else { t.below(k as u32) as u16 }, mark_anchor: OffsetMarker::new(b_anchor(t)) }).collect();
    (cov, wt::gpos::MarkArray { mark_records: recs }, k)
}

fn b_gpos_lookup(t: &mut Tape) -> wt::gpos::PositionLookup {
    use wt::gpos::*;
    match t.below(9) {
        0 => PositionLookup::Single(b_lookup(t, |t| {
            let (cov, n) = b_cov(t, 6);
            let mut mask = b_value_mask(t);
            if t.bool() {
                t.lab("single1");
                SinglePos::Format1(SinglePosFormat1 { coverage: OffsetMarker::new(cov), value_record: b_value_record(t, mask) })
            } else {
                t.lab("single2");
                if mask == 0 {
                    mask = 1; // zero-sized value records (listed finding `zero-sized records`)
                }
                SinglePos::Format2(SinglePosFormat2 { coverage: OffsetMarker::new(cov), value_records: (0..n).map(|_| b_value_record(t, mask)).collect() })
            }
        })),
        1 => PositionLookup::Pair(b_lookup(t, |t| {
            let (cov, n) = b_cov(t, 5);
            let (mut m1, m2) = (b_value_mask(t), if t.bool() { 0 } else { b_value_mask(t) });
            if m1 | m2 == 0 {
                m1 = 4; // format 2 with two empty value formats has zero-sized class records (listed finding)
            }
            if t.bool() {
                t.lab("pair1");
                let sets = (0..n)
                    .map(|_| {
                        let k = t.len(4);
                        let seconds = t.glyph_set(k);
                        OffsetMarker::new(PairSet { pair_value_records: seconds.into_iter().map(|g| PairValueRecord { second_glyph: g, value_record1: b_value_record(t, m1), value_record2: b_value_record(t, m2) }).collect() })
                    })
                    .collect();
                PairPos::Format1(PairPosFormat1 { coverage: OffsetMarker::new(cov), pair_sets: sets })
            } else {
                t.lab("pair2");
                let (c1, n1) = { let k = t.len(3); b_classdef(t, k) };
                let (c2, n2) = { let k = t.len(3); b_classdef(t, k) };
                let recs = (0..n1).map(|_| Class1Record { class2_records: (0..n2).map(|_| Class2Record { value_record1: b_value_record(t, m1), value_record2: b_value_record(t, m2) }).collect() }).collect();
                PairPos::Format2(PairPosFormat2 { coverage: OffsetMarker::new(cov), class_def1: OffsetMarker::new(c1), class_def2: OffsetMarker::new(c2), class1_records: recs })
            }
        })),
        2 => PositionLookup::Cursive(b_lookup(t, |t| {
            t.lab("cursive");
            let (cov, n) = b_cov(t, 5);
            CursivePosFormat1 { coverage: OffsetMarker::new(cov), entry_exit_record: (0..n).map(|_| EntryExitRecord { entry_anchor: b_opt_anchor(t), exit_anchor: b_opt_anchor(t) }).collect() }
        })),
        3 => PositionLookup::MarkToBase(b_lookup(t, |t| {
            t.lab("mark-base");
            let (mcov, marks, k) = b_marks(t);
            let (bcov, nb) = b_cov(t, 4);
            MarkBasePosFormat1 {
                mark_coverage: OffsetMarker::new(mcov),
                base_coverage: OffsetMarker::new(bcov),
                mark_array: OffsetMarker::new(marks),
                base_array: OffsetMarker::new(BaseArray { base_records: (0..nb).map(|_| BaseRecord { base_anchors: (0..k).map(|_| b_opt_anchor(t)).collect() }).collect() }),
            }
        })),
        4 => PositionLookup::MarkToLig(b_lookup(t, |t| {
            t.lab("mark-lig");
            let (mcov, marks, k) = b_marks(t);
            let (lcov, nl) = b_cov(t, 3);
            MarkLigPosFormat1 {
                mark_coverage: OffsetMarker::new(mcov),
                ligature_coverage: OffsetMarker::new(lcov),
                mark_array: OffsetMarker::new(marks),
                ligature_array: OffsetMarker::new(LigatureArray {
                    ligature_attaches: (0..nl)
                        .map(|_| OffsetMarker::new(LigatureAttach { component_records: (0..t.len(3)).map(|_| ComponentRecord { ligature_anchors: (0..k).map(|_| b_opt_anchor(t)).collect() }).collect() }))
                        .collect(),
                }),
            }
        })),
        5 => PositionLookup::MarkToMark(b_lookup(t, |t| {
            t.lab("mark-mark");
            let (mcov, marks, k) = b_marks(t);
            let (m2cov, n2) = b_cov(t, 4);
            MarkMarkPosFormat1 {
                mark1_coverage: OffsetMarker::new(mcov),
                mark2_coverage: OffsetMarker::new(m2cov),
                mark1_array: OffsetMarker::new(marks),
                mark2_array: OffsetMarker::new(Mark2Array { mark2_records: (0..n2).map(|_| Mark2Record { mark2_anchors: (0..k).map(|_| b_opt_anchor(t)).collect() }).collect() }),
            }
        })),
        6 => PositionLookup::Contextual(b_lookup(t, |t| b_seq_context(t).into())),
        7 => PositionLookup::ChainContextual(b_lookup(t, |t| b_chain_context(t).into())),
        _ => PositionLookup::Extension(b_lookup(t, |t| {
            t.lab("extension");
            let (cov, n) = b_cov(t, 5);
            let mask = b_value_mask(t).max(1);
            if t.bool() {
                ExtensionSubtable::Single(ExtensionPosFormat1 {
                    extension_lookup_type: 1,
                    extension: OffsetMarker::new(SinglePos::Format2(SinglePosFormat2 { coverage: OffsetMarker::new(cov), value_records: (0..n).map(|_| b_value_record(t, mask)).collect() })),
                })
            } else {
                ExtensionSubtable::Cursive(ExtensionPosFormat1 {
                    extension_lookup_type: 3,
                    extension: OffsetMarker::new(CursivePosFormat1 { coverage: OffsetMarker::new(cov), entry_exit_record: (0..n).map(|_| EntryExitRecord { entry_anchor: b_opt_anchor(t), exit_anchor: b_opt_anchor(t) }).collect() }),
                })
            }
        })),
    }
}

fn b_script_list(t: &mut Tape) -> wt::layout::ScriptList {
    use wt::layout::*;
    let lang_sys = |t: &mut Tape| LangSys { required_feature_index: if t.bool() { 0xFFFF } else { t.u16() }, feature_indices: b_u16s(t, 4) };
    let n = t.len(3);
    let mut recs: Vec<ScriptRecord> = (0..n)
        .map(|_| {
            let mut langs: Vec<LangSysRecord> = (0..t.len(3)).map(|_| LangSysRecord { lang_sys_tag: t.tag(), lang_sys: OffsetMarker::new(lang_sys(t)) }).collect();
            langs.sort_by_key(|l| l.lang_sys_tag);
            ScriptRecord { script_tag: t.tag(), script: OffsetMarker::new(Script { default_lang_sys: if t.bool() { nullable(Some(lang_sys(t))) } else { nullable(None) }, lang_sys_records: langs }) }
        })
        .collect();
    recs.sort_by_key(|r| r.script_tag);
    ScriptList { script_records: recs }
}

fn b_feature(t: &mut Tape, params: bool) -> wt::layout::Feature {
    use wt::layout::*;
    let fp = if params && t.chance(1, 3) {
        Some(match t.below(3) {
            0 => FeatureParams::Size(SizeParams { design_size: t.u16(), identifier: t.u16(), name_entry: t.u16(), range_start: t.u16(), range_end: t.u16() }),
            1 => FeatureParams::StylisticSet(StylisticSetParams { ui_name_id: t.name_id() }),
            _ => FeatureParams::CharacterVariant(CharacterVariantParams {
                feat_ui_label_name_id: t.name_id(),
                feat_ui_tooltip_text_name_id: t.name_id(),
                sample_text_name_id: t.name_id(),
                num_named_parameters: t.u16(),
                first_param_ui_label_name_id: t.name_id(),
                character: (0..t.len(3)).map(|_| t.u24()).collect(),
            }),
        })
    } else {
        None
    };
    Feature { feature_params: nullable(fp), lookup_list_indices: b_u16s(t, 4) }
}

fn b_feature_list(t: &mut Tape) -> wt::layout::FeatureList {
    use wt::layout::*;
    // feature params are interpreted by feature tag: size / ssXX / cvXX
    let n = t.len(4);
    let mut recs: Vec<FeatureRecord> = (0..n)
        .map(|_| {
            let f = b_feature(t, true);
            let tag = match f.feature_params.as_ref() {
                Some(FeatureParams::Size(_)) => Tag::new(b"size"),
                Some(FeatureParams::StylisticSet(_)) => Tag::new(b"ss01"),
                Some(FeatureParams::CharacterVariant(_)) => Tag::new(b"cv01"),
                None => t.tag(),
            };
            FeatureRecord { feature_tag: tag, feature: OffsetMarker::new(f) }
        })
        .collect();
    recs.sort_by_key(|r| r.feature_tag);
    FeatureList { feature_records: recs }
}

fn b_condition(t: &mut Tape, depth: u32) -> wt::layout::Condition {
    use wt::layout::*;
    let k = if depth == 0 { t.below(2) } else { t.below(5) };
    match k {
        0 => Condition::Format1AxisRange(ConditionFormat1 { axis_index: t.u16(), filter_range_min_value: t.f2(), filter_range_max_value: t.f2() }),
        1 => Condition::Format2VariableValue(ConditionFormat2 { default_value: t.i16(), var_index: t.u32() }),
        2 => {
            let n = t.len(3);
            Condition::Format3And(ConditionFormat3 { condition_count: n as u8, conditions: (0..n).map(|_| OffsetMarker::new(b_condition(t, depth - 1))).collect() })
        }
        3 => {
            let n = t.len(3);
            Condition::Format4Or(ConditionFormat4 { condition_count: n as u8, conditions: (0..n).map(|_| OffsetMarker::new(b_condition(t, depth - 1))).collect() })
        }
        _ => Condition::Format5Negate(ConditionFormat5 { condition: OffsetMarker::new(b_condition(t, depth - 1)) }),
    }
}

fn b_feature_variations(t: &mut Tape) -> wt::layout::FeatureVariations {
    use wt::layout::*;
    let n = t.len(3);
    FeatureVariations {
        feature_variation_records: (0..n)
            .map(|_| FeatureVariationRecord {
                condition_set: if t.chance(1, 4) { nullable(None) } else { nullable(Some(ConditionSet { conditions: (0..t.len(3)).map(|_| OffsetMarker::new(b_condition(t, 2))).collect() })) },
                feature_table_substitution: if t.chance(1, 4) {
                    nullable(None)
                } else {
                    nullable(Some(FeatureTableSubstitution { substitutions: (0..t.len(3)).map(|_| FeatureTableSubstitutionRecord { feature_index: t.u16(), alternate_feature: OffsetMarker::new(b_feature(t, false)) }).collect() }))
                },
            })
            .collect(),
    }
}

fn b_gsub(t: &mut Tape) -> wt::gsub::Gsub {
    let lookups = (0..t.nlookups()).map(|_| OffsetMarker::new(b_gsub_lookup(t))).collect();
    let fv = if t.chance(1, 3) {
        t.lab_nd("v1.1");
        Some(b_feature_variations(t))
    } else {
        None
    };
    wt::gsub::Gsub {
        script_list: OffsetMarker::new(b_script_list(t)),
        feature_list: OffsetMarker::new(b_feature_list(t)),
        lookup_list: OffsetMarker::new(wt::layout::LookupList { lookups }),
        feature_variations: nullable(fv),
    }
}

fn b_gpos(t: &mut Tape) -> wt::gpos::Gpos {
    let lookups = (0..t.nlookups()).map(|_| OffsetMarker::new(b_gpos_lookup(t))).collect();
    let fv = if t.chance(1, 3) {
        t.lab_nd("v1.1");
        Some(b_feature_variations(t))
    } else {
        None
    };
    wt::gpos::Gpos {
        script_list: OffsetMarker::new(b_script_list(t)),
        feature_list: OffsetMarker::new(b_feature_list(t)),
        lookup_list: OffsetMarker::new(wt::layout::LookupList { lookups }),
        feature_variations: nullable(fv),
    }
}

fn b_gdef(t: &mut Tape) -> wt::gdef::Gdef {
    use wt::gdef::*;
    let mut g = Gdef::default();
    if t.bool() {
        let k = t.len(4);
        g.glyph_class_def = nullable(Some(b_classdef(t, k).0));
    }
    if t.bool() {
        let (cov, n) = b_cov(t, 4);
        g.attach_list = nullable(Some(AttachList { coverage: OffsetMarker::new(cov), attach_points: (0..n).map(|_| OffsetMarker::new(AttachPoint { point_indices: b_u16s(t, 4) })).collect() }));
    }
    if t.bool() {
        let (cov, n) = b_cov(t, 4);
        let ligs = (0..n)
            .map(|_| {
                OffsetMarker::new(LigGlyph {
                    caret_values: (0..t.len(3))
                        .map(|_| {
                            OffsetMarker::new(match t.below(3) {
                                0 => CaretValue::Format1(CaretValueFormat1 { coordinate: t.i16() }),
                                1 => CaretValue::Format2(CaretValueFormat2 { caret_value_point_index: t.u16() }),
                                _ => CaretValue::Format3(CaretValueFormat3 { coordinate: t.i16(), device: OffsetMarker::new(b_dev_or_var(t)) }),
                            })
                        })
                        .collect(),
                })
            })
            .collect();
        g.lig_caret_list = nullable(Some(LigCaretList { coverage: OffsetMarker::new(cov), lig_glyphs: ligs }));
    }
    if t.bool() {
        let k = t.len(3);
        g.mark_attach_class_def = nullable(Some(b_classdef(t, k).0));
    }
    let ver = t.below(3);
    if ver >= 1 && t.chance(3, 4) {
        g.mark_glyph_sets_def = nullable(Some(MarkGlyphSets { coverages: (0..t.len(3)).map(|_| OffsetMarker::new(b_cov(t, 5).0)).collect() }));
    }
    if ver >= 2 {
        g.item_var_store = nullable(Some(b_ivs(t)));
    }
    t.lab(if g.item_var_store.is_some() { "v1.3" } else if g.mark_glyph_sets_def.is_some() { "v1.2" } else { "v1.0" });
    t.nondefault |= g.item_var_store.is_some() || g.mark_glyph_sets_def.is_some();
    g
}

fn b_color_line(t: &mut Tape) -> wt::colr::ColorLine {
    use wt::colr::*;
    let n = t.len(4);
    ColorLine { extend: [Extend::Pad, Extend::Repeat, Extend::Reflect][t.below(3) as usize], num_stops: n as u16, color_stops: (0..n).map(|_| ColorStop { stop_offset: t.f2(), palette_index: t.u16(), alpha: t.f2() }).collect() }
}

fn b_var_color_line(t: &mut Tape) -> wt::colr::VarColorLine {
    use wt::colr::*;
    let n = t.len(4);
    VarColorLine {
        extend: [Extend::Pad, Extend::Repeat, Extend::Reflect][t.below(3) as usize],
        num_stops: n as u16,
        color_stops: (0..n).map(|_| VarColorStop { stop_offset: t.f2(), palette_index: t.u16(), alpha: t.f2(), var_index_base: t.u32() }).collect(),
    }
}

fn b_paint(t: &mut Tape, depth: u32) -> wt::colr::Paint {
    use wt::colr::*;
    // leaves: 0..=10; with children: 11..=31
    let k = if depth == 0 { t.below(11) } else { t.below(32) };
    let child = |t: &mut Tape| OffsetMarker::new(b_paint(t, depth - 1));
    match k {
        0 => Paint::ColrLayers(PaintColrLayers { num_layers: t.u8(), first_layer_index: t.u32() }),
        1 => Paint::Solid(PaintSolid { palette_index: t.u16(), alpha: t.f2() }),
        2 => Paint::VarSolid(PaintVarSolid { palette_index: t.u16(), alpha: t.f2(), var_index_base: t.u32() }),
        3 => Paint::LinearGradient(PaintLinearGradient { color_line: OffsetMarker::new(b_color_line(t)), x0: t.fword(), y0: t.fword(), x1: t.fword(), y1: t.fword(), x2: t.fword(), y2: t.fword() }),
        4 => Paint::VarLinearGradient(PaintVarLinearGradient { color_line: OffsetMarker::new(b_var_color_line(t)), x0: t.fword(), y0: t.fword(), x1: t.fword(), y1: t.fword(), x2: t.fword(), y2: t.fword(), var_index_base: t.u32() }),
        5 => Paint::RadialGradient(PaintRadialGradient { color_line: OffsetMarker::new(b_color_line(t)), x0: t.fword(), y0: t.fword(), radius0: t.ufword(), x1: t.fword(), y1: t.fword(), radius1: t.ufword() }),
        6 => Paint::VarRadialGradient(PaintVarRadialGradient {
            color_line: OffsetMarker::new(b_var_color_line(t)),
            x0: t.fword(),
            y0: t.fword(),
            radius0: t.ufword(),
            x1: t.fword(),
            y1: t.fword(),
            radius1: t.ufword(),
            var_index_base: t.u32(),
        }),
        7 => Paint::SweepGradient(PaintSweepGradient { color_line: OffsetMarker::new(b_color_line(t)), center_x: t.fword(), center_y: t.fword(), start_angle: t.f2(), end_angle: t.f2() }),
        8 => Paint::VarSweepGradient(PaintVarSweepGradient { color_line: OffsetMarker::new(b_var_color_line(t)), center_x: t.fword(), center_y: t.fword(), start_angle: t.f2(), end_angle: t.f2(), var_index_base: t.u32() }),
        9 => Paint::ColrGlyph(PaintColrGlyph { glyph_id: t.gid() }),
        10 => Paint::Solid(PaintSolid { palette_index: 0xFFFF, alpha: F2Dot14::from_bits(0x4000) }),
        11 => Paint::Glyph(PaintGlyph { paint: child(t), glyph_id: t.gid() }),
        12 => Paint::Transform(PaintTransform { paint: child(t), transform: OffsetMarker::new(Affine2x3 { xx: t.fixed(), yx: t.fixed(), xy: t.fixed(), yy: t.fixed(), dx: t.fixed(), dy: t.fixed() }) }),
        13 => Paint::VarTransform(PaintVarTransform {
            paint: child(t),
            transform: OffsetMarker::new(VarAffine2x3 { xx: t.fixed(), yx: t.fixed(), xy: t.fixed(), yy: t.fixed(), dx: t.fixed(), dy: t.fixed(), var_index_base: t.u32() }),
        }),
        14 => Paint::Translate(PaintTranslate { paint: child(t), dx: t.fword(), dy: t.fword() }),
        15 => Paint::VarTranslate(PaintVarTranslate { paint: child(t), dx: t.fword(), dy: t.fword(), var_index_base: t.u32() }),
        16 => Paint::Scale(PaintScale { paint: child(t), scale_x: t.f2(), scale_y: t.f2() }),
        17 => Paint::VarScale(PaintVarScale { paint: child(t), scale_x: t.f2(), scale_y: t.f2(), var_index_base: t.u32() }),
        18 => Paint::ScaleAroundCenter(PaintScaleAroundCenter { paint: child(t), scale_x: t.f2(), scale_y: t.f2(), center_x: t.fword(), center_y: t.fword() }),
        19 => Paint::VarScaleAroundCenter(PaintVarScaleAroundCenter { paint: child(t), scale_x: t.f2(), scale_y: t.f2(), center_x: t.fword(), center_y: t.fword(), var_index_base: t.u32() }),
        20 => Paint::ScaleUniform(PaintScaleUniform { paint: child(t), scale: t.f2() }),
        21 => Paint::VarScaleUniform(PaintVarScaleUniform { paint: child(t), scale: t.f2(), var_index_base: t.u32() }),
        22 => Paint::ScaleUniformAroundCenter(PaintScaleUniformAroundCenter { paint: child(t), scale: t.f2(), center_x: t.fword(), center_y: t.fword() }),
        23 => Paint::VarScaleUniformAroundCenter(PaintVarScaleUniformAroundCenter { paint: child(t), scale: t.f2(), center_x: t.fword(), center_y: t.fword(), var_index_base: t.u32() }),
        24 => Paint::Rotate(PaintRotate { paint: child(t), angle: t.f2() }),
        25 => Paint::VarRotate(PaintVarRotate { paint: child(t), angle: t.f2(), var_index_base: t.u32() }),
        26 => Paint::RotateAroundCenter(PaintRotateAroundCenter { paint: child(t), angle: t.f2(), center_x: t.fword(), center_y: t.fword() }),
        27 => Paint::VarRotateAroundCenter(PaintVarRotateAroundCenter { paint: child(t), angle: t.f2(), center_x: t.fword(), center_y: t.fword(), var_index_base: t.u32() }),
        28 => Paint::Skew(PaintSkew { paint: child(t), x_skew_angle: t.f2(), y_skew_angle: t.f2() }),
        29 => {
            if t.bool() {
                Paint::VarSkew(PaintVarSkew { paint: child(t), x_skew_angle: t.f2(), y_skew_angle: t.f2(), var_index_base: t.u32() })
            } else {
                Paint::SkewAroundCenter(PaintSkewAroundCenter { paint: child(t), x_skew_angle: t.f2(), y_skew_angle: t.f2(), center_x: t.fword(), center_y: t.fword() })
            }
        }
        30 => Paint::VarSkewAroundCenter(PaintVarSkewAroundCenter { paint: child(t), x_skew_angle: t.f2(), y_skew_angle: t.f2(), center_x: t.fword(), center_y: t.fword(), var_index_base: t.u32() }),
        _ => {
            let modes = [CompositeMode::Clear, CompositeMode::Src, CompositeMode::SrcOver, CompositeMode::Xor, CompositeMode::Multiply, CompositeMode::HslLuminosity];
            Paint::Composite(PaintComposite { source_paint: child(t), composite_mode: modes[t.below(modes.len() as u32) as usize], backdrop_paint: child(t) })
        }
    }
}

fn b_colr(t: &mut Tape) -> wt::colr::Colr {
    use wt::colr::*;
    let mut c = Colr::default();
    if t.chance(3, 4) {
        let nb = t.len(4);
        let gids = t.glyph_set(nb);
        let nl = t.len(6);
        c.num_base_glyph_records = gids.len() as u16;
        c.base_glyph_records = nullable(Some(gids.iter().map(|g| BaseGlyph { glyph_id: *g, first_layer_index: t.below(nl as u32 + 1) as u16, num_layers: t.below(3) as u16 }).collect()));
        c.num_layer_records = nl as u16;
        c.layer_records = nullable(Some((0..nl).map(|_| Layer { glyph_id: t.gid(), palette_index: t.u16() }).collect()));
    }
    let v1 = t.bool();
    if v1 {
        let which = 1 + t.below(31);
        if which & 1 != 0 {
            let n = t.len(3);
            let gids = t.glyph_set(n);
            c.base_glyph_list = nullable(Some(BaseGlyphList { num_base_glyph_paint_records: gids.len() as u32, base_glyph_paint_records: gids.iter().map(|g| BaseGlyphPaint { glyph_id: *g, paint: OffsetMarker::new(b_paint(t, 3)) }).collect() }));
        }
        if which & 2 != 0 {
            let n = t.len(3);
            c.layer_list = nullable(Some(LayerList { num_layers: n as u32, paints: (0..n).map(|_| OffsetMarker::new(b_paint(t, 2))).collect() }));
        }
        if which & 4 != 0 {
            let n = t.len(3);
            let gids = t.glyph_set(n * 2);
            let clips: Vec<Clip> = gids
                .chunks_exact(2)
                .map(|p| Clip {
                    start_glyph_id: p[0],
                    end_glyph_id: p[1],
                    clip_box: OffsetMarker::new(if t.bool() {
                        ClipBox::Format1(ClipBoxFormat1 { x_min: t.fword(), y_min: t.fword(), x_max: t.fword(), y_max: t.fword() })
                    } else {
                        ClipBox::Format2(ClipBoxFormat2 { x_min: t.fword(), y_min: t.fword(), x_max: t.fword(), y_max: t.fword(), var_index_base: t.u32() })
                    }),
                })
                .collect();
            c.clip_list = nullable(Some(ClipList { format: 1, num_clips: clips.len() as u32, clips }));
        }
        if which & 8 != 0 {
            c.var_index_map = nullable(Some(b_dsim(t)));
        }
        if which & 16 != 0 {
            c.item_variation_store = nullable(Some(b_ivs(t)));
        }
        t.lab_nd("v1");
        for (bit, name) in ["base-glyph-list", "layer-list", "clip-list", "var-index-map", "var-store"].iter().enumerate() {
            if which & (1 << bit) != 0 {
                t.lab(name);
            }
        }
    } else {
        t.lab("v0");
    }
    c
}

fn b_base_coord(t: &mut Tape) -> wt::base::BaseCoord {
    use wt::base::*;
    match t.below(3) {
        0 => BaseCoord::Format1(BaseCoordFormat1 { coordinate: t.i16() }),
        1 => BaseCoord::Format2(BaseCoordFormat2 { coordinate: t.i16(), reference_glyph: t.u16(), base_coord_point: t.u16() }),
        _ => BaseCoord::Format3(BaseCoordFormat3 { coordinate: t.i16(), device: if t.bool() { nullable(Some(b_dev_or_var(t))) } else { nullable(None) } }),
    }
}

fn b_opt_coord(t: &mut Tape) -> NullableOffsetMarker<wt::base::BaseCoord> {
    if t.bool() {
        nullable(Some(b_base_coord(t)))
    } else {
        nullable(None)
    }
}

fn b_min_max(t: &mut Tape, depth: u32) -> wt::base::MinMax {
    use wt::base::*;
    let n = if depth == 0 { 0 } else { t.len(2) };
    let mut recs: Vec<FeatMinMaxRecord> = (0..n)
        .map(|_| FeatMinMaxRecord {
            feature_table_tag: t.tag(),
            min_coord: if t.bool() { nullable(Some(b_min_max(t, depth - 1))) } else { nullable(None) },
            max_coord: if t.bool() { nullable(Some(b_min_max(t, depth - 1))) } else { nullable(None) },
        })
        .collect();
    recs.sort_by_key(|r| r.feature_table_tag);
    MinMax { min_coord: b_opt_coord(t), max_coord: b_opt_coord(t), feat_min_max_records: recs }
}

fn b_base_axis(t: &mut Tape) -> wt::base::Axis {
    use wt::base::*;
    let ntags = t.len(3);
    let mut tags: Vec<Tag> = (0..ntags).map(|_| t.tag()).collect();
    tags.sort();
    let mut scripts: Vec<BaseScriptRecord> = (0..t.len(3))
        .map(|_| {
            let values = if t.bool() { Some(BaseValues { default_baseline_index: t.u16(), base_coords: (0..ntags).map(|_| OffsetMarker::new(b_base_coord(t))).collect() }) } else { None };
            let mut langs: Vec<BaseLangSysRecord> = (0..t.len(2)).map(|_| BaseLangSysRecord { base_lang_sys_tag: t.tag(), min_max: OffsetMarker::new(b_min_max(t, 1)) }).collect();
            langs.sort_by_key(|l| l.base_lang_sys_tag);
            BaseScriptRecord {
                base_script_tag: t.tag(),
                base_script: OffsetMarker::new(BaseScript { base_values: nullable(values), default_min_max: if t.bool() { nullable(Some(b_min_max(t, 1))) } else { nullable(None) }, base_lang_sys_records: langs }),
            }
        })
        .collect();
    scripts.sort_by_key(|s| s.base_script_tag);
    Axis { base_tag_list: if ntags == 0 && t.bool() { nullable(None) } else { nullable(Some(BaseTagList { baseline_tags: tags })) }, base_script_list: OffsetMarker::new(BaseScriptList { base_script_records: scripts }) }
}

fn b_base(t: &mut Tape) -> wt::base::Base {
    let h = if t.chance(3, 4) { Some(b_base_axis(t)) } else { None };
    let v = if t.chance(1, 3) { Some(b_base_axis(t)) } else { None };
    let ivs = if t.chance(1, 3) { Some(b_ivs(t)) } else { None };
    t.lab(if ivs.is_some() { "v1.1" } else { "v1.0" });
    t.nondefault |= ivs.is_some();
    wt::base::Base { horiz_axis: nullable(h), vert_axis: nullable(v), item_var_store: nullable(ivs) }
}

// =================================================================================================
// outcomes

#[derive(Clone, Debug, PartialEq, Eq)]
enum Outcome {
    Bytes(Vec<u8>),
    /// the compilation returned an error (rendered): must be just as reproducible as bytes
    Error(String),
    /// the compilation panicked (site signature): ditto (the panics themselves are C04/C05/C16 business)
    Panic(String),
}

impl Outcome {
    fn digest(&self) -> (u8, u64, u64) {
        match self {
            Outcome::Bytes(b) => (0, b.len() as u64, fnv64(b)),
            Outcome::Error(e) => (1, e.len() as u64, fnv64(e.as_bytes())),
            Outcome::Panic(e) => (2, e.len() as u64, fnv64(e.as_bytes())),
        }
    }
    fn describe(&self) -> String {
        match self {
            Outcome::Bytes(b) => format!("{} bytes (fnv {:016x})", b.len(), fnv64(b)),
            Outcome::Error(e) => format!("error {:?}", e.chars().take(160).collect::<String>()),
            Outcome::Panic(e) => format!("panic {:?}", e.chars().take(160).collect::<String>()),
        }
    }
    fn is_bytes(&self) -> bool {
        matches!(self, Outcome::Bytes(_))
    }
}

fn diff_msg(reference: &Outcome, other: &Outcome) -> String {
    match (reference, other) {
        (Outcome::Bytes(a), Outcome::Bytes(b)) => {
            let at = a.iter().zip(b.iter()).position(|(x, y)| x != y).unwrap_or(a.len().min(b.len()));
            let ndiff = a.iter().zip(b.iter()).filter(|(x, y)| x != y).count();
            let win = |v: &[u8]| v.iter().skip(at.saturating_sub(4)).take(16).map(|x| format!("{x:02x}")).collect::<Vec<_>>().join(" ");
            format!("reference {} bytes, recomputation {} bytes; first difference at byte {at} ({ndiff} differing positions); reference [{}] recomputation [{}]", a.len(), b.len(), win(a), win(b))
        }
        _ => format!("reference: {}; recomputation: {}", reference.describe(), other.describe()),
    }
}

fn errstr(e: impl std::fmt::Display) -> String {
    format!("{e}").chars().take(300).collect()
}

fn dump<T: FontWrite + Validate>(t: &T) -> Result<Vec<u8>, String> {
    dump_table(t).map_err(errstr)
}

/// expands a generated seed into bulk data (a pure function of the case value, not a source of randomness)
fn lcg(p: &mut u64) -> u64 {
    *p = p.wrapping_mul(6364136223846793005).wrapping_add(1442695040888963407);
    *p >> 33
}
fn below(p: &mut u64, n: u64) -> u64 {
    if n == 0 {
        0
    } else {
        lcg(p) % n
    }
}
fn shuffle<T>(v: &mut [T], p: &mut u64) {
    for i in (1..v.len()).rev() {
        let j = below(p, i as u64 + 1) as usize;
        v.swap(i, j);
    }
}

// =================================================================================================
// corpus

struct Corpus {
    fonts: Vec<corpus::CorpusFont>,
    /// (font, table kind) pairs whose table reads
    owned: Vec<(usize, u8)>,
    /// fonts with a character map and outlines
    subsettable: Vec<usize>,
}

const OWNED_TAGS: &[&[u8; 4]] = &[b"GPOS", b"GSUB", b"GDEF", b"name", b"STAT", b"BASE", b"COLR", b"cmap", b"HVAR", b"MVAR"];

fn font_ref(data: &[u8]) -> Option<FontRef<'_>> {
    FontRef::new(data).ok().or_else(|| FontRef::from_index(data, 0).ok())
}

fn corpus() -> &'static Corpus {
    static C: OnceLock<Corpus> = OnceLock::new();
    C.get_or_init(|| {
        let fonts = corpus::all_fonts();
        let mut owned = vec![];
        let mut subsettable = vec![];
        for (i, f) in fonts.iter().enumerate() {
            let Some(font) = font_ref(&f.data) else { continue };
            for (k, tag) in OWNED_TAGS.iter().enumerate() {
                if font.table_data(Tag::new(tag)).is_some() {
                    owned.push((i, k as u8));
                }
            }
            use skrifa::MetadataProvider;
            let n = font.charmap().mappings().take(4).count();
            if n >= 2 && (font.table_data(Tag::new(b"glyf")).is_some() || font.table_data(Tag::new(b"CFF ")).is_some()) {
                subsettable.push(i);
            }
        }
        Corpus { fonts, owned, subsettable }
    })
}

fn pick<T: Copy>(v: &[T], raw: u16) -> Option<T> {
    if v.is_empty() {
        None
    } else {
        Some(v[(raw as usize * v.len()) >> 16])
    }
}

// =================================================================================================
// mock graphs (public FontWrite route and pack_mock_graph hook route)

#[derive(Clone, Debug, Serialize, Deserialize, PartialEq)]
struct DNode {
    /// payload bytes (>= 8: distinct stamps give distinct payloads, so only twins are merged by deduplication)
    size: u32,
    /// payload bytes before the block of link fields
    lead: u32,
    stamp: u32,
    /// width (2/3/4) of EVERY link into this node: no node is the target of both a 16-bit and a wider link
    w: u8,
    /// link targets (indices greater than this node's)
    links: Vec<u32>,
}

/// zones: nodes 0..upper (root first), then `roots` space roots (the only targets of 32-bit links; reachable from
/// upper nodes only), then lower nodes (reachable from anywhere, link only to later lower nodes). By construction
/// no 32-bit target lies below another one and no node has incoming links of different widths: the two listed
/// C05 findings (pack_objects panics) are outside this generator.
#[derive(Clone, Debug, Serialize, Deserialize)]
struct Dag {
    nodes: Vec<DNode>,
    upper: u32,
    roots: u32,
    /// hook route: 0 = object ids ascend with the node index, 1 = root first then descending
    order: u8,
}

fn fill(stamp: u32, size: usize) -> Vec<u8> {
    let mut v = Vec::with_capacity(size + 8);
    let mut x: u64 = (stamp as u64 + 1).wrapping_mul(0x9E37_79B9_7F4A_7C15);
    // the first 8 bytes are an injective function of the stamp
    v.extend_from_slice(&x.to_be_bytes());
    while v.len() < size {
        x = x.wrapping_mul(6364136223846793005).wrapping_add(1442695040888963407);
        v.extend_from_slice(&(x ^ (x >> 29)).to_be_bytes());
    }
    v.truncate(size);
    v
}

impl Dag {
    fn node_len(&self, i: usize) -> usize {
        let n = &self.nodes[i];
        n.size as usize + n.links.iter().map(|t| self.nodes[*t as usize].w as usize).sum::<usize>()
    }
    fn total_len(&self) -> usize {
        (0..self.nodes.len()).map(|i| self.node_len(i)).sum()
    }
    /// generator invariants (a hand-edited replay file that breaks them is ignored)
    fn well_formed(&self) -> bool {
        let n = self.nodes.len();
        let (u, r) = (self.upper as usize, self.roots as usize);
        if n == 0 || n > 64 || u == 0 || u + r > n {
            return false;
        }
        let zone = |i: usize| if i < u { 0 } else if i < u + r { 1 } else { 2 };
        let mut indeg = vec![0u32; n];
        for (i, nd) in self.nodes.iter().enumerate() {
            if nd.size < 8 || nd.size > 1 << 20 || nd.lead > nd.size || !(2..=4).contains(&nd.w) || (nd.w == 4) != (zone(i) == 1) || nd.links.len() > 64 {
                return false;
            }
            for t in &nd.links {
                let t = *t as usize;
                if t <= i || t >= n {
                    return false;
                }
                // roots are linked from upper nodes only; roots and lower nodes link to lower nodes only
                if (zone(t) == 1 && zone(i) != 0) || (zone(i) != 0 && zone(t) != 2) {
                    return false;
                }
                indeg[t] += 1;
            }
        }
        indeg.iter().skip(1).all(|d| *d > 0)
    }
    fn public_write_cost(&self) -> (u64, u64) {
        let n = self.nodes.len();
        let mut writes = vec![0u64; n];
        writes[0] = 1;
        let (mut bytes, mut count) = (0u64, 0u64);
        for i in 0..n {
            let w = writes[i];
            bytes = bytes.saturating_add(w.saturating_mul(self.node_len(i) as u64));
            count = count.saturating_add(w);
            for t in &self.nodes[i].links {
                writes[*t as usize] = writes[*t as usize].saturating_add(w);
            }
        }
        (bytes, count)
    }
    /// two distinct objects with the same parent and the same length (they tie on distance), or a shared node
    fn has_ties(&self) -> bool {
        for nd in &self.nodes {
            let mut seen: BTreeMap<usize, u32> = BTreeMap::new();
            for t in &nd.links {
                let len = self.node_len(*t as usize);
                match seen.get(&len) {
                    Some(other) if other != t => return true,
                    _ => {
                        seen.insert(len, *t);
                    }
                }
            }
        }
        false
    }
    fn has_shared(&self) -> bool {
        let mut indeg = vec![0u32; self.nodes.len()];
        for nd in &self.nodes {
            for t in &nd.links {
                indeg[*t as usize] += 1;
            }
        }
        indeg.iter().any(|d| *d > 1)
    }
}

struct PubNode<'a> {
    dag: &'a Dag,
    i: usize,
}
impl FontWrite for PubNode<'_> {
    fn write_into(&self, w: &mut TableWriter) {
        let nd = &self.dag.nodes[self.i];
        let p = fill(nd.stamp, nd.size as usize);
        w.write_slice(&p[..nd.lead as usize]);
        for t in &nd.links {
            w.write_offset(&PubNode { dag: self.dag, i: *t as usize }, self.dag.nodes[*t as usize].w as usize);
        }
        w.write_slice(&p[nd.lead as usize..]);
    }
}
impl Validate for PubNode<'_> {
    fn validate_impl(&self, _: &mut ValidationCtx) {}
}

fn compile_mock(dag: &Dag) -> Result<Vec<u8>, String> {
    let n = dag.nodes.len();
    let perm: Vec<usize> = if dag.order == 1 { std::iter::once(0).chain((1..n).rev()).collect() } else { (0..n).collect() };
    let mut slot = vec![0usize; n];
    for (k, i) in perm.iter().enumerate() {
        slot[*i] = k;
    }
    let nodes: Vec<MockNode> = perm
        .iter()
        .map(|i| {
            let nd = &dag.nodes[*i];
            let p = fill(nd.stamp, nd.size as usize);
            let mut bytes = Vec::with_capacity(dag.node_len(*i));
            bytes.extend_from_slice(&p[..nd.lead as usize]);
            let mut links = vec![];
            for t in &nd.links {
                let w = dag.nodes[*t as usize].w;
                links.push(MockLink { target: slot[*t as usize], width: w, pos: bytes.len() as u32, adjustment: 0 });
                bytes.extend(std::iter::repeat(0xEE).take(w as usize));
            }
            bytes.extend_from_slice(&p[nd.lead as usize..]);
            MockNode { bytes, links }
        })
        .collect();
    match pack_mock_graph(&nodes) {
        None => Err("mock graph: packing failed".into()),
        Some(p) => {
            // the final layout is part of the result
            let mut out = p.bytes;
            for (idx, pos, len) in p.layout {
                out.extend_from_slice(&(idx.map(|k| perm[k] as u32).unwrap_or(u32::MAX)).to_be_bytes());
                out.extend_from_slice(&pos.to_be_bytes());
                out.extend_from_slice(&len.to_be_bytes());
            }
            Ok(out)
        }
    }
}

const PUBLIC_BYTE_BUDGET: u64 = 4 << 20;
const PUBLIC_WRITE_BUDGET: u64 = 20_000;

fn dag_public_ok(d: &Dag) -> bool {
    let (b, c) = d.public_write_cost();
    b <= PUBLIC_BYTE_BUDGET && c <= PUBLIC_WRITE_BUDGET
}

// =================================================================================================
// recipes

#[derive(Clone, Debug, Serialize, Deserialize)]
enum LkSpec {
    /// glyph pairs `firsts x seconds` (thinned), values from a palette of `values` advances, `fmts` value formats;
    /// then `c1 x c2` class rules
    Pair { firsts: u16, seconds: u16, keep: u8, values: u8, fmts: u8, c1: u8, c2: u8 },
    Mark { marks: u16, bases: u16, classes: u8, anchors: u8 },
    Single { n: u16, values: u8 },
    Cursive { n: u16, anchors: u8 },
}

#[derive(Clone, Debug, Serialize, Deserialize)]
enum Recipe {
    /// tape-driven table: 0 GSUB, 1 GPOS, 2 GDEF, 3 name, 4 STAT, 5 BASE, 6 COLR, 7 ItemVariationStore
    Tape { kind: u8, big: bool, tape: Vec<u32> },
    /// VariationStoreBuilder input: `rows` delta sets over `regions` regions of `axes` axes
    Ivs { axes: u8, regions: u8, rows: u16, patterns: u8, seed: u64, direct: bool },
    /// GlyphVariations -> Gvar
    Gvar { axes: u8, glyphs: u8, tuples: u8, seed: u64 },
    /// GPOS lookup builders -> Gpos (+ the variation store when `var`)
    GposB { seed: u64, lookups: Vec<LkSpec>, var: bool },
    /// `k` GPOS lookups of exactly the same size (PairPos format 1, `rows` pair sets of `cols` records, start glyphs
    /// `i * 100 + 1`), optionally after one smaller lookup: once the table needs extension promotion, the candidates
    /// tie on "subtables per byte" and the 64 KiB budget runs out inside the tie group
    EqualLk { k: u8, rows: u8, cols: u8, lead: bool },
    /// mock graph through the public FontWrite route (falls back to the hook when re-serialising shared subtrees is too costly)
    Dag(Dag),
    /// mock graph through pack_mock_graph
    Mock(Dag),
    /// a table of a corpus font: read, to_owned_table, dump_table
    /// `edit` > 0: the font is a sibling of the corpus font (cmap segments / name bytes edited in place, all lengths
    /// and offsets unchanged)
    Owned {
        sel: u16,
        #[serde(default)]
        edit: u8,
        #[serde(default)]
        seed: u64,
    },
    /// FontBuilder: generated tables (add_table) + raw tables + copy_missing_tables from a corpus font
    Font {
        font: u16,
        tables: Vec<(u8, Vec<u32>)>,
        raw: Vec<([u8; 4], Vec<u8>)>,
        copy_first: bool,
        #[serde(default)]
        edit: u8,
    },
    /// klippa::subset_font of a corpus font with a generated plan
    Subset {
        font: u16,
        seed: u64,
        keep: u8,
        flags: u16,
        gids: u8,
        drop: u8,
        all_features: bool,
        #[serde(default)]
        edit: u8,
    },
}

fn kind_name(r: &Recipe) -> &'static str {
    match r {
        Recipe::Tape { kind, big, .. } => match (kind % 8, big) {
            (0, false) => "table:GSUB",
            (0, true) => "table:GSUB-big",
            (1, false) => "table:GPOS",
            (1, true) => "table:GPOS-big",
            (2, _) => "table:GDEF",
            (3, _) => "table:name",
            (4, _) => "table:STAT",
            (5, _) => "table:BASE",
            (6, _) => "table:COLR",
            _ => "table:IVS",
        },
        Recipe::Ivs { direct: false, .. } => "ivs-builder",
        Recipe::Ivs { direct: true, .. } => "ivs-builder-direct",
        Recipe::Gvar { .. } => "gvar",
        Recipe::GposB { .. } => "gpos-builders",
        Recipe::EqualLk { .. } => "gpos-equal-lookups",
        Recipe::Dag(d) => {
            if dag_public_ok(d) {
                "dag-public"
            } else {
                "dag-hook"
            }
        }
        Recipe::Mock(_) => "dag-hook",
        Recipe::Owned { .. } => "corpus-table",
        Recipe::Font { .. } => "font-builder",
        Recipe::Subset { .. } => "klippa-subset",
    }
}

// ---- tape tables --------------------------------------------------------------------------------

fn compile_tape(kind: u8, big: bool, tape: &[u32]) -> Result<Vec<u8>, String> {
    let mut t = Tape::new(tape);
    t.big = big;
    match kind % 8 {
        0 => dump(&b_gsub(&mut t)),
        1 => dump(&b_gpos(&mut t)),
        2 => dump(&b_gdef(&mut t)),
        3 => dump(&b_name(&mut t)),
        4 => dump(&b_stat(&mut t)),
        5 => dump(&b_base(&mut t)),
        6 => dump(&b_colr(&mut t)),
        _ => dump(&b_ivs(&mut t)),
    }
}

// ---- IVS builder --------------------------------------------------------------------------------

const PEAKS: [f32; 6] = [-1.0, -0.5, 0.25, 0.5, 0.75, 1.0];

fn ivs_regions(axes: usize, nreg: usize, p: &mut u64) -> Vec<wt::variations::VariationRegion> {
    use wt::variations::{RegionAxisCoordinates, VariationRegion};
    let shift = below(p, 6) as usize;
    (0..nreg)
        .map(|i| {
            let mut d = i;
            VariationRegion::new(
                (0..axes)
                    .map(|a| {
                        let peak = PEAKS[(d % 6 + shift * (a + 1)) % 6];
                        d /= 6;
                        RegionAxisCoordinates::new(F2Dot14::from_f32(peak.min(0.0)), F2Dot14::from_f32(peak), F2Dot14::from_f32(peak.max(0.0)))
                    })
                    .collect(),
            )
        })
        .collect()
}

struct IvsPlan {
    axes: usize,
    regs: Vec<wt::variations::VariationRegion>,
    /// per row: (region index, delta) in insertion order
    rows: Vec<Vec<(usize, i32)>>,
}

fn ivs_plan(axes: u8, regions: u8, rows: u16, patterns: u8, seed: u64) -> IvsPlan {
    let mut p = seed;
    let axes = (axes as usize).clamp(1, 4);
    let max_reg = [6usize, 14, 14, 14][axes - 1];
    let nreg = (regions as usize).clamp(1, max_reg);
    let regs = ivs_regions(axes, nreg, &mut p);
    let npat = (patterns as usize).clamp(1, 8);
    let masks: Vec<u32> = (0..npat).map(|_| 1 + below(&mut p, (1u64 << nreg) - 1) as u32).collect();
    let mags: Vec<u8> = (0..npat).map(|_| below(&mut p, 4) as u8).collect();
    let nrows = (rows as usize).clamp(1, 3000);
    let mut out = Vec::with_capacity(nrows);
    for _ in 0..nrows {
        let (mask, mag) = if below(&mut p, 5) != 0 {
            let k = below(&mut p, npat as u64) as usize;
            (masks[k], mags[k])
        } else {
            (below(&mut p, 1u64 << nreg) as u32, below(&mut p, 4) as u8)
        };
        let mut idx: Vec<usize> = (0..nreg).filter(|i| mask & (1 << i) != 0).collect();
        shuffle(&mut idx, &mut p);
        let row: Vec<(usize, i32)> = idx
            .into_iter()
            .map(|i| {
                let d = match mag {
                    0 => below(&mut p, 3) as i32 - 1,
                    1 => below(&mut p, 9) as i32 * 25 - 100,
                    2 => below(&mut p, 7) as i32 * 5000 - 15000,
                    _ => below(&mut p, 5) as i32 * 30000 - 60000,
                };
                (i, d)
            })
            .collect();
        out.push(row);
    }
    IvsPlan { axes, regs, rows: out }
}

fn compile_ivs(axes: u8, regions: u8, rows: u16, patterns: u8, seed: u64, direct: bool) -> Result<Vec<u8>, String> {
    let plan = ivs_plan(axes, regions, rows, patterns, seed);
    let mut b = if direct { VariationStoreBuilder::new_with_implicit_indices(plan.axes as u16) } else { VariationStoreBuilder::new(plan.axes as u16) };
    let mut ids = Vec::with_capacity(plan.rows.len());
    for row in &plan.rows {
        ids.push(b.add_deltas(row.iter().map(|(i, d)| (plan.regs[*i].clone(), *d)).collect::<Vec<_>>()));
    }
    let (store, remap) = b.build();
    let mut out = dump(&store)?;
    // the index assignment is part of the result
    for id in ids {
        match remap.get(id) {
            Some(v) => {
                out.extend_from_slice(&v.delta_set_outer_index.to_be_bytes());
                out.extend_from_slice(&v.delta_set_inner_index.to_be_bytes());
            }
            None => out.extend_from_slice(&[0xFF; 4]),
        }
    }
    Ok(out)
}

// ---- gvar ---------------------------------------------------------------------------------------

/// returns the compiled table and whether two candidate shared tuples tie on their use count
fn gvar_input(axes: u8, glyphs: u8, tuples: u8, seed: u64) -> (Vec<wt::gvar::GlyphVariations>, u16, bool) {
    use wt::gvar::{GlyphDelta, GlyphDeltas, GlyphVariations, Tent};
    let mut p = seed;
    let axes = (axes as usize).clamp(1, 3);
    let ntup = (tuples as usize).clamp(1, 8);
    // tuple palette: distinct peak vectors, none all-zero
    let vals = [1.0f32, -1.0, 0.5, -0.5, 0.0];
    let mut palette: Vec<Vec<f32>> = vec![];
    let mut code = 0usize;
    while palette.len() < ntup && code < 125 {
        let mut d = code;
        let v: Vec<f32> = (0..axes)
            .map(|_| {
                let x = vals[d % 5];
                d /= 5;
                x
            })
            .collect();
        code += 1 + below(&mut p, 3) as usize;
        if d == 0 && v.iter().any(|x| *x != 0.0) {
            palette.push(v);
        }
    }
    if palette.is_empty() {
        palette.push(vec![1.0; axes]);
    }
    let nglyphs = (glyphs as usize).clamp(1, 60);
    let mut counts = vec![0u32; palette.len()];
    let mut out = vec![];
    for g in 0..nglyphs {
        let npts = 3 + below(&mut p, 24) as usize;
        let k = below(&mut p, palette.len().min(4) as u64 + 1) as usize;
        let mut which: Vec<usize> = (0..palette.len()).collect();
        shuffle(&mut which, &mut p);
        let mut vars = vec![];
        for t in which.into_iter().take(k) {
            counts[t] += 1;
            let tents: Vec<Tent> = palette[t].iter().map(|x| Tent::new(F2Dot14::from_f32(*x), None)).collect();
            let style = below(&mut p, 4);
            let deltas: Vec<GlyphDelta> = (0..npts)
                .map(|i| {
                    let (x, y) = match style {
                        0 => (below(&mut p, 5) as i16 - 2, below(&mut p, 5) as i16 - 2),
                        1 => (below(&mut p, 300) as i16 - 150, 0),
                        2 => (7, -7),
                        _ => (below(&mut p, 2000) as i16 - 1000, below(&mut p, 40) as i16 - 20),
                    };
                    GlyphDelta::new(x, y, i == 0 || below(&mut p, 3) != 0)
                })
                .collect();
            vars.push(GlyphDeltas::new(tents, deltas));
        }
        out.push(GlyphVariations::new(GlyphId::new(g as u32), vars));
    }
    shuffle(&mut out, &mut p);
    let mut shared: Vec<u32> = counts.iter().copied().filter(|c| *c > 1).collect();
    shared.sort();
    let tie = shared.windows(2).any(|w| w[0] == w[1]);
    (out, axes as u16, tie)
}

fn compile_gvar(axes: u8, glyphs: u8, tuples: u8, seed: u64) -> Result<Vec<u8>, String> {
    let (input, axes, _) = gvar_input(axes, glyphs, tuples, seed);
    let gv = wt::gvar::Gvar::new(input, axes).map_err(|e| format!("GvarInputError: {e:?}").chars().take(200).collect::<String>())?;
    dump(&gv)
}

// ---- GPOS builders ------------------------------------------------------------------------------

fn compile_equal_lookups(k: u8, rows: u8, cols: u8, lead: bool) -> Result<Vec<u8>, String> {
    use wt::gpos::{Gpos, PairPos, PairSet, PairValueRecord, PositionLookup, ValueRecord};
    use wt::layout::{Lookup, LookupFlag, LookupList};
    let pair_pos = |start: u16, rows: u16, cols: u16| -> PositionLookup {
        let range = start..start + rows;
        let coverage = range.clone().map(GlyphId16::new).collect();
        let pair_sets = range
            .map(|id| {
                let value = ValueRecord::new().with_x_advance(id as i16);
                PairSet::new((id..id + cols).map(|id2| PairValueRecord::new(GlyphId16::new(id2), value.clone(), ValueRecord::default())).collect())
            })
            .collect::<Vec<_>>();
        PositionLookup::Pair(Lookup::new(LookupFlag::empty(), vec![PairPos::format_1(coverage, pair_sets)]))
    };
    let mut lookups = vec![];
    if lead {
        lookups.push(pair_pos(5000, 3, 7));
    }
    for i in 0..k as u16 {
        lookups.push(pair_pos(i * 100 + 1, rows as u16, cols as u16));
    }
    dump(&Gpos::new(Default::default(), Default::default(), LookupList::new(lookups)))
}

fn equal_lk_recipe() -> BoxedStrategy<Recipe> {
    (4u8..10, 14u8..26, 120u8..200, any::<bool>()).prop_map(|(k, rows, cols, lead)| Recipe::EqualLk { k, rows, cols, lead }).boxed()
}

fn lk_weight(l: &LkSpec) -> u64 {
    match l {
        LkSpec::Pair { firsts, seconds, keep, c1, c2, .. } => (*firsts as u64 * *seconds as u64 * (*keep as u64 + 1) / 16 + *c1 as u64 * *c2 as u64) * 4,
        LkSpec::Mark { marks, bases, classes, .. } => *marks as u64 * 10 + *bases as u64 * (*classes as u64 * 2 + 6),
        LkSpec::Single { n, .. } => *n as u64 * 4,
        LkSpec::Cursive { n, .. } => *n as u64 * 10,
    }
}

fn compile_gposb(seed: u64, lookups: &[LkSpec], var: bool) -> Result<Vec<u8>, String> {
    use wt::gpos::builders::{AnchorBuilder, CursivePosBuilder, MarkToBaseBuilder, PairPosBuilder, SinglePosBuilder, ValueRecordBuilder};
    use wt::gpos::{Gpos, PositionLookup, PositionLookupList};
    use wt::layout::builders::{Builder, LookupBuilder};
    use wt::layout::{FeatureList, LookupFlag, ScriptList};
    let mut p = seed;
    let regs = ivs_regions(2, 5, &mut p);
    let mut vs = VariationStoreBuilder::new(2);
    let deltas = |p: &mut u64| -> Vec<(wt::variations::VariationRegion, i16)> {
        let k = 1 + below(p, 3) as usize;
        let first = below(p, 5) as usize;
        (0..k).map(|j| (regs[(first + j) % 5].clone(), [0i16, 1, -3, 20, 300][below(p, 5) as usize])).collect()
    };
    let anchor = |p: &mut u64, palette: u64| -> AnchorBuilder {
        let k = below(p, palette.max(1));
        let a = AnchorBuilder::new((k as i16).wrapping_mul(37) - 200, (k as i16).wrapping_mul(11) - 50);
        if var && k % 4 == 1 {
            let mut q = k.wrapping_mul(0x9E37_79B9_7F4A_7C15) | 1;
            a.with_x_device(deltas(&mut q))
        } else if k % 7 == 3 {
            a.with_contourpoint(k as u16)
        } else {
            a
        }
    };
    let mut out_lookups: Vec<PositionLookup> = vec![];
    for (li, l) in lookups.iter().enumerate() {
        let flag = LookupFlag::from_bits_truncate([0u16, 1, 8, 0x0100][li % 4]);
        match *l {
            LkSpec::Pair { firsts, seconds, keep, values, fmts, c1, c2 } => {
                let mut b = PairPosBuilder::default();
                let (nf, ns) = (firsts.min(600) as u64, seconds.min(200) as u64);
                let nval = values.max(1) as u64;
                let g0 = 10 + below(&mut p, 50);
                let value = |p: &mut u64, g1: u64| -> (ValueRecordBuilder, ValueRecordBuilder) {
                    let v = (below(p, nval) as i16).wrapping_mul(13) - 40;
                    let f = if fmts <= 1 { 0 } else { (g1 % fmts.min(4) as u64) as u8 };
                    let mut r1 = ValueRecordBuilder::new().with_x_advance(v);
                    let mut r2 = ValueRecordBuilder::new();
                    match f {
                        1 => r1 = r1.with_x_placement(v / 2),
                        2 => r2 = r2.with_x_advance(-v),
                        3 if var => {
                            let mut q = (v as u64).wrapping_mul(0x9E37_79B9_7F4A_7C15) | 1;
                            r1 = r1.with_x_advance_device(deltas(&mut q));
                        }
                        _ => {}
                    }
                    (r1, r2)
                };
                for i in 0..nf {
                    // consecutive firsts share the thinning pattern in blocks: identical pair sets
                    let mut q = seed ^ ((i / 3) << 20) ^ 0x5555;
                    for j in 0..ns {
                        if below(&mut q, 16) <= keep as u64 {
                            let mut pv = seed ^ ((i / 3) << 8) ^ j;
                            let (r1, r2) = value(&mut pv, i);
                            b.insert_pair(GlyphId16::new((g0 + i) as u16), r1, GlyphId16::new((g0 + j * 2) as u16), r2);
                        }
                    }
                }
                // class rules on disjoint classes
                let (k1, k2) = (c1.min(160) as u64, c2.min(160) as u64);
                let base = 2000 + below(&mut p, 100);
                let set1: Vec<IntSet<GlyphId16>> = (0..k1).map(|i| (0..(1 + i % 3)).map(|k| GlyphId16::new((base + i * 3 + k) as u16)).collect()).collect();
                let set2: Vec<IntSet<GlyphId16>> = (0..k2).map(|i| (0..(1 + (i + 1) % 3)).map(|k| GlyphId16::new((base + 1000 + i * 3 + k) as u16)).collect()).collect();
                let mut order: Vec<(usize, usize)> = (0..k1 as usize).flat_map(|i| (0..k2 as usize).map(move |j| (i, j))).collect();
                shuffle(&mut order, &mut p);
                for (i, j) in order {
                    if below(&mut p, 8) != 0 {
                        let (r1, r2) = value(&mut p, (i + j) as u64);
                        b.insert_classes(set1[i].clone(), r1, set2[j].clone(), r2);
                    }
                }
                if b.is_empty() {
                    b.insert_pair(GlyphId16::new(1), ValueRecordBuilder::new().with_x_advance(1), GlyphId16::new(2), ValueRecordBuilder::new());
                }
                let lk = LookupBuilder::<PairPosBuilder>::new_with_lookups(flag, None, vec![b]).build(&mut vs);
                out_lookups.push(PositionLookup::Pair(lk));
            }
            LkSpec::Mark { marks, bases, classes, anchors } => {
                let mut b = MarkToBaseBuilder::default();
                let ncls = classes.clamp(1, 14) as u64;
                let nm = marks.clamp(1, 4000) as u64;
                let mut order: Vec<u64> = (0..nm).collect();
                shuffle(&mut order, &mut p);
                for m in order {
                    // class names are first seen in a generated order (class ids follow first use)
                    let cls = (m * 7 + seed) % ncls;
                    let _ = b.insert_mark(GlyphId16::new((5000 + m) as u16), &format!("c{cls}"), anchor(&mut p, anchors as u64));
                }
                let seen: BTreeSet<u64> = (0..nm).map(|m| (m * 7 + seed) % ncls).collect();
                for g in 0..bases.min(6000) as u64 {
                    for cls in &seen {
                        if below(&mut p, 4) != 0 {
                            b.insert_base(GlyphId16::new((100 + g) as u16), &format!("c{cls}"), anchor(&mut p, anchors as u64));
                        }
                    }
                }
                let lk = LookupBuilder::<MarkToBaseBuilder>::new_with_lookups(flag, None, vec![b]).build(&mut vs);
                out_lookups.push(PositionLookup::MarkToBase(lk));
            }
            LkSpec::Single { n, values } => {
                let mut b = SinglePosBuilder::default();
                let nval = values.max(1) as u64;
                for g in 0..n.clamp(1, 3000) as u64 {
                    let k = below(&mut p, nval);
                    let v = (k as i16).wrapping_mul(9) - 30;
                    let r = match k % 4 {
                        0 => ValueRecordBuilder::new().with_x_advance(v),
                        1 => ValueRecordBuilder::new().with_x_placement(v).with_x_advance(v),
                        2 => ValueRecordBuilder::new().with_y_placement(v),
                        _ => ValueRecordBuilder::new().with_y_advance(v).with_x_placement(1),
                    };
                    b.insert(GlyphId16::new((300 + g * (1 + k % 2)) as u16), r);
                }
                let lk = LookupBuilder::<SinglePosBuilder>::new_with_lookups(flag, None, vec![b]).build(&mut vs);
                out_lookups.push(PositionLookup::Single(lk));
            }
            LkSpec::Cursive { n, anchors } => {
                let mut b = CursivePosBuilder::default();
                for g in 0..n.clamp(1, 3000) as u64 {
                    let entry = (below(&mut p, 4) != 0).then(|| anchor(&mut p, anchors as u64));
                    let exit = (below(&mut p, 4) != 0).then(|| anchor(&mut p, anchors as u64));
                    b.insert(GlyphId16::new((700 + g) as u16), entry, exit);
                }
                let lk = LookupBuilder::<CursivePosBuilder>::new_with_lookups(flag, None, vec![b]).build(&mut vs);
                out_lookups.push(PositionLookup::Cursive(lk));
            }
        }
    }
    let (store, remap) = vs.build();
    let mut gpos = Gpos::new(ScriptList::default(), FeatureList::default(), PositionLookupList::new(out_lookups));
    gpos.remap_variation_indices(&remap);
    let mut out = dump(&gpos)?;
    if var {
        let ivs = dump(&store)?;
        out.extend_from_slice(b"|IVS|");
        out.extend_from_slice(&ivs);
    }
    Ok(out)
}

// ---- corpus tables, FontBuilder, klippa ---------------------------------------------------------

thread_local! {
    /// where the bytes of a font live while a read-based recipe is compiled: false = a fresh allocation per
    /// compilation; true = this thread's long-lived buffer (every font at the same address, one after the other)
    static SHARED_PLACEMENT: std::cell::Cell<bool> = const { std::cell::Cell::new(false) };
    static SHARED_BUFFER: std::cell::RefCell<Vec<u8>> = const { std::cell::RefCell::new(Vec::new()) };
}
const SHARED_OFFSET: usize = 64;

fn rd16(d: &[u8], at: usize) -> Option<u16> {
    d.get(at..at + 2).map(|s| u16::from_be_bytes([s[0], s[1]]))
}
fn rd32(d: &[u8], at: usize) -> Option<u32> {
    d.get(at..at + 4).map(|s| u32::from_be_bytes([s[0], s[1], s[2], s[3]]))
}
fn wr16(d: &mut [u8], at: usize, v: u16) {
    if let Some(s) = d.get_mut(at..at + 2) {
        s.copy_from_slice(&v.to_be_bytes());
    }
}
fn wr32(d: &mut [u8], at: usize, v: u32) {
    if let Some(s) = d.get_mut(at..at + 4) {
        s.copy_from_slice(&v.to_be_bytes());
    }
}

/// Turn the font into a sibling: up to `edit` cmap segments / groups (formats 4 and 12) are moved up into the gap
/// behind them (idDelta adjusted, same glyphs), a few letters of the name storage are replaced. No length or offset
/// changes. Returns the code points that only the sibling maps.
fn apply_edits(data: &mut [u8], edit: u8, seed: u64) -> Vec<u32> {
    let mut moved = vec![];
    if edit == 0 {
        return moved;
    }
    let mut p = seed ^ 0xED17;
    let (mut cmap, mut name) = (None, None);
    if let Some(f) = font_ref(data) {
        for r in f.table_directory.table_records() {
            if r.tag() == Tag::new(b"cmap") {
                cmap = Some((r.offset() as usize, r.length() as usize));
            }
            if r.tag() == Tag::new(b"name") {
                name = Some((r.offset() as usize, r.length() as usize));
            }
        }
    }
    if let Some((base, _)) = cmap {
        let n = rd16(data, base + 2).unwrap_or(0) as usize;
        let subs: BTreeSet<usize> = (0..n).filter_map(|i| rd32(data, base + 4 + i * 8 + 4)).map(|o| base + o as usize).collect();
        for _ in 0..edit {
            for sub in &subs {
                match rd16(data, *sub) {
                    Some(4) => {
                        let segs = rd16(data, sub + 6).unwrap_or(0) as usize / 2;
                        if segs < 2 {
                            continue;
                        }
                        let i = below(&mut p, segs as u64 - 1) as usize;
                        let (e_at, s_at, d_at, r_at) = (sub + 14 + 2 * i, sub + 16 + 2 * segs + 2 * i, sub + 16 + 4 * segs + 2 * i, sub + 16 + 6 * segs + 2 * i);
                        let (Some(end), Some(start), Some(delta), Some(ro), Some(next)) = (rd16(data, e_at), rd16(data, s_at), rd16(data, d_at), rd16(data, r_at), rd16(data, s_at + 2)) else { continue };
                        if ro != 0 || start > end || next <= end.saturating_add(1) || end == 0xFFFF {
                            continue;
                        }
                        let gap = (next - end - 1) as u64;
                        let d = 1 + below(&mut p, gap.min(6)) as u16;
                        wr16(data, s_at, start + d);
                        wr16(data, e_at, end + d);
                        wr16(data, d_at, delta.wrapping_sub(d));
                        moved.extend((start + d..=end + d).take(16).map(|c| c as u32));
                    }
                    Some(12) => {
                        let groups = rd32(data, sub + 12).unwrap_or(0) as usize;
                        if groups < 2 {
                            continue;
                        }
                        let i = below(&mut p, groups as u64 - 1) as usize;
                        let at = sub + 16 + 12 * i;
                        let (Some(start), Some(end), Some(next)) = (rd32(data, at), rd32(data, at + 4), rd32(data, at + 12)) else { continue };
                        if start > end || next <= end.saturating_add(1) {
                            continue;
                        }
                        let gap = (next - end - 1) as u64;
                        let d = 1 + below(&mut p, gap.min(6)) as u32;
                        wr32(data, at, start + d);
                        wr32(data, at + 4, end + d);
                        moved.extend((start + d..=end + d).take(16));
                    }
                    _ => {}
                }
            }
        }
    }
    if let Some((base, len)) = name {
        let storage = base + rd16(data, base + 4).unwrap_or(0) as usize;
        let end = (base + len).min(data.len());
        if storage < end {
            for _ in 0..edit {
                let at = storage + below(&mut p, (end - storage) as u64) as usize;
                if data[at].is_ascii_lowercase() {
                    data[at] = b'a' + below(&mut p, 26) as u8;
                }
            }
        }
    }
    moved
}

/// Runs `f` on corpus font `fi` (or its sibling) with the font bytes placed according to SHARED_PLACEMENT.
fn with_font<R>(fi: usize, edit: u8, seed: u64, f: impl FnOnce(&FontRef<'_>, &[u32]) -> R) -> Result<R, String> {
    let src = &corpus().fonts[fi].data;
    if SHARED_PLACEMENT.with(|s| s.get()) {
        SHARED_BUFFER.with(|b| {
            let mut buf = b.borrow_mut();
            if buf.len() < SHARED_OFFSET + src.len() {
                buf.resize((SHARED_OFFSET + src.len()).max(1 << 20), 0);
            }
            let slot = &mut buf[SHARED_OFFSET..SHARED_OFFSET + src.len()];
            slot.copy_from_slice(src);
            let moved = apply_edits(slot, edit, seed);
            let font = font_ref(slot).ok_or("font does not open")?;
            Ok(f(&font, &moved))
        })
    } else {
        let mut fresh = src.clone();
        let moved = apply_edits(&mut fresh, edit, seed);
        let font = font_ref(&fresh).ok_or("font does not open")?;
        Ok(f(&font, &moved))
    }
}

/// the sibling of a read-based recipe (same recipe on the other revision of the font)
fn sibling_of(r: &Recipe) -> Option<Recipe> {
    let mut s = r.clone();
    match &mut s {
        Recipe::Owned { edit, .. } | Recipe::Font { edit, .. } | Recipe::Subset { edit, .. } => *edit = if *edit == 0 { 2 } else { 0 },
        _ => return None,
    }
    Some(s)
}

fn compile_owned(sel: u16, edit: u8, seed: u64) -> Result<Vec<u8>, String> {
    let c = corpus();
    let Some((fi, kind)) = pick(&c.owned, sel) else { return Err("no corpus table".into()) };
    with_font(fi, edit, seed, |font, _| compile_owned_table(font, kind))?
}

fn compile_owned_table(font: &FontRef<'_>, kind: u8) -> Result<Vec<u8>, String> {
    macro_rules! go {
        ($get:ident, $ty:ty) => {{
            let t: $ty = font.$get().map_err(errstr)?.to_owned_table();
            dump(&t)
        }};
    }
    match kind {
        0 => go!(gpos, wt::gpos::Gpos),
        1 => go!(gsub, wt::gsub::Gsub),
        2 => go!(gdef, wt::gdef::Gdef),
        3 => go!(name, wt::name::Name),
        4 => go!(stat, wt::stat::Stat),
        5 => go!(base, wt::base::Base),
        6 => go!(colr, wt::colr::Colr),
        7 => go!(cmap, wt::cmap::Cmap),
        8 => go!(hvar, wt::hvar::Hvar),
        _ => go!(mvar, wt::mvar::Mvar),
    }
}

fn compile_font(font: u16, tables: &[(u8, Vec<u32>)], raw: &[([u8; 4], Vec<u8>)], copy_first: bool, edit: u8) -> Result<Vec<u8>, String> {
    let c = corpus();
    let all: Vec<usize> = (0..c.fonts.len()).collect();
    let Some(fi) = pick(&all, font) else { return compile_font_with(None, tables, raw, copy_first) };
    if font_ref(&c.fonts[fi].data).is_none() {
        return compile_font_with(None, tables, raw, copy_first);
    }
    with_font(fi, edit, font as u64, |donor, _| compile_font_with(Some(donor.clone()), tables, raw, copy_first))?
}

fn compile_font_with(donor: Option<FontRef<'_>>, tables: &[(u8, Vec<u32>)], raw: &[([u8; 4], Vec<u8>)], copy_first: bool) -> Result<Vec<u8>, String> {
    let mut fb = FontBuilder::new();
    if let (true, Some(d)) = (copy_first, donor.as_ref()) {
        fb.copy_missing_tables(d.clone());
    }
    for (kind, tape) in tables {
        let mut t = Tape::new(tape);
        // a table that fails validation is left out (add_table reports it)
        let _ = match kind % 7 {
            0 => fb.add_table(&b_gsub(&mut t)).map(|_| ()),
            1 => fb.add_table(&b_gpos(&mut t)).map(|_| ()),
            2 => fb.add_table(&b_gdef(&mut t)).map(|_| ()),
            3 => fb.add_table(&b_name(&mut t)).map(|_| ()),
            4 => fb.add_table(&b_stat(&mut t)).map(|_| ()),
            5 => fb.add_table(&b_base(&mut t)).map(|_| ()),
            _ => fb.add_table(&b_colr(&mut t)).map(|_| ()),
        };
    }
    for (tag, data) in raw {
        fb.add_raw(Tag::from_be_bytes(*tag), data.clone());
    }
    if let (false, Some(d)) = (copy_first, donor.as_ref()) {
        fb.copy_missing_tables(d.clone());
    }
    Ok(fb.build())
}

const SUBSET_FLAG_BITS: [u16; 6] = [0x0001, 0x0002, 0x0008, 0x0010, 0x0040, 0x0080];
const DEFAULT_DROP: &[&[u8; 4]] = &[b"morx", b"mort", b"kerx", b"kern", b"JSTF", b"DSIG", b"EBDT", b"EBLC", b"EBSC", b"SVG ", b"PCLT", b"LTSH", b"Feat", b"Glat", b"Gloc", b"Silf", b"Sill"];
const EXTRA_DROP: &[&[u8; 4]] = &[b"GSUB", b"GPOS", b"GDEF", b"gvar", b"HVAR", b"COLR", b"name", b"post"];

#[allow(clippy::too_many_arguments)]
fn compile_subset(font: u16, seed: u64, keep: u8, flags: u16, gids: u8, drop: u8, all_features: bool, edit: u8) -> Result<Vec<u8>, String> {
    let c = corpus();
    let Some(fi) = pick(&c.subsettable, font) else { return Err("no subsettable font".into()) };
    with_font(fi, edit, seed, |f, moved| subset_with(f, moved, seed, keep, flags, gids, drop, all_features))?
}

#[allow(clippy::too_many_arguments)]
fn subset_with(f: &FontRef<'_>, moved: &[u32], seed: u64, keep: u8, flags: u16, gids: u8, drop: u8, all_features: bool) -> Result<Vec<u8>, String> {
    use skrifa::MetadataProvider;
    let mut p = seed;
    let mut unicodes = IntSet::<u32>::empty();
    // the code points that only this revision of the font maps are always requested
    for cp in moved {
        unicodes.insert(*cp);
    }
    for (cp, _) in f.charmap().mappings() {
        if below(&mut p, 64) < keep as u64 {
            unicodes.insert(cp);
        }
    }
    let ng = f.maxp().map(|m| m.num_glyphs()).unwrap_or(1) as u64;
    let mut glyphs = IntSet::<GlyphId>::empty();
    for _ in 0..gids {
        glyphs.insert(GlyphId::new(below(&mut p, ng) as u32));
    }
    let mut bits = 0u16;
    for (i, b) in SUBSET_FLAG_BITS.iter().enumerate() {
        if flags & (1 << i) != 0 {
            bits |= b;
        }
    }
    let mut drop_tables: IntSet<Tag> = DEFAULT_DROP.iter().map(|t| Tag::new(t)).collect();
    for (i, t) in EXTRA_DROP.iter().enumerate() {
        if drop & (1 << i) != 0 {
            drop_tables.insert(Tag::new(t));
        }
    }
    let mut scripts = IntSet::<Tag>::empty();
    scripts.invert();
    let mut features = IntSet::<Tag>::empty();
    if all_features {
        features.invert();
    } else {
        features.extend(klippa::DEFAULT_LAYOUT_FEATURES.iter().copied());
    }
    let mut name_ids = IntSet::<NameId>::empty();
    name_ids.insert_range(NameId::from(0)..=NameId::from(6));
    let mut langs = IntSet::<u16>::empty();
    langs.insert(0x0409);
    let plan = klippa::Plan::new(&glyphs, &unicodes, f, klippa::SubsetFlags::from(bits), &drop_tables, &scripts, &features, &name_ids, &langs);
    klippa::subset_font(f, &plan).map_err(|e| format!("{e:?}").chars().take(200).collect())
}

// ---- dispatcher ---------------------------------------------------------------------------------

fn compile_inner(r: &Recipe) -> Result<Vec<u8>, String> {
    match r {
        Recipe::Tape { kind, big, tape } => compile_tape(*kind, *big, tape),
        Recipe::Ivs { axes, regions, rows, patterns, seed, direct } => compile_ivs(*axes, *regions, *rows, *patterns, *seed, *direct),
        Recipe::Gvar { axes, glyphs, tuples, seed } => compile_gvar(*axes, *glyphs, *tuples, *seed),
        Recipe::GposB { seed, lookups, var } => compile_gposb(*seed, lookups, *var),
        Recipe::EqualLk { k, rows, cols, lead } => compile_equal_lookups(*k, *rows, *cols, *lead),
        Recipe::Dag(d) => {
            if !d.well_formed() {
                return Err("malformed graph spec".into());
            }
            if dag_public_ok(d) {
                dump(&PubNode { dag: d, i: 0 })
            } else {
                compile_mock(d)
            }
        }
        Recipe::Mock(d) => {
            if !d.well_formed() {
                return Err("malformed graph spec".into());
            }
            compile_mock(d)
        }
        Recipe::Owned { sel, edit, seed } => compile_owned(*sel, *edit, *seed),
        Recipe::Font { font, tables, raw, copy_first, edit } => compile_font(*font, tables, raw, *copy_first, *edit),
        Recipe::Subset { font, seed, keep, flags, gids, drop, all_features, edit } => compile_subset(*font, *seed, *keep, *flags, *gids, *drop, *all_features, *edit),
    }
}

fn compile(r: &Recipe) -> Outcome {
    match guarded(|| compile_inner(r)) {
        Ok(Ok(b)) => Outcome::Bytes(b),
        Ok(Err(e)) => Outcome::Error(e),
        Err(f) => Outcome::Panic(f.sig),
    }
}

// =================================================================================================
// non-triviality (approximated through output features; see the rule text in main)

struct Feat {
    nontrivial: bool,
    tags: Vec<&'static str>,
}

fn be16(b: &[u8], at: usize) -> Option<u16> {
    b.get(at..at + 2).map(|s| u16::from_be_bytes([s[0], s[1]]))
}

/// GPOS/GSUB header walk: (lookup count, subtable count, number of extension lookups)
fn layout_shape(b: &[u8], ext_type: u16) -> Option<(usize, usize, usize)> {
    let ll = be16(b, 8)? as usize;
    let n = be16(b, ll)? as usize;
    let (mut subs, mut ext) = (0usize, 0usize);
    for i in 0..n {
        let lo = ll + be16(b, ll + 2 + i * 2)? as usize;
        let ty = be16(b, lo)?;
        subs += be16(b, lo + 4)? as usize;
        if ty == ext_type {
            ext += 1;
        }
    }
    Some((n, subs, ext))
}

fn features(r: &Recipe, out: &Outcome, ids: usize) -> Feat {
    let mut tags: Vec<&'static str> = vec![];
    let Outcome::Bytes(bytes) = out else {
        return Feat { nontrivial: false, tags: vec![if matches!(out, Outcome::Error(_)) { "outcome:error" } else { "outcome:panic" }] };
    };
    let mut nt = false;
    match r {
        Recipe::Ivs { axes, regions, rows, patterns, seed, direct } => {
            let plan = ivs_plan(*axes, *regions, *rows, *patterns, *seed);
            let shapes: BTreeSet<Vec<(usize, u8)>> = plan
                .rows
                .iter()
                .map(|row| {
                    let mut s: Vec<(usize, u8)> = row.iter().filter(|(_, d)| *d != 0).map(|(i, d)| (*i, if (-128..128).contains(d) { 1u8 } else if (-32768..32768).contains(d) { 2 } else { 4 })).collect();
                    s.sort();
                    s
                })
                .collect();
            let distinct: BTreeSet<Vec<(usize, i32)>> = plan
                .rows
                .iter()
                .map(|row| {
                    let mut s: Vec<(usize, i32)> = row.iter().filter(|(_, d)| *d != 0).cloned().collect();
                    s.sort();
                    s
                })
                .collect();
            if let Ok(store) = read_fonts::tables::variations::ItemVariationStore::read(FontData::new(bytes)) {
                let subtables = store.item_variation_data_count() as usize;
                let regions_out = store.variation_region_list().map(|l| l.region_count() as usize).unwrap_or(0);
                if !*direct && subtables < shapes.len() && subtables > 0 {
                    tags.push("ivs:row-shapes-merged");
                    nt = true;
                }
                if !*direct && distinct.len() < plan.rows.len() {
                    tags.push("ivs:rows-deduplicated");
                    nt |= plan.rows.len() >= 2 && regions_out >= 2;
                }
                if regions_out >= 2 && plan.rows.len() >= 2 {
                    tags.push("ivs:>=2-regions");
                    nt |= *direct;
                }
                if subtables >= 2 {
                    tags.push("ivs:>=2-subtables");
                }
            }
        }
        Recipe::Gvar { axes, glyphs, tuples, seed } => {
            let (_, _, tie) = gvar_input(*axes, *glyphs, *tuples, *seed);
            if let Ok(g) = read_fonts::tables::gvar::Gvar::read(FontData::new(bytes)) {
                if g.shared_tuple_count() >= 1 {
                    tags.push("gvar:shared-tuples");
                    nt = true;
                }
                if g.shared_tuple_count() >= 2 && tie {
                    tags.push("gvar:tie-between-shared-tuple-counts");
                }
            }
        }
        Recipe::GposB { lookups, .. } => {
            if let Some((n, subs, ext)) = layout_shape(bytes, 9) {
                if ext > 0 {
                    tags.push("gpos:extension-promotion");
                }
                if subs > n {
                    tags.push("gpos:several-subtables");
                }
                let _ = lookups;
            }
            let gpos_len = bytes.windows(5).position(|w| w == b"|IVS|").unwrap_or(bytes.len());
            if gpos_len > 65_535 {
                tags.push("gpos:>64K(overflow-resolution)");
            }
            nt = ids >= 4;
        }
        Recipe::EqualLk { .. } => {
            if let Some((_, _, ext)) = layout_shape(bytes, 9) {
                if ext > 0 {
                    tags.push("gpos-equal:extension-promotion");
                    nt = true;
                }
            }
            if bytes.len() > 65_535 {
                tags.push("gpos-equal:>64K");
            }
        }
        Recipe::Dag(d) | Recipe::Mock(d) => {
            let total = d.total_len();
            if total > 65_535 {
                tags.push("graph:>64K(overflow-resolution)");
                nt = true;
            }
            if d.has_ties() {
                tags.push("graph:siblings-of-equal-length");
                nt = true;
            }
            if d.has_shared() {
                tags.push("graph:shared-node");
            }
            let hook = matches!(r, Recipe::Mock(_)) || !dag_public_ok(d);
            // hook: one id per node, then one per duplicate; public: deduplication can only shrink the output
            if (hook && ids > d.nodes.len()) || (!hook && bytes.len() > total) {
                tags.push("graph:node-duplicated");
                nt = true;
            }
            if d.roots > 0 {
                tags.push("graph:has-32bit-space");
            }
        }
        Recipe::Tape { kind, .. } => {
            nt = ids >= 4;
            if matches!(kind % 8, 0 | 1) {
                if let Some((n, _, _)) = layout_shape(bytes, if kind % 8 == 0 { 7 } else { 9 }) {
                    if n >= 4 {
                        tags.push("table:>=4-lookups");
                    }
                }
            }
        }
        Recipe::Owned { .. } | Recipe::Font { .. } => nt = ids >= 4,
        Recipe::Subset { .. } => {
            // klippa has its own serializer (no write-fonts object ids): non-trivial when the subset keeps a table
            // that goes through its object packer with deduplication
            if let Some(f) = font_ref(bytes) {
                let kept = [b"GSUB", b"GPOS", b"GDEF", b"gvar", b"HVAR", b"COLR"].iter().filter(|t| f.table_data(Tag::new(t)).is_some()).count();
                if kept > 0 {
                    tags.push("subset:keeps-layout-or-variation-table");
                    nt = true;
                }
            }
        }
    }
    if ids >= 4 {
        tags.push("ids>=4");
    }
    if ids >= 100 {
        tags.push("ids>=100");
    }
    if ids >= 1000 {
        tags.push("ids>=1000");
    }
    Feat { nontrivial: nt, tags }
}

// =================================================================================================
// strategies

fn word() -> impl Strategy<Value = u32> {
    prop_oneof![1 => Just(0u32), 1 => Just(u32::MAX), 10 => any::<u32>()]
}

fn tape_recipe(big: bool) -> BoxedStrategy<Recipe> {
    if big {
        (0u8..2, proptest::collection::vec(word(), 200..2500)).prop_map(|(kind, tape)| Recipe::Tape { kind, big: true, tape }).boxed()
    } else {
        (0u8..8, proptest::collection::vec(word(), 0..480)).prop_map(|(kind, tape)| Recipe::Tape { kind, big: false, tape }).boxed()
    }
}

fn ivs_recipe(small: bool) -> BoxedStrategy<Recipe> {
    let rows = if small { (1u16..40).boxed() } else { prop_oneof![3 => 1u16..60, 3 => 60u16..600, 1 => 600u16..2500].boxed() };
    (1u8..=4, 1u8..=14, rows, 1u8..=8, any::<u64>(), prop_oneof![5 => Just(false), 1 => Just(true)])
        .prop_map(|(axes, regions, rows, patterns, seed, direct)| Recipe::Ivs { axes, regions, rows, patterns, seed, direct })
        .boxed()
}

fn gvar_recipe(small: bool) -> BoxedStrategy<Recipe> {
    let glyphs = if small { (1u8..8).boxed() } else { (1u8..=60).boxed() };
    (1u8..=3, glyphs, 1u8..=8, any::<u64>()).prop_map(|(axes, glyphs, tuples, seed)| Recipe::Gvar { axes, glyphs, tuples, seed }).boxed()
}

/// size classes: 0 small, 1 around a quarter of 64K, 2 larger than 64K on its own
fn lk_spec(size: u8) -> BoxedStrategy<LkSpec> {
    let pair = match size {
        0 => (1u16..12, 1u16..8, 0u8..16, 1u8..6, 1u8..5, 0u8..5, 0u8..5).boxed(),
        1 => (40u16..120, 20u16..60, 6u8..16, 1u8..40, 1u8..5, 0u8..40, 0u8..40).boxed(),
        _ => (150u16..500, 60u16..160, 10u8..16, 2u8..80, 1u8..5, 0u8..160, 0u8..160).boxed(),
    }
    .prop_map(|(firsts, seconds, keep, values, fmts, c1, c2)| LkSpec::Pair { firsts, seconds, keep, values, fmts, c1, c2 });
    let mark = match size {
        0 => (1u16..10, 0u16..10, 1u8..4, 1u8..8).boxed(),
        1 => (50u16..400, 100u16..500, 1u8..8, 1u8..60).boxed(),
        _ => (200u16..1500, 1500u16..4000, 6u8..14, 4u8..200).boxed(),
    }
    .prop_map(|(marks, bases, classes, anchors)| LkSpec::Mark { marks, bases, classes, anchors });
    let single = match size {
        0 => (1u16..30, 1u8..12).boxed(),
        _ => (100u16..2500, 1u8..60).boxed(),
    }
    .prop_map(|(n, values)| LkSpec::Single { n, values });
    let cursive = match size {
        0 => (1u16..20, 1u8..10).boxed(),
        _ => (100u16..2000, 2u8..100).boxed(),
    }
    .prop_map(|(n, anchors)| LkSpec::Cursive { n, anchors });
    prop_oneof![4 => pair, 3 => mark, 2 => single, 1 => cursive].boxed()
}

fn gposb_recipe(small: bool) -> BoxedStrategy<Recipe> {
    let lookups = if small {
        proptest::collection::vec(lk_spec(0), 1..4).boxed()
    } else {
        prop_oneof![
            3 => proptest::collection::vec(lk_spec(0), 1..6),
            3 => proptest::collection::vec(prop_oneof![2 => lk_spec(0), 3 => lk_spec(1)], 2..7),
            4 => proptest::collection::vec(prop_oneof![2 => lk_spec(0), 2 => lk_spec(1), 3 => lk_spec(2)], 1..5),
        ]
        .boxed()
    };
    (any::<u64>(), lookups, any::<bool>()).prop_map(|(seed, lookups, var)| Recipe::GposB { seed, lookups, var }).boxed()
}

#[derive(Clone, Debug)]
struct RawNode {
    size: u32,
    lead: u16,
    wide: bool,
    parent: u16,
    extra: Vec<u16>,
    twin: Option<u16>,
}

fn dag_sizes(small: bool) -> BoxedStrategy<u32> {
    if small {
        prop_oneof![3 => Just(8u32), 2 => Just(16u32), 3 => 8u32..64].boxed()
    } else {
        prop_oneof![
            20 => Just(8u32), 14 => Just(16u32), 34 => 8u32..64, 12 => 500u32..3000,
            5 => Just(20_000u32), 9 => 15_000u32..33_000, 3 => 60_000u32..66_000, 2 => Just(32_768u32),
        ]
        .boxed()
    }
}

fn raw_node(small: bool) -> impl Strategy<Value = RawNode> {
    (dag_sizes(small), any::<u16>(), prop_oneof![5 => Just(false), 1 => Just(true)], any::<u16>(), proptest::collection::vec(any::<u16>(), 0..4), prop_oneof![4 => Just(None), 1 => any::<u16>().prop_map(Some)])
        .prop_map(|(size, lead, wide, parent, extra, twin)| RawNode { size, lead, wide, parent, extra, twin })
}

const BIG_NODE: u32 = 4000;

fn finish_dag(raw: Vec<RawNode>, nu: usize, nr: usize, order: u8, salt: u32) -> Dag {
    let n = raw.len();
    let nu = nu.clamp(1, n);
    let nr = nr.min(n - nu);
    let first_lower = nu + nr;
    let zone = |i: usize| if i < nu { 0 } else if i < first_lower { 1 } else { 2 };
    let mut nodes: Vec<DNode> = raw
        .iter()
        .enumerate()
        .map(|(i, r)| DNode { size: r.size.max(8), lead: (r.lead as u32 * (r.size.max(8) + 1)) >> 16, stamp: salt.wrapping_mul(64).wrapping_add(i as u32), w: if zone(i) == 1 { 4 } else if r.wide { 3 } else { 2 }, links: vec![] })
        .collect();
    nodes[0].size = nodes[0].size.min(64);
    nodes[0].lead = nodes[0].lead.min(nodes[0].size);
    // twins: a leaf copying the content (and the incoming width) of an earlier node of the same zone
    let mut is_twin = vec![false; n];
    for i in 1..n {
        if let Some(t) = raw[i].twin {
            let lo = match zone(i) {
                0 => 1,
                1 => nu,
                _ => first_lower,
            };
            if i > lo {
                let k = lo + (t as usize * (i - lo) >> 16);
                if !is_twin[k] {
                    nodes[i].size = nodes[k].size;
                    nodes[i].stamp = nodes[k].stamp;
                    nodes[i].lead = nodes[i].size;
                    nodes[i].w = nodes[k].w;
                    is_twin[i] = true;
                }
            }
        }
    }
    for j in 1..n {
        // compulsory parent
        let parent = match zone(j) {
            0 => (raw[j].parent as usize * j) >> 16,
            1 => (raw[j].parent as usize * nu) >> 16,
            _ => (raw[j].parent as usize * j) >> 16,
        };
        // twins are leaves; so are big nodes (a 16-bit link out of a node of >= 64K can never be resolved, and chains
        // of big nodes rarely can)
        let parent = if is_twin[parent] || nodes[parent].size > BIG_NODE { 0 } else { parent };
        nodes[parent].links.push(j as u32);
    }
    for i in 0..n {
        if is_twin[i] || nodes[i].size > BIG_NODE {
            continue;
        }
        let lo = if zone(i) == 0 { i + 1 } else { first_lower.max(i + 1) };
        if lo >= n {
            continue;
        }
        for e in &raw[i].extra {
            let t = lo + ((*e as usize * (n - lo)) >> 16);
            if nodes[i].links.len() < 8 {
                nodes[i].links.push(t as u32);
            }
        }
    }
    // a node whose twin original has links is no longer content-equal; that is fine (it simply is no twin then)
    Dag { nodes, upper: nu as u32, roots: nr as u32, order }
}

/// structured family: 1..3 groups of 2..3 space roots (32-bit links from the root or an upper node); the roots of a
/// group share a small node (so they are one space) and own 1..3 big leaves each, so that a group overflows and half
/// of its roots must be moved to a new space (several groups: several spaces are isolated in one round)
fn spaces_family() -> BoxedStrategy<Dag> {
    let root_spec = (proptest::collection::vec(prop_oneof![3 => 30_000u32..33_000, 2 => 20_000u32..30_000, 1 => 8u32..64], 1..4), any::<bool>());
    // (roots, size of the shared node, big leaves owned by the shared node, shared node also linked from the root)
    let group = (proptest::collection::vec(root_spec, 2..4), 8u32..40, proptest::collection::vec(prop_oneof![2 => 28_000u32..33_000, 1 => 8u32..64], 0..3), any::<bool>());
    // twins module: 2..3 nodes of EQUAL length that are children of both a 16-bit parent `e` (space 0) and a 32-bit
    // space root `w`, so they and everything below them are duplicated into w's space; they tie on distance, and
    // they reach a shared grandchild `n` through chains of different length and own leaves of different sizes, so the
    // layout below them shows how the tie was broken. (chain length to n, size of the chain nodes, own leaf)
    let mid = (0u8..3, 8u32..14, prop_oneof![1 => Just(None), 2 => (8u32..20).prop_map(Some)]);
    let twins = prop_oneof![1 => Just(None), 3 => (16u32..40, proptest::collection::vec(mid, 2..4), 8u32..16, any::<bool>(), any::<bool>()).prop_map(Some)];
    (proptest::collection::vec(group, 1..4), 0usize..3, 0u8..2, any::<u32>(), any::<u16>(), twins)
        .prop_map(|(groups, n_upper, order, salt, via, twins)| {
            let mut nodes: Vec<DNode> = vec![];
            let mut stamp = salt.wrapping_mul(64);
            let mut mk = |size: u32, w: u8, nodes: &mut Vec<DNode>| {
                stamp = stamp.wrapping_add(1);
                nodes.push(DNode { size: size.max(8), lead: 4, stamp, w, links: vec![] });
                nodes.len() - 1
            };
            mk(12, 2, &mut nodes);
            for _ in 0..n_upper {
                let u = mk(10, 2, &mut nodes);
                nodes[0].links.push(u as u32);
            }
            let twin_e = twins.as_ref().map(|_| {
                let e = mk(10, 2, &mut nodes);
                nodes[0].links.push(e as u32);
                e
            });
            let upper = nodes.len();
            // space roots
            let mut root_idx: Vec<Vec<usize>> = vec![];
            let mut k = 0usize;
            for (roots, _, _, _) in &groups {
                let mut v = vec![];
                for _ in roots {
                    let r = mk(16, 4, &mut nodes);
                    // linked from the root or from one of the upper nodes
                    let from = if upper > 1 && (via >> (k % 16)) & 1 == 1 { 1 + k % (upper - 1) } else { 0 };
                    nodes[from].links.push(r as u32);
                    v.push(r);
                    k += 1;
                }
                root_idx.push(v);
            }
            let twin_w = twins.as_ref().map(|t| {
                let w = mk(12, 4, &mut nodes);
                let from = if t.3 && upper > 2 { 1 } else { 0 };
                nodes[from].links.push(w as u32);
                w
            });
            let nroots = nodes.len() - upper;
            if let (Some((t, mids, n_size, _, n_from_root)), Some(e), Some(w)) = (twins.as_ref(), twin_e, twin_w) {
                // lower nodes in index order: mids, chain nodes, leaves, n
                let mid_idx: Vec<usize> = mids.iter().map(|_| mk(8, 2, &mut nodes)).collect();
                let mut chain_heads: Vec<Option<(usize, usize)>> = vec![];
                for (chain, m_size, _) in mids {
                    let mut head_tail = None;
                    for k in 0..*chain {
                        let m = mk(*m_size + k as u32, 2, &mut nodes);
                        head_tail = match head_tail {
                            None => Some((m, m)),
                            Some((h, tail)) => {
                                nodes[tail].links.push(m as u32);
                                Some((h, m))
                            }
                        };
                    }
                    chain_heads.push(head_tail);
                }
                let leaves: Vec<Option<usize>> = mids.iter().map(|(_, _, z)| z.map(|size| mk(size, 2, &mut nodes))).collect();
                let n = mk(*n_size, 2, &mut nodes);
                for (i, m) in mid_idx.iter().enumerate() {
                    match chain_heads[i] {
                        Some((h, tail)) => {
                            nodes[*m].links.push(h as u32);
                            nodes[tail].links.push(n as u32);
                        }
                        None => nodes[*m].links.push(n as u32),
                    }
                    if let Some(z) = leaves[i] {
                        nodes[*m].links.push(z as u32);
                    }
                    // equal total length: payload + 2 bytes per link = t
                    nodes[*m].size = (*t).max(12) - 2 * nodes[*m].links.len() as u32;
                    nodes[e].links.push(*m as u32);
                    nodes[w].links.push(*m as u32);
                }
                if *n_from_root {
                    nodes[0].links.push(n as u32);
                }
            }
            for (gi, (roots, shared_size, shared_leaves, from_upper)) in groups.iter().enumerate() {
                let shared = mk(*shared_size, 2, &mut nodes);
                for size in shared_leaves {
                    // an overflow below the shared node: which root of the space it is attributed to must not depend
                    // on the order of the shared node's parent list
                    let leaf = mk(*size, 2, &mut nodes);
                    nodes[shared].links.push(leaf as u32);
                }
                for r in &root_idx[gi] {
                    nodes[*r].links.push(shared as u32);
                }
                if *from_upper {
                    // also reachable through 16-bit links: must be duplicated into the space
                    nodes[0].links.push(shared as u32);
                }
                for (ri, (leaves, twin)) in roots.iter().enumerate() {
                    for (li, size) in leaves.iter().enumerate() {
                        let leaf = mk(*size, 2, &mut nodes);
                        if *twin && li > 0 {
                            // same content as the previous leaf: one object on the public route
                            let prev = nodes[leaf - 1].clone();
                            nodes[leaf].size = prev.size;
                            nodes[leaf].stamp = prev.stamp;
                        }
                        nodes[root_idx[gi][ri]].links.push(leaf as u32);
                    }
                }
            }
            for n in nodes.iter_mut() {
                n.lead = n.lead.min(n.size);
            }
            Dag { nodes, upper: upper as u32, roots: nroots as u32, order }
        })
        .boxed()
}

fn dag_strategy(small: bool) -> BoxedStrategy<Dag> {
    let n = if small { 2usize..8 } else { 2usize..26 };
    let random = (proptest::collection::vec(raw_node(small), n), 1usize..8, prop_oneof![2 => Just(0usize), 3 => 1usize..6], 0u8..2, any::<u32>()).prop_map(|(raw, nu, nr, order, salt)| finish_dag(raw, nu, nr, order, salt));
    if small {
        random.boxed()
    } else {
        prop_oneof![3 => random, 1 => spaces_family()].boxed()
    }
}

fn edit_strategy() -> BoxedStrategy<u8> {
    prop_oneof![2 => Just(0u8), 3 => 1u8..6].boxed()
}

fn owned_recipe() -> BoxedStrategy<Recipe> {
    (any::<u16>(), edit_strategy(), any::<u64>()).prop_map(|(sel, edit, seed)| Recipe::Owned { sel, edit, seed }).boxed()
}

fn font_recipe() -> BoxedStrategy<Recipe> {
    let tag = prop_oneof![Just(*b"head"), Just(*b"zzzz"), Just(*b"DSIG"), Just(*b"glyf"), (b'a'..=b'z', b'a'..=b'z').prop_map(|(a, b)| [a, b, b' ', b' '])];
    (
        any::<u16>(),
        proptest::collection::vec((0u8..7, proptest::collection::vec(word(), 0..300)), 0..4),
        proptest::collection::vec((tag, proptest::collection::vec(any::<u8>(), 0..40)), 0..4),
        any::<bool>(),
        edit_strategy(),
    )
        .prop_map(|(font, tables, raw, copy_first, edit)| Recipe::Font { font, tables, raw, copy_first, edit })
        .boxed()
}

fn subset_recipe() -> BoxedStrategy<Recipe> {
    (any::<u16>(), any::<u64>(), prop_oneof![2 => 1u8..8, 3 => 8u8..40, 1 => Just(64u8)], prop_oneof![2 => Just(0u16), 3 => 0u16..64], 0u8..6, prop_oneof![3 => Just(0u8), 2 => any::<u8>()], prop_oneof![3 => Just(false), 1 => Just(true)], edit_strategy())
        .prop_map(|(font, seed, keep, flags, gids, drop, all_features, edit)| Recipe::Subset { font, seed, keep, flags, gids, drop, all_features, edit })
        .boxed()
}

/// the pool of values whose compilation is compared
fn value_recipe() -> BoxedStrategy<Recipe> {
    prop_oneof![
        18 => tape_recipe(false),
        10 => tape_recipe(true),
        12 => ivs_recipe(false),
        10 => gvar_recipe(false),
        8 => gposb_recipe(false),
        3 => equal_lk_recipe(),
        14 => dag_strategy(false).prop_map(Recipe::Dag),
        10 => dag_strategy(false).prop_map(Recipe::Mock),
        7 => owned_recipe(),
        4 => font_recipe(),
        4 => subset_recipe(),
    ]
    .boxed()
}

/// unrelated work executed between two compilations of the value
fn cheap_recipe() -> BoxedStrategy<Recipe> {
    prop_oneof![
        5 => tape_recipe(false),
        2 => ivs_recipe(true),
        2 => gvar_recipe(true),
        1 => gposb_recipe(true),
        3 => dag_strategy(true).prop_map(Recipe::Dag),
        2 => dag_strategy(true).prop_map(Recipe::Mock),
    ]
    .boxed()
}

// ---- id-gap plans -------------------------------------------------------------------------------

#[derive(Clone, Debug, Serialize, Deserialize)]
struct GapPlan {
    /// gap in front of the first object id
    first: u64,
    /// (ids to advance, gap in front of that id)
    steps: Vec<(u16, u64)>,
    /// continue from the start when the steps run past the last id
    wrap: bool,
}

fn gap_value() -> BoxedStrategy<u64> {
    prop_oneof![
        8 => 0u64..8,
        6 => 1u64..1000,
        4 => 0u64..(1u64 << 33),
        4 => (0u64..16).prop_map(|k| (1u64 << 32) - 8 + k),
        2 => (0u64..16).prop_map(|k| (1u64 << 31) - 8 + k),
        1 => (1u64 << 33)..(1u64 << 40),
    ]
    .boxed()
}

fn gap_plan() -> BoxedStrategy<GapPlan> {
    let skip = prop_oneof![5 => Just(1u16), 3 => 1u16..8, 1 => 1u16..2000];
    (gap_value(), proptest::collection::vec((skip, gap_value()), 0..300), any::<bool>()).prop_map(|(first, steps, wrap)| GapPlan { first, steps, wrap }).boxed()
}

/// total id space the gap plans of this process may consume (the counter is a u64 that must never wrap: a wrap
/// would be a schedule no real execution can produce)
static GAP_SPENT: AtomicU64 = AtomicU64::new(0);
const GAP_BUDGET: u64 = 1 << 62;

fn expand_plan(plan: &GapPlan, n: usize) -> (Vec<u64>, usize) {
    let mut dense = vec![0u64; n];
    if n == 0 {
        return (dense, 0);
    }
    dense[0] = plan.first;
    let mut pos = 0usize;
    for (skip, gap) in &plan.steps {
        pos += *skip as usize;
        if pos >= n {
            if !plan.wrap {
                break;
            }
            pos %= n;
        }
        dense[pos] = dense[pos].saturating_add(*gap).min(1 << 41);
    }
    let total = dense.iter().fold(0u64, |a, b| a.saturating_add(*b));
    let spent = GAP_SPENT.fetch_add(total, Ordering::Relaxed);
    if spent.saturating_add(total) > GAP_BUDGET {
        for g in dense.iter_mut() {
            *g %= 1 << 12;
        }
    }
    let nonzero = dense.iter().filter(|g| **g != 0).count();
    (dense, nonzero)
}

// =================================================================================================
// stage `schedule`

#[derive(Clone, Debug, Serialize, Deserialize)]
struct SchedCase {
    value: Recipe,
    /// unrelated compilations executed before the value is compiled again
    prior: Vec<Recipe>,
    plans: Vec<GapPlan>,
}

fn sched_strategy() -> impl Strategy<Value = SchedCase> {
    (value_recipe(), proptest::collection::vec(cheap_recipe(), 0..4), proptest::collection::vec(gap_plan(), 1..4)).prop_map(|(value, prior, plans)| SchedCase { value, prior, plans })
}

const ID_PROBE: usize = 1 << 17;

fn fail(pred: &str, r: &Recipe, msg: String) -> Fail {
    Fail::new(format!("c07|{pred}|{}", kind_name(r)), msg)
}

thread_local! {
    /// work units spent on this shard thread since its first failure (0 = no failure yet)
    static AFTER_FAIL: std::cell::Cell<u64> = const { std::cell::Cell::new(0) };
    static LAST_COST: std::cell::Cell<u64> = const { std::cell::Cell::new(1) };
}
const SHRINK_UNITS: u64 = 160;
const REPLAY_REPEATS: u32 = 24;

/// A shard stops generating at its first violation, so every later call on that thread is a shrink step. Shrinking is
/// given a fixed amount of work (units = evaluations weighted by output size, nothing timed); beyond it the steps
/// answer "passes", which ends the search at the smallest failing case found so far.
fn test_sched_budgeted(c: &SchedCase, stats: &Stats, replay: bool) -> CaseResult {
    if replay {
        // hash-order leaks reproduce with a probability per recomputation (every map instance has its own seed):
        // a stored case is evaluated repeatedly
        for _ in 0..REPLAY_REPEATS {
            test_sched(c, stats)?;
        }
        return Ok(());
    }
    let spent = AFTER_FAIL.with(|a| a.get());
    if spent > SHRINK_UNITS {
        return Ok(());
    }
    let r = test_sched(c, stats);
    if spent > 0 || r.is_err() {
        AFTER_FAIL.with(|a| a.set(spent + LAST_COST.with(|c| c.get())));
    }
    r
}

fn test_sched(c: &SchedCase, stats: &Stats) -> CaseResult {
    let kind = kind_name(&c.value);
    push_id_gaps(vec![]);
    SHARED_PLACEMENT.with(|s| s.set(false));
    // (a) reference
    let reference = compile(&c.value);
    LAST_COST.with(|k| k.set(1 + reference.digest().1 / 20_000));
    // repeat, counting the object ids the compilation allocates (a queue of zero gaps changes nothing)
    push_id_gaps(vec![0; ID_PROBE]);
    let again = compile(&c.value);
    let ids = ID_PROBE - pending_id_gaps();
    push_id_gaps(vec![]);
    stats.evals(1);
    if again != reference {
        return Err(fail("repeat", &c.value, format!("compiling the same {kind} value twice in a row on one thread gave different results: {}", diff_msg(&reference, &again))));
    }
    // (b) after unrelated work
    for r in &c.prior {
        let _ = compile(r);
    }
    let after = compile(&c.value);
    stats.evals(1);
    if after != reference {
        return Err(fail("after-unrelated", &c.value, format!("compiling the same {kind} value again after {} unrelated compilations gave a different result: {}", c.prior.len(), diff_msg(&reference, &after))));
    }
    // (b') buffer reuse: the other revision of the font, then this one, both placed at the same address of a
    // long-lived buffer (the reference was computed from a fresh allocation)
    let mut reused = false;
    if let Some(sib) = sibling_of(&c.value) {
        SHARED_PLACEMENT.with(|s| s.set(true));
        let _ = compile(&sib);
        let out = compile(&c.value);
        let twice = compile(&c.value);
        SHARED_PLACEMENT.with(|s| s.set(false));
        stats.evals(2);
        reused = true;
        stats.class("buffer-reuse:sibling-then-value-at-one-address");
        for o in [&out, &twice] {
            if *o != reference {
                return Err(fail(
                    "buffer-reuse",
                    &c.value,
                    format!("compiling the same {kind} value from a reused buffer (a sibling font with in-place cmap/name edits was compiled from the same address just before) gave a result different from the compilation from a fresh allocation: {}", diff_msg(&reference, o)),
                ));
            }
        }
    }
    // (c) owned schedule of the object counter
    let mut any_gaps = false;
    if ids > 0 && ids < ID_PROBE {
        for (pi, plan) in c.plans.iter().enumerate() {
            let (dense, nonzero) = expand_plan(plan, ids);
            let (max_gap, total) = (dense.iter().copied().max().unwrap_or(0), dense.iter().fold(0u64, |a, b| a.saturating_add(*b)));
            push_id_gaps(dense);
            let out = compile(&c.value);
            let left = pending_id_gaps();
            push_id_gaps(vec![]);
            stats.evals(1);
            if out != reference {
                return Err(fail(
                    "id-gaps",
                    &c.value,
                    format!("compiling the same {kind} value while the object counter advances by generated gaps (plan {pi}: {nonzero} non-zero gaps over {ids} ids, largest {max_gap}, total {total}) gave a different result: {}", diff_msg(&reference, &out)),
                ));
            }
            if left != 0 {
                stats.class("gaps:id-count-differs-between-runs");
            }
            if nonzero > 0 {
                any_gaps = true;
                stats.class("gaps:plans-with-nonzero-gaps");
            }
            if max_gap >= 1 << 32 {
                stats.class("gaps:plan-with-gap>=2^32");
            }
        }
    } else {
        stats.class(if ids == 0 { "gaps:compilation-allocates-no-ids" } else { "gaps:more-ids-than-probe" });
    }
    // evidence
    let f = features(&c.value, &reference, ids);
    stats.class(&format!("kind:{kind}"));
    for t in &f.tags {
        stats.class(t);
        if t.starts_with("outcome:") {
            stats.class(&format!("{t}:{kind}"));
        }
    }
    if !c.prior.is_empty() {
        stats.class("with-unrelated-prior-work");
    }
    if f.nontrivial {
        stats.class(&format!("nontrivial:{kind}"));
        if any_gaps || reused {
            stats.nontrivial(hash_json(&c.value));
        }
        if stats.want_sample() && ids >= 8 {
            stats.sample(json!({"stage": "schedule", "kind": kind, "object_ids": ids, "features": f.tags, "outcome": reference.describe(), "unrelated": c.prior.iter().map(kind_name).collect::<Vec<_>>(),
                "plans": c.plans.iter().map(|p| json!({"first": p.first, "steps": p.steps.len(), "wrap": p.wrap})).collect::<Vec<_>>() }));
        }
    }
    Ok(())
}

// =================================================================================================
// stage `threads`

#[derive(Clone, Debug, Serialize, Deserialize)]
struct ThreadCase {
    pool: Vec<Recipe>,
    /// one schedule (indices into the pool) per thread
    threads: Vec<Vec<u8>>,
    rounds: u8,
}

fn thread_strategy(max_threads: usize) -> impl Strategy<Value = ThreadCase> {
    (proptest::collection::vec(value_recipe(), 1..6), 1u8..4, any::<bool>()).prop_flat_map(move |(pool, rounds, same)| {
        let n = pool.len() as u8;
        let sched = proptest::collection::vec(0..n, 1..6);
        let threads = if same {
            // every thread runs the same schedule: the same values at the same time
            (sched, 2..=max_threads).prop_map(|(s, k)| vec![s; k]).boxed()
        } else {
            proptest::collection::vec(sched, 2..=max_threads).boxed()
        };
        threads.prop_map(move |threads| ThreadCase { pool: pool.clone(), threads, rounds })
    })
}

fn test_threads(c: &ThreadCase, stats: &Stats) -> CaseResult {
    if c.pool.is_empty() || c.threads.is_empty() || c.threads.len() > 256 {
        return Ok(());
    }
    push_id_gaps(vec![]);
    let pool = &c.pool;
    let mut refs = Vec::with_capacity(pool.len());
    let mut idc = Vec::with_capacity(pool.len());
    for r in pool {
        push_id_gaps(vec![0; ID_PROBE]);
        refs.push(compile(r));
        idc.push(ID_PROBE - pending_id_gaps());
        push_id_gaps(vec![]);
    }
    let refs = &refs;
    for round in 0..c.rounds.clamp(1, 8) as usize {
        let barrier = std::sync::Barrier::new(c.threads.len());
        let results: Vec<Option<(usize, usize, usize, Outcome)>> = std::thread::scope(|s| {
            let hs: Vec<_> = c
                .threads
                .iter()
                .enumerate()
                .map(|(ti, sched)| {
                    let barrier = &barrier;
                    std::thread::Builder::new()
                        .stack_size(32 << 20)
                        .spawn_scoped(s, move || {
                            barrier.wait();
                            for k in 0..sched.len() {
                                let i = sched[(k + round) % sched.len()] as usize % pool.len();
                                let out = compile(&pool[i]);
                                if out != refs[i] {
                                    return Some((ti, k, i, out));
                                }
                            }
                            None
                        })
                        .expect("spawn")
                })
                .collect();
            hs.into_iter().map(|h| h.join().unwrap_or(None)).collect()
        });
        stats.evals(c.threads.iter().map(|s| s.len() as u64).sum());
        if let Some((ti, k, i, out)) = results.into_iter().flatten().next() {
            return Err(fail(
                "threads",
                &pool[i],
                format!("round {round}: thread {ti} of {} (step {k}) compiled pool value {i} ({}) to a result different from the single-threaded reference: {}", c.threads.len(), kind_name(&pool[i]), diff_msg(&refs[i], &out)),
            ));
        }
    }
    stats.class(match c.threads.len() {
        0..=3 => "threads:2-3",
        4..=8 => "threads:4-8",
        _ => "threads:>8",
    });
    let same_value_concurrently = c.threads.iter().skip(1).any(|s| s.first() == c.threads[0].first());
    if same_value_concurrently {
        stats.class("threads:same-value-at-the-same-step");
    }
    for (i, r) in pool.iter().enumerate() {
        let f = features(r, &refs[i], idc[i]);
        stats.class(&format!("threads-pool:{}", kind_name(r)));
        if f.nontrivial && c.threads.iter().any(|s| s.iter().any(|x| *x as usize % pool.len() == i)) {
            stats.nontrivial(hash_json(r));
        }
    }
    Ok(())
}

// =================================================================================================
// stage `processes`

#[derive(Clone, Debug, Serialize, Deserialize)]
struct ProcCase {
    sample: Vec<Recipe>,
    /// per child process: rotation of the order in which the sample is compiled
    children: Vec<u8>,
}

#[derive(Serialize, Deserialize)]
struct ChildJob {
    sample: Vec<Recipe>,
    rot: u8,
}

fn proc_strategy(nchildren: usize) -> impl Strategy<Value = ProcCase> {
    (proptest::collection::vec(value_recipe(), 2..9), proptest::collection::vec(any::<u8>(), nchildren..=nchildren)).prop_map(|(sample, children)| ProcCase { sample, children })
}

fn digests_rotated(sample: &[Recipe], rot: u8) -> Vec<(u8, u64, u64)> {
    let n = sample.len();
    let mut out = vec![(9u8, 0u64, 0u64); n];
    for k in 0..n {
        let i = (k + rot as usize) % n;
        out[i] = compile(&sample[i]).digest();
    }
    out
}

/// `--digest-child`: job on stdin, digests on stdout
fn child_main() -> ! {
    use std::io::{Read, Write};
    let mut input = Vec::new();
    if std::io::stdin().read_to_end(&mut input).is_err() {
        std::process::exit(3);
    }
    let Ok(job) = serde_json::from_slice::<ChildJob>(&input) else { std::process::exit(4) };
    let handle = std::thread::Builder::new().stack_size(64 << 20).spawn(move || digests_rotated(&job.sample, job.rot)).expect("spawn");
    let Ok(d) = handle.join() else { std::process::exit(5) };
    let text = serde_json::to_vec(&d).unwrap_or_default();
    let _ = std::io::stdout().write_all(&text);
    std::process::exit(0);
}

fn run_child(job: &[u8]) -> Result<Vec<(u8, u64, u64)>, String> {
    use std::io::Write;
    use std::process::{Command, Stdio};
    let exe = std::env::current_exe().map_err(|e| format!("current_exe: {e}"))?;
    let mut ch = Command::new(exe).arg("--digest-child").stdin(Stdio::piped()).stdout(Stdio::piped()).stderr(Stdio::piped()).spawn().map_err(|e| format!("spawn: {e}"))?;
    {
        let mut stdin = ch.stdin.take().ok_or("no stdin")?;
        stdin.write_all(job).map_err(|e| format!("write job: {e}"))?;
    }
    let out = ch.wait_with_output().map_err(|e| format!("wait: {e}"))?;
    if !out.status.success() {
        return Err(format!("child exited with {}: {}", out.status, String::from_utf8_lossy(&out.stderr).chars().take(300).collect::<String>()));
    }
    serde_json::from_slice(&out.stdout).map_err(|e| format!("child output: {e}"))
}

fn test_procs(c: &ProcCase, stats: &Stats, ctx: &Ctx) -> CaseResult {
    if c.sample.is_empty() || c.children.is_empty() || c.children.len() > 64 {
        return Ok(());
    }
    push_id_gaps(vec![]);
    let mut refs = vec![];
    let mut idc = vec![];
    for r in &c.sample {
        push_id_gaps(vec![0; ID_PROBE]);
        refs.push(compile(r));
        idc.push(ID_PROBE - pending_id_gaps());
        push_id_gaps(vec![]);
    }
    let want: Vec<(u8, u64, u64)> = refs.iter().map(|o| o.digest()).collect();
    let results: Vec<Result<Vec<(u8, u64, u64)>, String>> = std::thread::scope(|s| {
        let hs: Vec<_> = c
            .children
            .iter()
            .map(|rot| {
                let job = serde_json::to_vec(&ChildJob { sample: c.sample.clone(), rot: *rot }).unwrap_or_default();
                s.spawn(move || run_child(&job))
            })
            .collect();
        hs.into_iter().map(|h| h.join().unwrap_or_else(|_| Err("child runner panicked".into()))).collect()
    });
    for (ci, res) in results.into_iter().enumerate() {
        match res {
            Err(e) => ctx.infra_error(format!("stage processes: child {ci}: {e}")),
            Ok(got) => {
                stats.evals(got.len() as u64);
                stats.class("processes:children-compared");
                if got.len() != want.len() {
                    ctx.infra_error(format!("stage processes: child {ci} returned {} digests for {} recipes", got.len(), want.len()));
                    continue;
                }
                for (i, (g, w)) in got.iter().zip(&want).enumerate() {
                    if g != w {
                        let names = ["bytes", "error", "panic", "?"];
                        return Err(fail(
                            "process",
                            &c.sample[i],
                            format!(
                                "a fresh process (child {ci}, compile order rotated by {}) compiled sample value {i} ({}) to {} of length {} (fnv {:016x}); this process got {}",
                                c.children[ci],
                                kind_name(&c.sample[i]),
                                names[(g.0 as usize).min(3)],
                                g.1,
                                g.2,
                                refs[i].describe()
                            ),
                        ));
                    }
                }
            }
        }
    }
    for (i, r) in c.sample.iter().enumerate() {
        let f = features(r, &refs[i], idc[i]);
        stats.class(&format!("processes-sample:{}", kind_name(r)));
        if f.nontrivial {
            stats.nontrivial(hash_json(r));
        }
    }
    Ok(())
}

// =================================================================================================

/// case `i` of an enumeration stage: drawn from the proptest strategy with the engine's seed for (stage, i)
fn draw<S: Strategy>(ctx: &Ctx, stage: &str, i: u64, strat: &S) -> Option<S::Value> {
    use proptest::strategy::ValueTree;
    use proptest::test_runner::{Config, RngAlgorithm, TestRng, TestRunner};
    let mut runner = TestRunner::new_with_rng(Config { failure_persistence: None, ..Config::default() }, TestRng::from_seed(RngAlgorithm::ChaCha, &ctx.stage_seed(stage, i)));
    strat.new_tree(&mut runner).ok().map(|t| t.current())
}

fn main() {
    if std::env::args().any(|a| a == "--digest-child") {
        child_main();
    }
    let ctx = Ctx::from_args("C07");
    ctx.set_rule(
        "recipes (proptest) -> values rebuilt inside the test and compiled: tape-driven GSUB/GPOS/GDEF/name/STAT/BASE/COLR/ItemVariationStore tables (also 'big' GSUB/GPOS with 3..17 lookups), \
         VariationStoreBuilder inputs (1..2500 rows over 1..14 regions, repeated row patterns), GlyphVariations -> Gvar (tuple palette shared between glyphs), GPOS lookup builders \
         (PairPos glyph+class rules, MarkToBase, SinglePos, Cursive; small / ~16K / >64K lookups; optional variation deltas), mock graphs through a harness FontWrite type and through pack_mock_graph \
         (upper nodes / 32-bit space roots / lower nodes shared between spaces; sizes 8..66000; a 'spaces' family with 1..3 groups of 2..3 space roots sharing a node and owning ~32K leaves, so that several spaces \
         overflow and are split in one round; one incoming width per node and no nested 32-bit targets, i.e. outside the two listed C05 findings), \
         owned tables of corpus fonts (to_owned_table), FontBuilder inputs, klippa::subset_font with generated plans. Each value: reference, immediate repeat, repeat after generated unrelated compilations, \
         repeats under 1..3 generated id-gap plans (sparse steps over all object ids of the compilation, gaps 0..2^40 incl. 2^31/2^32 +-8), on N real threads, in fresh processes. \
         Non-trivial (approximated through output features, counted only when the compilation produced bytes): IVS builder merged row shapes or deduplicated rows; gvar has shared tuples; mock graph is > 64K \
         (overflow resolution) or has same-parent siblings of equal length (equal distance) or needed node duplication; GPOS-builder / table / corpus-table / FontBuilder compilations that allocated >= 4 object ids \
         (children of one parent tie on distance whenever their sizes agree, which repeated same-shape sub-objects make the rule rather than the exception); klippa subsets that keep a layout/variation table. \
         In stage schedule a case counts only if at least one of its gap plans had a non-zero gap (klippa allocates no ids). Distinct by hash of the value recipe.",
    );
    ctx.assume("byte equality of recomputations is the whole oracle; the reference is an ordinary compilation on a shard thread while the other shards compile concurrently");
    ctx.assume("the only process-wide state of write-fonts compilation is OBJECT_COUNTER (hook H1 owns its schedule); std HashMap seeds differ per map instance, per thread and per process, so every recomputation also re-rolls all hash iteration orders");
    ctx.assume("process digests are FNV-1a 64 + length + outcome kind (collisions ignored)");

    let quick = ctx.quick();
    let replay = ctx.is_replay();
    ctx.prop_stage("schedule", Isolation::Threads, ctx.n(30_000, 200_000), sched_strategy, |c: &SchedCase, s: &Stats| test_sched_budgeted(c, s, replay));
    let max_threads = if quick { 8 } else { 24 };
    // threads / processes: enumeration stages (case i is drawn from the strategy with the stage seed of index i): a
    // failing case is stored as it is; shrinking would re-run hundreds of thread rounds / process fan-outs
    ctx.index_stage("threads", Isolation::Threads, ctx.n(600, 4_000), |i| draw(&ctx, "threads", i, &thread_strategy(max_threads)).unwrap_or(ThreadCase { pool: vec![], threads: vec![], rounds: 0 }), |c: &ThreadCase, s: &Stats| {
        for _ in 0..if replay { REPLAY_REPEATS / 4 } else { 1 } {
            test_threads(c, s)?;
        }
        Ok(())
    });
    let nchildren = if quick { 8 } else { 12 };
    ctx.index_stage("processes", Isolation::Threads, ctx.n(96, 400), |i| draw(&ctx, "processes", i, &proc_strategy(nchildren)).unwrap_or(ProcCase { sample: vec![], children: vec![] }), |c: &ProcCase, s: &Stats| {
        for _ in 0..if replay { REPLAY_REPEATS / 8 } else { 1 } {
            test_procs(c, s, &ctx)?;
        }
        Ok(())
    });
    ctx.note("gap_id_space_spent_log2", json!((GAP_SPENT.load(Ordering::Relaxed) as f64).max(1.0).log2()));
    ctx.finish();
}
