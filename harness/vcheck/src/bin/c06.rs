//! C06 — built font files are well-formed sfnt containers that return the tables put in.
use proptest::prelude::*;
use read_fonts::{types::Tag, FontRef};
use serde::{Deserialize, Serialize};
use std::collections::BTreeMap;
use vcore::*;
use write_fonts::FontBuilder;

#[derive(Clone, Debug, Serialize, Deserialize)]
struct Case {
    /// add_raw calls in order (duplicates allowed: last wins)
    adds: Vec<([u8; 4], Vec<u8>)>,
    /// permutation seed for the order-independence check
    perm: u64,
    /// tables of a donor font for copy_missing_tables
    donor: Vec<([u8; 4], Vec<u8>)>,
    /// copy before (true) or after (false) the add_raw calls
    copy_first: bool,
    /// 0: the donor is a stand-alone file built by FontBuilder; k > 0: the donor is member k-1 of a font collection
    /// with `ttc_members` members assembled by the harness (FontRef::from_index), so its tables sit at offsets that are
    /// absolute in the collection file
    #[serde(default)]
    ttc_member: u8,
    #[serde(default)]
    ttc_members: u8,
}

fn tag_strategy() -> impl Strategy<Value = [u8; 4]> {
    prop_oneof![
        3 => Just(*b"head"),
        // near misses of the one tag the builder treats specially (bhed is Apple's bitmap-only font header)
        1 => prop_oneof![Just(*b"bhed"), Just(*b"Head"), Just(*b"HEAD"), Just(*b"hea "), Just(*b"heae"), Just(*b"iead"), Just(*b"hdad")],
        1 => Just(*b"CFF "),
        1 => Just(*b"DSIG"),
        1 => Just(*b"glyf"),
        1 => Just(*b"loca"),
        1 => Just(*b"OS/2"),
        1 => Just(*b"cmap"),
        1 => Just(*b"name"),
        3 => (b'a'..=b'z', b'a'..=b'z').prop_map(|(a, b)| [a, b, b' ', b' ']),
        2 => (0x20u8..0x7F, 0x20u8..0x7F, 0x20u8..0x7F, 0x20u8..0x7F).prop_map(|(a, b, c, d)| [a, b, c, d]),
        2 => any::<[u8; 4]>(),
    ]
}
fn byte_strategy() -> impl Strategy<Value = u8> {
    prop_oneof![Just(0u8), Just(0xFF), any::<u8>()]
}
fn data_strategy() -> BoxedStrategy<Vec<u8>> {
    prop_oneof![
        6 => proptest::collection::vec(byte_strategy(), 0..20),
        3 => proptest::collection::vec(any::<u8>(), 0..300),
        1 => proptest::collection::vec(Just(0xFFu8), 50..61),
        1 => proptest::sample::select(vec![0usize, 8, 11, 12, 13, 54, 55]).prop_flat_map(|n| proptest::collection::vec(byte_strategy(), n..=n)),
        1 => (0usize..70_000, any::<u8>(), any::<u8>()).prop_map(|(n, a, b)| (0..n).map(|i| if i % 7 == 0 { a } else { b.wrapping_add(i as u8) }).collect()),
    ]
    .boxed()
}

fn strategy() -> impl Strategy<Value = Case> {
    (
        proptest::collection::vec((tag_strategy(), data_strategy()), 0..40),
        any::<u64>(),
        proptest::collection::vec((tag_strategy(), data_strategy()), 0..8),
        any::<bool>(),
        prop_oneof![2 => Just((0u8, 0u8)), 1 => (1u8..=3).prop_flat_map(|n| (1u8..=n, Just(n)))],
    )
        .prop_map(|(adds, perm, donor, copy_first, (ttc_member, ttc_members))| Case { adds, perm, donor, copy_first, ttc_member, ttc_members })
}

fn checksum(d: &[u8]) -> u32 {
    let mut s = 0u32;
    for c in d.chunks(4) {
        let mut w = [0u8; 4];
        w[..c.len()].copy_from_slice(c);
        s = s.wrapping_add(u32::from_be_bytes(w));
    }
    s
}

/// a font collection whose member `which` holds `tables`; the other members hold the same tags with different bytes
fn collection(tables: &BTreeMap<[u8; 4], Vec<u8>>, which: usize, members: usize) -> Vec<u8> {
    let mut out = b"ttcf".to_vec();
    out.extend_from_slice(&[0, 1, 0, 0]);
    out.extend_from_slice(&(members as u32).to_be_bytes());
    let offs_pos = out.len();
    out.resize(out.len() + 4 * members, 0);
    for m in 0..members {
        let here = out.len() as u32;
        out[offs_pos + 4 * m..offs_pos + 4 * m + 4].copy_from_slice(&here.to_be_bytes());
        let n = tables.len();
        out.extend_from_slice(&[0, 1, 0, 0]);
        let es = if n == 0 { 0 } else { 15 - (n as u16).leading_zeros() as u16 };
        let sr = if n == 0 { 0 } else { (1u16 << es) * 16 };
        for v in [n as u16, sr, es, (n as u16 * 16).wrapping_sub(sr)] {
            out.extend_from_slice(&v.to_be_bytes());
        }
        let dir_pos = out.len();
        out.resize(out.len() + 16 * n, 0);
        for (i, (t, d)) in tables.iter().enumerate() {
            let data: Vec<u8> = if m == which { d.clone() } else { d.iter().map(|b| b ^ 0x5A).chain([m as u8]).collect() };
            let off = out.len() as u32;
            let rec = dir_pos + 16 * i;
            out[rec..rec + 4].copy_from_slice(t);
            out[rec + 4..rec + 8].copy_from_slice(&checksum(&data).to_be_bytes());
            out[rec + 8..rec + 12].copy_from_slice(&off.to_be_bytes());
            out[rec + 12..rec + 16].copy_from_slice(&(data.len() as u32).to_be_bytes());
            out.extend_from_slice(&data);
            while out.len() % 4 != 0 {
                out.push(0);
            }
        }
    }
    out
}

fn fail(sig: &str, msg: String) -> Fail {
    Fail::new(format!("c06|{sig}"), msg)
}

fn check_against(model: &BTreeMap<[u8; 4], Vec<u8>>, out: &[u8], what: &str) -> CaseResult {
    sfnt::check_built(model, out).map_err(|e| fail(what, format!("{what}: {e}")))?;
    let f = FontRef::new(out).map_err(|e| fail("open", format!("{what}: FontRef::new failed: {e}")))?;
    let listed: Vec<[u8; 4]> = f.table_directory.table_records().iter().map(|r| r.tag().to_be_bytes()).collect();
    let want: Vec<[u8; 4]> = model.keys().copied().collect();
    if listed != want {
        return Err(fail("tags", format!("{what}: directory lists {listed:?}, expected {want:?}")));
    }
    for (t, d) in model {
        let got = f.table_data(Tag::from_be_bytes(*t)).ok_or_else(|| fail("table_data", format!("{what}: table_data({t:?}) is None")))?;
        let mut g = got.as_bytes().to_vec();
        if t == b"head" && d.len() >= 12 && g.len() >= 12 {
            g[8..12].copy_from_slice(&d[8..12]);
        }
        if &g != d {
            return Err(fail("table_data", format!("{what}: table_data({t:?}) differs from the supplied bytes")));
        }
    }
    // absent tags
    for t in [*b"zzzz", *b"head", *b"\0\0\0\0", *b"\xff\xff\xff\xff"] {
        if !model.contains_key(&t) && f.table_data(Tag::from_be_bytes(t)).is_some() {
            return Err(fail("absent", format!("{what}: table_data({t:?}) is Some for an absent tag")));
        }
    }
    Ok(())
}

fn test(c: &Case, stats: &Stats) -> CaseResult {
    // (1) add_raw sequence
    let mut model: BTreeMap<[u8; 4], Vec<u8>> = BTreeMap::new();
    let mut fb = FontBuilder::new();
    for (t, d) in &c.adds {
        fb.add_raw(Tag::from_be_bytes(*t), d.clone());
        model.insert(*t, d.clone());
    }
    let out = fb.build();
    check_against(&model, &out, "add_raw")?;

    // (2) insertion-order independence over the distinct tags
    let mut keys: Vec<[u8; 4]> = model.keys().copied().collect();
    let mut p = c.perm;
    for i in (1..keys.len()).rev() {
        p = p.wrapping_mul(6364136223846793005).wrapping_add(1442695040888963407);
        keys.swap(i, (p >> 33) as usize % (i + 1));
    }
    let mut fb2 = FontBuilder::new();
    for k in &keys {
        fb2.add_raw(Tag::from_be_bytes(*k), model[k].clone());
    }
    if fb2.build() != out {
        return Err(fail("order", "output depends on the insertion order of distinct tags".into()));
    }

    // (3) copy_missing_tables from a donor font: supplied tags keep supplied bytes, exactly the missing ones are added
    let mut dmodel: BTreeMap<[u8; 4], Vec<u8>> = BTreeMap::new();
    let mut dfb = FontBuilder::new();
    for (t, d) in &c.donor {
        dfb.add_raw(Tag::from_be_bytes(*t), d.clone());
        dmodel.insert(*t, d.clone());
    }
    let donor_bytes = if c.ttc_member > 0 { collection(&dmodel, c.ttc_member as usize - 1, c.ttc_members.max(c.ttc_member) as usize) } else { dfb.build() };
    let donor = if c.ttc_member > 0 {
        stats.class("donor_is_collection_member");
        FontRef::from_index(&donor_bytes, c.ttc_member as u32 - 1).map_err(|e| fail("open", format!("collection member does not open: {e}")))?
    } else {
        FontRef::new(&donor_bytes).map_err(|e| fail("open", format!("donor does not open: {e}")))?
    };
    let mut fb3 = FontBuilder::new();
    if c.copy_first {
        fb3.copy_missing_tables(donor.clone());
    }
    for (t, d) in &c.adds {
        fb3.add_raw(Tag::from_be_bytes(*t), d.clone());
    }
    if !c.copy_first {
        fb3.copy_missing_tables(donor.clone());
    }
    let mut m3 = BTreeMap::new();
    for (t, d) in &dmodel {
        // what the donor *file* holds (its head adjustment was rewritten by build)
        // (a collection member is assembled by the harness: it holds exactly the supplied bytes)
        let stored = if c.ttc_member > 0 { d.clone() } else { donor.table_data(Tag::from_be_bytes(*t)).map(|x| x.as_bytes().to_vec()).unwrap_or_else(|| d.clone()) };
        m3.insert(*t, stored);
    }
    for (t, d) in &model {
        m3.insert(*t, d.clone()); // supplied tables always win, whichever came first
    }
    let out3 = fb3.build();
    check_against(&m3, &out3, "copy_missing_tables")?;

    stats.class(match model.len() {
        0 => "tables=0",
        1 => "tables=1",
        2..=8 => "tables=2..8",
        _ => "tables>8",
    });
    let odd = model.values().any(|v| v.len() % 4 != 0);
    let head12 = model.get(b"head").map(|h| h.len() >= 12).unwrap_or(false);
    if head12 {
        stats.class("head>=12");
    }
    if c.adds.len() > model.len() {
        stats.class("duplicate_add_raw");
    }
    if dmodel.keys().any(|k| model.contains_key(k)) {
        stats.class("donor_overlaps_supplied");
    }
    if model.values().any(|v| v.len() > 65_535) {
        stats.class("table>64K");
    }
    if (model.len() >= 2 && odd) || head12 {
        stats.nontrivial(hash_json(&(&c.adds, &c.donor)));
        if stats.want_sample() {
            stats.sample(serde_json::json!({"tags": model.keys().map(|k| String::from_utf8_lossy(k).to_string()).collect::<Vec<_>>(),
                "lengths": model.values().map(|v| v.len()).collect::<Vec<_>>(), "donor_tags": dmodel.len(), "copy_first": c.copy_first, "file_len": out.len()}));
        }
    }
    Ok(())
}

fn main() {
    let ctx = Ctx::from_args("C06");
    ctx.set_rule("proptest-generated add_raw sequences (0..40 calls; tags head/near misses of head such as bhed/CFF/DSIG/glyf/loca/printable/arbitrary; lengths 0..70000 biased to 0..20 and every residue mod 4; bytes biased to 00/FF) + a donor font for copy_missing_tables (a stand-alone file or a member of a harness-assembled font collection). Non-trivial: >= 2 tables with a length not a multiple of 4, or a head table >= 12 bytes; distinct by hash of the add sequence.");
    ctx.assume("the oracle is an independent ~100-line sfnt reader/checksummer in the harness (vcore::sfnt), plus FontRef::new/table_data");
    ctx.prop_stage("build", Isolation::Threads, ctx.n(20_000, 300_000), strategy, test);
    ctx.finish();
}
