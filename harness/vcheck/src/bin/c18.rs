//! C18 — IFT patches change exactly what they say, atomically and order-independently.
//!
//! Everything is synthetic and generated together with a model: base fonts (glyf/loca, gvar, CFF, CFF2 with
//! opaque per-glyph data, short/long offsets, INDEX offSize 1..4), format-2 `IFT `/`IFTX` mapping tables,
//! glyph-keyed and table-keyed patches, and a transparent `SharedBrotliDecoder` with a fault plan.
//! The oracle re-reads the produced fonts with an independent container reader (vcore::sfnt) and its own
//! loca / gvar / INDEX decoders.
use incremental_font_transfer::{
    font_patch::{IncrementalFontPatchBase, PatchingError},
    patch_group::{PatchGroup, PatchInfo, UriStatus},
    patchmap::{intersecting_patches, PatchUri, SubsetDefinition},
};
use klippa::serialize::SerializeErrorFlags;
use proptest::prelude::*;
use read_fonts::{collections::IntSet, FontRef};
use serde::{Deserialize, Serialize};
use shared_brotli_patch_decoder::{decode_error::DecodeError, SharedBrotliDecoder};
use std::cell::Cell;
use std::collections::{BTreeMap, BTreeSet, HashMap};
use vcore::*;

type Tag4 = [u8; 4];
type Tables = BTreeMap<Tag4, Vec<u8>>;
const IFT: Tag4 = *b"IFT ";
const IFTX: Tag4 = *b"IFTX";
const SHORT_MAX: usize = 131070;

fn fail(sig: &str, msg: impl Into<String>) -> Fail {
    Fail::new(format!("c18|{sig}"), msg)
}
fn tag_str(t: &Tag4) -> String {
    String::from_utf8_lossy(t).to_string()
}
fn be16(v: &mut Vec<u8>, x: u16) {
    v.extend_from_slice(&x.to_be_bytes());
}
fn be24(v: &mut Vec<u8>, x: u32) {
    v.extend_from_slice(&x.to_be_bytes()[1..]);
}
fn be32(v: &mut Vec<u8>, x: u32) {
    v.extend_from_slice(&x.to_be_bytes());
}
fn rd(b: &[u8], o: usize, w: usize) -> Option<usize> {
    let s = b.get(o..o.checked_add(w)?)?;
    let mut x = 0usize;
    for c in s {
        x = (x << 8) | *c as usize;
    }
    Some(x)
}
/// deterministic expansion of (salt, len) into bytes; no byte pattern is all-zero for len > 0
fn pat(salt: u64, len: usize) -> Vec<u8> {
    let s = mix(salt, 0x5eed) | 0x0101_0101_0101_0101;
    (0..len).map(|i| ((s >> ((i & 7) * 8)) as u8) ^ (i as u8).wrapping_mul(38) ^ ((i >> 8) as u8).wrapping_mul(12)).collect()
}
fn idx(raw: u32, len: usize) -> usize {
    ((raw as u64 * len as u64) >> 32) as usize
}

// ------------------------------------------------------------------------------------------------------
// transparent decoder with a fault plan
//
// stream := kind ('R' = no dictionary expected, 'D' = dictionary expected) instruction*
// instruction := 'L' u32 len bytes[len] | 'C' u32 offset u32 len   (copy from the dictionary)

#[derive(Clone, Copy, Debug, PartialEq, Eq, Serialize, Deserialize)]
enum EK {
    Init,
    Stream,
    Dict,
    Max,
    Excess,
    IoOther,
    IoInvalidData,
}
const ALL_EK: [EK; 7] = [EK::Init, EK::Stream, EK::Dict, EK::Max, EK::Excess, EK::IoOther, EK::IoInvalidData];
impl EK {
    fn err(self) -> DecodeError {
        match self {
            EK::Init => DecodeError::InitFailure,
            EK::Stream => DecodeError::InvalidStream,
            EK::Dict => DecodeError::InvalidDictionary,
            EK::Max => DecodeError::MaxSizeExceeded,
            EK::Excess => DecodeError::ExcessInputData,
            EK::IoOther => DecodeError::IoError(std::io::ErrorKind::Other),
            EK::IoInvalidData => DecodeError::IoError(std::io::ErrorKind::InvalidData),
        }
    }
}

struct Dec {
    fail: Option<(usize, EK)>,
    calls: Cell<usize>,
}
impl Dec {
    fn ok() -> Dec {
        Dec { fail: None, calls: Cell::new(0) }
    }
    fn failing(k: usize, e: EK) -> Dec {
        Dec { fail: Some((k, e)), calls: Cell::new(0) }
    }
}
fn run_stream(enc: &[u8], dict: Option<&[u8]>, max: usize) -> Result<Vec<u8>, DecodeError> {
    let (&kind, mut rest) = enc.split_first().ok_or(DecodeError::InvalidStream)?;
    match (kind, dict) {
        (b'R', None) | (b'D', Some(_)) => {}
        (b'R', Some(_)) | (b'D', None) => return Err(DecodeError::InvalidDictionary),
        _ => return Err(DecodeError::InvalidStream),
    }
    let mut out = Vec::new();
    while let Some((&op, r)) = rest.split_first() {
        match op {
            b'L' => {
                let len = rd(r, 0, 4).ok_or(DecodeError::InvalidStream)?;
                let body = r.get(4..4usize.checked_add(len).ok_or(DecodeError::InvalidStream)?).ok_or(DecodeError::InvalidStream)?;
                if out.len() + body.len() > max {
                    return Err(DecodeError::MaxSizeExceeded);
                }
                out.extend_from_slice(body);
                rest = &r[4 + len..];
            }
            b'C' => {
                let off = rd(r, 0, 4).ok_or(DecodeError::InvalidStream)?;
                let len = rd(r, 4, 4).ok_or(DecodeError::InvalidStream)?;
                let d = dict.ok_or(DecodeError::InvalidDictionary)?;
                let body = d.get(off..off.checked_add(len).ok_or(DecodeError::InvalidStream)?).ok_or(DecodeError::InvalidStream)?;
                if out.len() + body.len() > max {
                    return Err(DecodeError::MaxSizeExceeded);
                }
                out.extend_from_slice(body);
                rest = &r[8..];
            }
            _ => return Err(DecodeError::InvalidStream),
        }
    }
    Ok(out)
}
impl SharedBrotliDecoder for Dec {
    fn decode(&self, enc: &[u8], dict: Option<&[u8]>, max: usize) -> Result<Vec<u8>, DecodeError> {
        let c = self.calls.get();
        self.calls.set(c + 1);
        if let Some((k, e)) = self.fail {
            if k == c {
                return Err(e.err());
            }
        }
        run_stream(enc, dict, max)
    }
}
fn lit_stream(kind: u8, chunks: &[&[u8]]) -> Vec<u8> {
    let mut v = vec![kind];
    for c in chunks {
        v.push(b'L');
        be32(&mut v, c.len() as u32);
        v.extend_from_slice(c);
    }
    v
}

// ------------------------------------------------------------------------------------------------------
// bookkeeping snapshots, container helpers

type Snap = BTreeMap<String, Option<Vec<u8>>>;
fn snap(m: &HashMap<String, UriStatus>) -> Snap {
    m.iter()
        .map(|(k, v)| {
            (
                k.clone(),
                match v {
                    UriStatus::Applied => None,
                    UriStatus::Pending(d) => Some(d.clone()),
                },
            )
        })
        .collect()
}
fn tables_of(bytes: &[u8], what: &str) -> Result<Tables, Fail> {
    if FontRef::new(bytes).is_err() {
        return Err(fail("reopen", format!("{what}: FontRef::new rejects the produced font")));
    }
    let (_, t) = sfnt::split_tables(bytes).ok_or_else(|| fail("reopen", format!("{what}: produced bytes are not an sfnt")))?;
    let mut m = Tables::new();
    for (tag, d) in t {
        if m.insert(tag, d).is_some() {
            return Err(fail("reopen", format!("{what}: duplicate directory entry {}", tag_str(&tag))));
        }
    }
    Ok(m)
}
/// table bytes with head.checksumAdjustment (a function of the whole file) zeroed
fn norm(tag: &Tag4, d: &[u8]) -> Vec<u8> {
    let mut v = d.to_vec();
    if tag == b"head" && v.len() >= 12 {
        v[8..12].fill(0);
    }
    v
}
fn first_diff(a: &[u8], b: &[u8]) -> String {
    let p = a.iter().zip(b.iter()).position(|(x, y)| x != y).unwrap_or(a.len().min(b.len()));
    format!("lengths {} / {}, first difference at byte {p}", a.len(), b.len())
}

// ------------------------------------------------------------------------------------------------------
// format-2 mapping table encoder (hand-encoded; the code point set uses the library's sparse-bit-set writer)

#[derive(Clone, Debug)]
struct EntryEnc {
    cp: u32,
    format: Option<u8>,
    ignored: bool,
    id_delta: Option<u8>,
    bias_mode: u8,
}
struct MapEnc {
    bytes: Vec<u8>,
    /// byte position of each entry's format-flags byte (bit 6 = ignored / applied)
    flag_pos: Vec<usize>,
}
fn encode_map(compat: [u32; 4], default_format: u8, template: &[u8], cff: Option<u32>, cff2: Option<u32>, gap: usize, entries: &[EntryEnc]) -> MapEnc {
    let mut v = vec![2u8, 0, 0, 0, (cff.is_some() as u8) | ((cff2.is_some() as u8) << 1)];
    for c in compat {
        be32(&mut v, c);
    }
    v.push(default_format);
    be24(&mut v, entries.len() as u32);
    let off_pos = v.len();
    be32(&mut v, 0);
    be32(&mut v, 0);
    be16(&mut v, template.len() as u16);
    v.extend_from_slice(template);
    if let Some(o) = cff {
        be32(&mut v, o);
    }
    if let Some(o) = cff2 {
        be32(&mut v, o);
    }
    v.extend(std::iter::repeat(0u8).take(gap));
    let off = v.len() as u32;
    v[off_pos..off_pos + 4].copy_from_slice(&off.to_be_bytes());
    let mut flag_pos = vec![];
    for e in entries {
        flag_pos.push(v.len());
        let mut flags = match e.bias_mode {
            0 => 0x10u8,
            1 => 0x20,
            _ => 0x30,
        };
        if e.ignored {
            flags |= 0x40;
        }
        if e.id_delta.is_some() {
            flags |= 0x04;
        }
        if e.format.is_some() {
            flags |= 0x08;
        }
        v.push(flags);
        if let Some(d) = e.id_delta {
            be24(&mut v, d as u32);
        }
        if let Some(f) = e.format {
            v.push(f);
        }
        let back = if e.bias_mode == 0 { e.cp } else { e.cp & 3 };
        let bias = e.cp - back;
        match e.bias_mode {
            0 => {}
            1 => be16(&mut v, bias as u16),
            _ => be24(&mut v, bias),
        }
        let s: IntSet<u32> = [back].into_iter().collect();
        v.extend(s.to_sparse_bit_set());
    }
    MapEnc { bytes: v, flag_pos }
}

// ------------------------------------------------------------------------------------------------------
// patch encoders

fn encode_glyph_patches(wide: bool, gids: &[u32], tags: &[Tag4], data: &[Vec<Vec<u8>>]) -> Vec<u8> {
    let mut v = vec![];
    be32(&mut v, gids.len() as u32);
    v.push(tags.len() as u8);
    for g in gids {
        if wide {
            be24(&mut v, *g);
        } else {
            be16(&mut v, *g as u16);
        }
    }
    for t in tags {
        v.extend_from_slice(t);
    }
    let header = v.len() + 4 * (gids.len() * tags.len() + 1);
    let mut off = header as u32;
    for t in data {
        for d in t {
            be32(&mut v, off);
            off += d.len() as u32;
        }
    }
    be32(&mut v, off);
    for t in data {
        for d in t {
            v.extend_from_slice(d);
        }
    }
    v
}
fn encode_gk_patch(wide: bool, compat: [u32; 4], max_len: u32, stream: &[u8]) -> Vec<u8> {
    let mut v = b"ifgk".to_vec();
    be32(&mut v, 0);
    v.push(wide as u8);
    for c in compat {
        be32(&mut v, c);
    }
    be32(&mut v, max_len);
    v.extend_from_slice(stream);
    v
}
/// entries: (tag, flags, max_uncompressed_length, stream)
fn encode_tk_patch(compat: [u32; 4], entries: &[(Tag4, u8, u32, Vec<u8>)]) -> Vec<u8> {
    let mut v = b"iftk".to_vec();
    be32(&mut v, 0);
    for c in compat {
        be32(&mut v, c);
    }
    be16(&mut v, entries.len() as u16);
    let mut off = (v.len() + 4 * (entries.len() + 1)) as u32;
    for e in entries {
        be32(&mut v, off);
        off += 9 + e.3.len() as u32;
    }
    be32(&mut v, off);
    for e in entries {
        v.extend_from_slice(&e.0);
        v.push(e.1);
        be32(&mut v, e.2);
        v.extend_from_slice(&e.3);
    }
    v
}
/// position of the compatibility id inside a patch of either kind
fn compat_pos(patch: &[u8]) -> usize {
    if patch.starts_with(b"ifgk") {
        9
    } else {
        8
    }
}

// ------------------------------------------------------------------------------------------------------
// glyph-data table builders and the oracle's decoders

#[derive(Clone, Copy, Debug, PartialEq, Eq, PartialOrd, Ord, Serialize, Deserialize)]
enum Kind {
    Cff,
    Cff2,
    Glyf,
    Gvar,
}
const KINDS: [Kind; 4] = [Kind::Cff, Kind::Cff2, Kind::Glyf, Kind::Gvar];
impl Kind {
    fn tag(self) -> Tag4 {
        match self {
            Kind::Cff => *b"CFF ",
            Kind::Cff2 => *b"CFF2",
            Kind::Glyf => *b"glyf",
            Kind::Gvar => *b"gvar",
        }
    }
    fn name(self) -> &'static str {
        match self {
            Kind::Cff => "CFF",
            Kind::Cff2 => "CFF2",
            Kind::Glyf => "glyf",
            Kind::Gvar => "gvar",
        }
    }
}
/// offset representation: Short = u16 offsets / 2, Long = u32, Off(n) = INDEX offSize n
#[derive(Clone, Copy, Debug, PartialEq, Eq)]
enum Fmt {
    Short,
    Long,
    Off(u8),
}
fn cff_min_off_size(total: usize) -> u8 {
    // offsets run from 1 to total + 1
    if total + 1 <= 0xFF {
        1
    } else if total + 1 <= 0xFFFF {
        2
    } else if total + 1 <= 0xFF_FFFF {
        3
    } else {
        4
    }
}
fn build_gvar(axes: u16, shared: u16, ooo: bool, long: bool, salt: u64, glyphs: &[Vec<u8>]) -> Vec<u8> {
    let n = glyphs.len();
    let mut v = vec![];
    be16(&mut v, 1);
    be16(&mut v, 0);
    be16(&mut v, axes);
    be16(&mut v, shared);
    let sto_pos = v.len();
    be32(&mut v, 0);
    be16(&mut v, n as u16);
    be16(&mut v, long as u16);
    let dao_pos = v.len();
    be32(&mut v, 0);
    let mut off = 0usize;
    for i in 0..=n {
        if long {
            be32(&mut v, off as u32);
        } else {
            be16(&mut v, (off / 2) as u16);
        }
        if i < n {
            off += glyphs[i].len();
        }
    }
    let shared_bytes = pat(salt ^ 0x7475, shared as usize * axes as usize * 2);
    let data: Vec<u8> = glyphs.iter().flat_map(|g| g.iter().copied()).collect();
    let (sto, dao);
    if ooo {
        dao = v.len();
        v.extend_from_slice(&data);
        sto = if shared == 0 { dao } else { v.len() };
        v.extend_from_slice(&shared_bytes);
    } else {
        sto = v.len();
        v.extend_from_slice(&shared_bytes);
        dao = v.len();
        v.extend_from_slice(&data);
    }
    v[sto_pos..sto_pos + 4].copy_from_slice(&(sto as u32).to_be_bytes());
    v[dao_pos..dao_pos + 4].copy_from_slice(&(dao as u32).to_be_bytes());
    v
}
fn build_cff(prefix: &[u8], count_width: usize, off_size: u8, glyphs: &[Vec<u8>]) -> Vec<u8> {
    let mut v = prefix.to_vec();
    if count_width == 2 {
        be16(&mut v, glyphs.len() as u16);
    } else {
        be32(&mut v, glyphs.len() as u32);
    }
    v.push(off_size);
    let mut off = 1u32;
    for i in 0..=glyphs.len() {
        v.extend_from_slice(&off.to_be_bytes()[4 - off_size as usize..]);
        if i < glyphs.len() {
            off += glyphs[i].len() as u32;
        }
    }
    for g in glyphs {
        v.extend_from_slice(g);
    }
    v
}

/// slices `data` by ascending offsets; Err names the defect
fn slice_by(offs: &[usize], data: &[u8]) -> Result<Vec<Vec<u8>>, String> {
    let mut out = Vec::with_capacity(offs.len().saturating_sub(1));
    for w in offs.windows(2) {
        if w[0] > w[1] {
            return Err(format!("offsets not ascending: {} then {}", w[0], w[1]));
        }
        let s = data.get(w[0]..w[1]).ok_or_else(|| format!("offset range {}..{} outside the {} data bytes", w[0], w[1], data.len()))?;
        out.push(s.to_vec());
    }
    Ok(out)
}
fn decode_glyf(glyf: &[u8], loca: &[u8], long: bool, n: usize) -> Result<Vec<Vec<u8>>, String> {
    let w = if long { 4 } else { 2 };
    let mut offs = vec![];
    for i in 0..=n {
        let o = rd(loca, i * w, w).ok_or_else(|| format!("loca has {} bytes, needs {}", loca.len(), (n + 1) * w))?;
        offs.push(if long { o } else { o * 2 });
    }
    slice_by(&offs, glyf)
}
struct GvarView {
    glyphs: Vec<Vec<u8>>,
    long: bool,
    /// version, axisCount, sharedTupleCount, glyphCount, flags without bit 0
    header: [usize; 5],
    shared: Vec<u8>,
}
fn decode_gvar(b: &[u8], n: usize) -> Result<GvarView, String> {
    let e = || "gvar header truncated".to_string();
    let version = rd(b, 0, 4).ok_or_else(e)?;
    let axes = rd(b, 4, 2).ok_or_else(e)?;
    let shared = rd(b, 6, 2).ok_or_else(e)?;
    let sto = rd(b, 8, 4).ok_or_else(e)?;
    let count = rd(b, 12, 2).ok_or_else(e)?;
    let flags = rd(b, 14, 2).ok_or_else(e)?;
    let dao = rd(b, 16, 4).ok_or_else(e)?;
    if count != n {
        return Err(format!("gvar glyphCount {count} != {n}"));
    }
    let long = flags & 1 == 1;
    let w = if long { 4 } else { 2 };
    let mut offs = vec![];
    for i in 0..=n {
        let o = rd(b, 20 + i * w, w).ok_or_else(|| "gvar offsets truncated".to_string())?;
        offs.push(if long { o } else { o * 2 });
    }
    let data = b.get(dao..).ok_or_else(|| "glyphVariationDataArrayOffset out of bounds".to_string())?;
    let glyphs = slice_by(&offs, data)?;
    let sh = b.get(sto..sto + shared * axes * 2).ok_or_else(|| "shared tuples out of bounds".to_string())?.to_vec();
    Ok(GvarView { glyphs, long, header: [version, axes, shared, count, flags & !1], shared: sh })
}
fn decode_cff(b: &[u8], cs_off: usize, count_width: usize, n: usize) -> Result<(Vec<Vec<u8>>, u8), String> {
    let count = rd(b, cs_off, count_width).ok_or_else(|| "charstrings INDEX truncated".to_string())?;
    if count != n {
        return Err(format!("charstrings count {count} != {n}"));
    }
    let os = rd(b, cs_off + count_width, 1).ok_or_else(|| "charstrings INDEX truncated".to_string())?;
    if !(1..=4).contains(&os) {
        return Err(format!("offSize {os}"));
    }
    let base = cs_off + count_width + 1;
    let mut offs = vec![];
    for i in 0..=n {
        let o = rd(b, base + i * os, os).ok_or_else(|| "charstrings offsets truncated".to_string())?;
        if o == 0 {
            return Err("INDEX offset 0".to_string());
        }
        offs.push(o - 1);
    }
    let data = &b[base + (n + 1) * os..];
    Ok((slice_by(&offs, data)?, os as u8))
}

// ------------------------------------------------------------------------------------------------------
// glyph-keyed scenarios: case type

#[derive(Clone, Debug, Serialize, Deserialize)]
struct TableSpec {
    kind: Kind,
    /// glyf/gvar: 0 = short offsets when possible, else long; CFF/CFF2: offSize above the minimum
    wide: u8,
    /// base glyph lengths, used cyclically
    lens: Vec<u16>,
    /// lengths reduced modulo 8 (reaches INDEX offSize 1)
    tiny: bool,
    axes: u8,
    shared: u8,
    /// gvar: glyph data placed before the shared tuples
    ooo: bool,
    /// CFF/CFF2: junk bytes between the real table prefix and the charstrings INDEX
    gap: u8,
}
#[derive(Clone, Debug, Serialize, Deserialize)]
struct PoolGlyph {
    gid_raw: u32,
    /// which patches list this glyph (bit per patch; forced non-empty)
    mask: u8,
    /// new data length per Kind
    lens: [u32; 4],
}
#[derive(Clone, Debug, Serialize, Deserialize)]
struct PatchSpec {
    wide_gids: bool,
    /// bit per font table (forced non-empty, at most 3)
    tables: u8,
    iftx: bool,
    slack: u8,
    split_raw: u16,
    /// additionally listed tags that cannot be glyph-keyed (indices into EXTRA_TAGS): present in the font or absent
    #[serde(default)]
    extra: Vec<u8>,
}
/// tags a glyph-keyed patch may list besides glyf/gvar/CFF/CFF2: the first 8 exist in (most) generated fonts, the rest never
const EXTRA_TAGS: [Tag4; 13] = [*b"hmtx", *b"head", *b"maxp", *b"name", *b"cmap", *b"OS/2", *b"zzzz", *b"loca", *b"GSUB", *b"kern", *b"AAAA", *b"zzzy", *b"DSIG"];
#[derive(Clone, Debug, Serialize, Deserialize)]
struct Decoy {
    iftx: bool,
    pos_raw: u16,
    /// 0 ignored glyph-keyed, 1 glyph-keyed not requested, 2 table-keyed not requested, 3 ignored and requested
    kind: u8,
}
#[derive(Clone, Debug, Serialize, Deserialize)]
struct MapSpec {
    /// 0 `IFT ` only, 1 both, 2 `IFTX` only (forced to 1 when CFF/CFF2 needs the charstrings offset)
    which: u8,
    compat: [u32; 4],
    x_word: u8,
    gap: u8,
    bias_mode: u8,
    id_deltas: Vec<u8>,
    decoys: Vec<Decoy>,
}
#[derive(Clone, Debug, Serialize, Deserialize)]
struct SizePlan {
    table_raw: u8,
    /// 0: 131070 (short offsets), 1: 254 (offSize 1), 2: 65534 (offSize 2), 3: 16777214 (offSize 3)
    thr: u8,
    delta: i8,
    in_base: bool,
    filler_raw: u32,
}
#[derive(Clone, Debug, Serialize, Deserialize)]
struct GkCase {
    n_glyphs: u16,
    tables: Vec<TableSpec>,
    pool: Vec<PoolGlyph>,
    /// contiguous run of patched glyphs: start, length, mask
    run: Option<(u32, u8, u8)>,
    /// bit 0: patch glyph 0, bit 1: patch the last glyph
    edge: u8,
    patches: Vec<PatchSpec>,
    map: MapSpec,
    plan: Option<SizePlan>,
    perm: u64,
    partition: Vec<u8>,
    /// compat-id corruption: patch, word, style
    bad: (u8, u8, u8),
    /// non-injected decoder failure: patch, style
    natural: (u8, u8),
    salt: u32,
    /// skip fault enumeration and regrouping (huge cases)
    light: bool,
    /// fixed known-finding cases: the two listed grouping findings are reported instead of being tolerated
    #[serde(default)]
    raw: bool,
}

struct BuiltPatch {
    gids: Vec<u32>,
    /// indices into Scenario::kinds
    tables: Vec<usize>,
    /// listed tags that are not glyph-keyed tables
    extra: Vec<Tag4>,
    bytes: Vec<u8>,
    raw_len: usize,
    iftx: bool,
    cp: u32,
    flag_pos: usize,
    uri: String,
}
struct Scenario {
    n: usize,
    kinds: Vec<Kind>,
    cs_off: [usize; 2],
    version: u32,
    base_tables: Vec<(Tag4, Vec<u8>)>,
    font: Vec<u8>,
    base_glyphs: Vec<Vec<Vec<u8>>>,
    base_fmt: Vec<Fmt>,
    new_data: Vec<BTreeMap<u32, Vec<u8>>>,
    patches: Vec<BuiltPatch>,
    compat: [u32; 4],
    compat_x: [u32; 4],
    def_cps: Vec<u32>,
    raw: bool,
}

fn cff_prefixes() -> &'static (Vec<u8>, Vec<u8>) {
    static P: std::sync::OnceLock<(Vec<u8>, Vec<u8>)> = std::sync::OnceLock::new();
    P.get_or_init(|| {
        let fonts = corpus::repo_fonts();
        let get = |name: &str, tag: &Tag4, off: usize| -> Vec<u8> {
            let f = fonts.iter().find(|f| f.name == name).unwrap_or_else(|| panic!("corpus font {name} missing"));
            let (_, t) = sfnt::split_tables(&f.data).expect("corpus font splits");
            let tb = &t.iter().find(|x| &x.0 == tag).expect("corpus table").1;
            tb[..off].to_vec()
        };
        (get("NotoSansJP-Regular.subset.otf", b"CFF ", 0x1b9), get("NotoSansJP-VF.subset.otf", b"CFF2", 0x8f))
    })
}

fn thr_value(t: u8) -> usize {
    [SHORT_MAX, 254, 65534, 16_777_214][t as usize & 3]
}

impl Scenario {
    fn build(c: &GkCase) -> Result<Scenario, Fail> {
        let n = c.n_glyphs.max(1) as usize;
        let mut specs: Vec<TableSpec> = vec![];
        for k in KINDS {
            if let Some(s) = c.tables.iter().find(|s| s.kind == k) {
                specs.push(s.clone());
            }
        }
        if specs.is_empty() || c.patches.is_empty() {
            return Err(fail("setup", "case without tables or patches"));
        }
        let kinds: Vec<Kind> = specs.iter().map(|s| s.kind).collect();
        let nk = kinds.len();
        let np = c.patches.len().min(5);
        let salt = |a: u64, b: u64, d: u64| mix(mix(mix(c.salt as u64, a), b), d);

        // --- patched glyphs
        let mut pool: BTreeMap<u32, (u8, [u32; 4])> = BTreeMap::new();
        let pmask = ((1u16 << np) - 1) as u8;
        let mut add = |gid: usize, mask: u8, lens: [u32; 4]| {
            let mut m = mask & pmask;
            if m == 0 {
                m = 1 << (gid % np);
            }
            pool.entry(gid as u32).or_insert((m, lens));
        };
        for p in &c.pool {
            add(idx(p.gid_raw, n), p.mask, p.lens);
        }
        if let Some((start, len, mask)) = c.run {
            let s = idx(start, n);
            for i in 0..len as usize {
                if s + i < n {
                    let l = ((s + i) * 5 + len as usize) as u32 % 23;
                    add(s + i, mask, [l, l + 1, l + 2, l + 3]);
                }
            }
        }
        if c.edge & 1 != 0 {
            add(0, c.edge >> 2, [3, 4, 5, 6]);
        }
        if c.edge & 2 != 0 {
            add(n - 1, c.edge >> 3, [8, 7, 1, 0]);
        }
        // --- patches: table lists and glyph lists
        let mut ptables: Vec<Vec<usize>> = vec![];
        let mut pgids: Vec<Vec<u32>> = vec![];
        for (p, ps) in c.patches.iter().take(np).enumerate() {
            let mut m = ps.tables & (((1u16 << nk) - 1) as u8);
            if m == 0 {
                m = 1 << (ps.tables as usize % nk);
            }
            let mut t: Vec<usize> = (0..nk).filter(|i| m & (1 << i) != 0).collect();
            t.truncate(3);
            ptables.push(t);
            pgids.push(pool.iter().filter(|(_, v)| v.0 & (1 << p) != 0).map(|(g, _)| *g).collect());
        }
        let mut patched: Vec<BTreeSet<u32>> = vec![BTreeSet::new(); nk];
        for p in 0..np {
            for t in &ptables[p] {
                patched[*t].extend(pgids[p].iter().copied());
            }
        }
        // --- lengths
        let plan_table: Option<usize> = c.plan.as_ref().and_then(|pl| {
            let cands: Vec<usize> = (0..nk).filter(|t| matches!(kinds[*t], Kind::Glyf | Kind::Gvar) == (pl.thr & 3 == 0)).collect();
            if cands.is_empty() {
                None
            } else {
                Some(cands[pl.table_raw as usize % cands.len()])
            }
        });
        let mut short_intent = vec![false; nk];
        let mut base_len: Vec<Vec<usize>> = vec![];
        for (t, s) in specs.iter().enumerate() {
            let offs2 = matches!(s.kind, Kind::Glyf | Kind::Gvar);
            short_intent[t] = offs2 && (s.wide == 0 || (plan_table == Some(t) && c.plan.as_ref().map(|p| p.thr & 3 == 0).unwrap_or(false)));
            let tiny = s.tiny || (plan_table == Some(t) && c.plan.as_ref().map(|p| p.thr & 3 == 1).unwrap_or(false));
            let lens: Vec<usize> = (0..n)
                .map(|g| {
                    let mut l = if s.lens.is_empty() { 0 } else { s.lens[g % s.lens.len()] as usize };
                    if tiny {
                        l %= 8;
                    }
                    if short_intent[t] {
                        l &= !1;
                    }
                    l
                })
                .collect();
            base_len.push(lens);
        }
        let mut new_len: Vec<BTreeMap<u32, usize>> = vec![];
        for t in 0..nk {
            new_len.push(patched[t].iter().map(|g| (*g, pool[g].1[kinds[t] as usize] as usize)).collect());
        }
        if let (Some(pl), Some(t)) = (&c.plan, plan_table) {
            let thr = thr_value(pl.thr);
            let si = short_intent[t];
            let padded = |l: usize| if si { l + (l & 1) } else { l };
            let target = (thr as i64 + pl.delta as i64).max(0) as usize;
            let kept: Vec<usize> = (0..n).filter(|g| !patched[t].contains(&(*g as u32))).collect();
            let pg: Vec<u32> = patched[t].iter().copied().collect();
            if pl.in_base && !kept.is_empty() {
                let g = kept[idx(pl.filler_raw, kept.len())];
                let rest_final: usize = kept.iter().filter(|k| **k != g).map(|k| base_len[t][*k]).sum::<usize>() + new_len[t].values().map(|l| padded(*l)).sum::<usize>();
                let rest_base: usize = (0..n).filter(|k| *k != g).map(|k| base_len[t][k]).sum();
                let mut want = target.saturating_sub(rest_final);
                if si {
                    want = want.min(SHORT_MAX.saturating_sub(rest_base)) & !1;
                }
                base_len[t][g] = want;
            } else if !pg.is_empty() {
                let g = pg[idx(pl.filler_raw, pg.len())];
                let rest_final: usize = kept.iter().map(|k| base_len[t][*k]).sum::<usize>() + new_len[t].iter().filter(|(k, _)| **k != g).map(|(_, l)| padded(*l)).sum::<usize>();
                new_len[t].insert(g, target.saturating_sub(rest_final));
            }
        }
        // --- data
        let base_glyphs: Vec<Vec<Vec<u8>>> =(0..nk).map(|t| (0..n).map(|g| pat(salt(1, kinds[t] as u64, g as u64), base_len[t][g])).collect()).collect();
        let new_data: Vec<BTreeMap<u32, Vec<u8>>> = (0..nk).map(|t| new_len[t].iter().map(|(g, l)| (*g, pat(salt(2, kinds[t] as u64, *g as u64), *l))).collect()).collect();
        // --- base tables
        let mut base_fmt = vec![];
        let mut extra: Vec<(Tag4, Vec<u8>)> = vec![];
        let mut kit = fontkit::Kit { num_glyphs: n as u16, upem: 1000, ..Default::default() };
        let mut cs_off = [0usize; 2];
        let prefixes = cff_prefixes();
        for (t, s) in specs.iter().enumerate() {
            let total: usize = base_len[t].iter().sum();
            match s.kind {
                Kind::Glyf | Kind::Gvar => {
                    let short = short_intent[t] && total <= SHORT_MAX;
                    base_fmt.push(if short { Fmt::Short } else { Fmt::Long });
                    if s.kind == Kind::Glyf {
                        let mut offs = vec![0u32];
                        let mut bytes = vec![];
                        for g in &base_glyphs[t] {
                            bytes.extend_from_slice(g);
                            offs.push(bytes.len() as u32);
                        }
                        kit.glyf = Some((bytes, offs));
                        kit.force_long_loca = !short;
                    } else {
                        extra.push((*b"gvar", build_gvar(s.axes.clamp(1, 3) as u16, s.shared.min(4) as u16, s.ooo, !short, salt(3, 0, 0), &base_glyphs[t])));
                    }
                }
                Kind::Cff | Kind::Cff2 => {
                    let os = (cff_min_off_size(total) + s.wide).min(4);
                    base_fmt.push(Fmt::Off(os));
                    let which = (s.kind == Kind::Cff2) as usize;
                    let mut prefix = if which == 0 { prefixes.0.clone() } else { prefixes.1.clone() };
                    prefix.extend(pat(salt(4, which as u64, 0), s.gap as usize % 4));
                    cs_off[which] = prefix.len();
                    extra.push((s.kind.tag(), build_cff(&prefix, if which == 0 { 2 } else { 4 }, os, &base_glyphs[t])));
                }
            }
        }
        let has_cff = kinds.contains(&Kind::Cff);
        let has_cff2 = kinds.contains(&Kind::Cff2);
        let which = if (has_cff || has_cff2) && c.map.which % 3 == 2 { 1 } else { c.map.which % 3 };
        let compat = c.map.compat;
        let mut compat_x = compat;
        compat_x[c.map.x_word as usize % 4] ^= 0x8000_0001;
        // --- mapping tables
        #[derive(Clone, Copy)]
        enum Item {
            Patch(usize),
            Decoy(u8),
        }
        let mut items: [Vec<Item>; 2] = [vec![], vec![]];
        let in_x = |flag: bool| -> usize { (which == 2 || (which == 1 && flag)) as usize };
        for (p, ps) in c.patches.iter().take(np).enumerate() {
            items[in_x(ps.iftx)].push(Item::Patch(p));
        }
        for d in &c.map.decoys {
            let v = &mut items[in_x(d.iftx)];
            let at = idx((d.pos_raw as u32) << 16, v.len() + 1);
            v.insert(at, Item::Decoy(d.kind % 4));
        }
        let mut def_cps = vec![0x50u32];
        let mut where_patch: Vec<(bool, u32, usize)> = vec![(false, 0, 0); np]; // (iftx, cp, entry index)
        let mut encs: [Option<MapEnc>; 2] = [None, None];
        for x in 0..2 {
            let present = match which {
                0 => x == 0,
                1 => true,
                _ => x == 1,
            };
            if !present {
                if !items[x].is_empty() {
                    return Err(fail("setup", "entries for an absent mapping table"));
                }
                continue;
            }
            let base_cp = if x == 0 { 0x100u32 } else { 0x300 };
            let mut entries = vec![];
            for (j, it) in items[x].iter().enumerate() {
                let cp = base_cp + j as u32;
                let idd = if c.map.id_deltas.is_empty() { 0 } else { c.map.id_deltas[j % c.map.id_deltas.len()] };
                let mut e = EntryEnc { cp, format: None, ignored: false, id_delta: if idd == 0 { None } else { Some(idd - 1) }, bias_mode: (c.map.bias_mode as usize + j) as u8 % 3 };
                match it {
                    Item::Patch(p) => {
                        if (c.salt as usize + j) % 4 == 0 {
                            e.format = Some(3);
                        }
                        def_cps.push(cp);
                        where_patch[*p] = (x == 1, cp, j);
                    }
                    Item::Decoy(0) => e.ignored = true,
                    Item::Decoy(1) => {}
                    Item::Decoy(2) => e.format = Some(2),
                    Item::Decoy(_) => {
                        e.ignored = true;
                        def_cps.push(cp);
                    }
                }
                entries.push(e);
            }
            let (cid, tmpl): ([u32; 4], &[u8]) = if x == 0 { (compat, b"a/{id}") } else { (compat_x, b"b/{id}") };
            let (o1, o2) = if x == 0 { (has_cff.then_some(cs_off[0] as u32), has_cff2.then_some(cs_off[1] as u32)) } else { (None, None) };
            encs[x] = Some(encode_map(cid, 3, tmpl, o1, o2, c.map.gap as usize % 4, &entries));
        }
        for (x, tag) in [(0, IFT), (1, IFTX)] {
            if let Some(e) = &encs[x] {
                extra.push((tag, e.bytes.clone()));
            }
        }
        extra.push((*b"OS/2", pat(salt(5, 0, 0), 78)));
        extra.push((*b"name", pat(salt(5, 1, 0), 33)));
        extra.push((*b"cmap", pat(salt(5, 2, 0), 26)));
        extra.push((*b"zzzz", pat(salt(5, 3, 0), 7)));
        kit.h_metrics = vec![(500, 10)];
        kit.lsbs = vec![3; (n - 1).min(8)];
        kit.extra = extra;
        if kit.glyf.is_none() {
            kit.version = Some(u32::from_be_bytes(*b"OTTO"));
        }
        let base_tables = kit.tables();
        let version = kit.version.unwrap_or(0x00010000);
        let font = sfnt::assemble(version, &base_tables);
        // --- patches
        let mut patches = vec![];
        for (p, ps) in c.patches.iter().take(np).enumerate() {
            let mut cols: Vec<(Tag4, Option<usize>)> = ptables[p].iter().map(|t| (kinds[*t].tag(), Some(*t))).collect();
            for e in ps.extra.iter().take(3) {
                let tag = EXTRA_TAGS[*e as usize % EXTRA_TAGS.len()];
                if !cols.iter().any(|c| c.0 == tag) {
                    cols.push((tag, None));
                }
            }
            cols.sort();
            let tags: Vec<Tag4> = cols.iter().map(|c| c.0).collect();
            let extra_tags: Vec<Tag4> = cols.iter().filter(|c| c.1.is_none()).map(|c| c.0).collect();
            let data: Vec<Vec<Vec<u8>>> = cols
                .iter()
                .map(|(tag, t)| match t {
                    Some(t) => pgids[p].iter().map(|g| new_data[*t][g].clone()).collect(),
                    None => pgids[p].iter().map(|g| pat(salt(6, u32::from_be_bytes(*tag) as u64, *g as u64), (*g % 5) as usize)).collect(),
                })
                .collect();
            let raw = encode_glyph_patches(ps.wide_gids, &pgids[p], &tags, &data);
            let cut = if ps.split_raw & 1 == 1 { raw.len() } else { idx((ps.split_raw as u32) << 16, raw.len() + 1) };
            let stream = if cut == raw.len() { lit_stream(b'R', &[&raw]) } else { lit_stream(b'R', &[&raw[..cut], &raw[cut..]]) };
            let (iftx, cp, j) = where_patch[p];
            let cid = if iftx { compat_x } else { compat };
            let bytes = encode_gk_patch(ps.wide_gids, cid, (raw.len() + ps.slack as usize) as u32, &stream);
            let flag_pos = encs[iftx as usize].as_ref().unwrap().flag_pos[j];
            patches.push(BuiltPatch { gids: pgids[p].clone(), tables: ptables[p].clone(), extra: extra_tags, bytes, raw_len: raw.len(), iftx, cp, flag_pos, uri: String::new() });
        }
        Ok(Scenario { n, kinds, cs_off, version, base_tables, font, base_glyphs, base_fmt, new_data, patches, compat, compat_x, def_cps, raw: c.raw })
    }

    fn sibling_font(&self) -> Vec<u8> {
        let mut t = self.base_tables.clone();
        for (tag, d) in t.iter_mut() {
            if *tag == IFT || *tag == IFTX {
                d[8] ^= 0x10; // inside compat id word 0 of both tables: they stay distinct
            }
        }
        sfnt::assemble(self.version, &t)
    }
}

struct Decoded {
    tables: Tables,
    glyphs: Vec<Vec<Vec<u8>>>,
    fmt: Vec<Fmt>,
    gvar: Option<([usize; 5], Vec<u8>)>,
    /// every offset-width change so far follows 'never narrow, widen to the first sufficient width'
    explained: bool,
}
impl Scenario {
    fn decode(&self, tables: Tables, what: &str) -> Result<Decoded, Fail> {
        let mut glyphs = vec![];
        let mut fmt = vec![];
        let mut gv = None;
        for k in &self.kinds {
            let bad = |e: String| fail(&format!("gk|offsets|{}", k.name()), format!("{what}: {} does not decode: {e}", k.name()));
            let get = |t: &Tag4| tables.get(t).ok_or_else(|| fail("gk|table-set", format!("{what}: table {} is missing", tag_str(t))));
            match k {
                Kind::Glyf => {
                    let head = get(b"head")?;
                    let long = rd(head, 50, 2).ok_or_else(|| fail("gk|untouched-table", format!("{what}: head truncated")))? != 0;
                    glyphs.push(decode_glyf(get(b"glyf")?, get(b"loca")?, long, self.n).map_err(bad)?);
                    fmt.push(if long { Fmt::Long } else { Fmt::Short });
                }
                Kind::Gvar => {
                    let v = decode_gvar(get(b"gvar")?, self.n).map_err(bad)?;
                    glyphs.push(v.glyphs);
                    fmt.push(if v.long { Fmt::Long } else { Fmt::Short });
                    gv = Some((v.header, v.shared));
                }
                Kind::Cff | Kind::Cff2 => {
                    let w = (*k == Kind::Cff2) as usize;
                    let (g, os) = decode_cff(get(&k.tag())?, self.cs_off[w], if w == 0 { 2 } else { 4 }, self.n).map_err(bad)?;
                    glyphs.push(g);
                    fmt.push(Fmt::Off(os));
                }
            }
        }
        Ok(Decoded { tables, glyphs, fmt, gvar: gv, explained: true })
    }

    /// do the patches `now` list a tag that cannot be glyph-keyed? (the documented outcome is "ignored"; the property
    /// allows an error that leaves the bookkeeping alone, or a font in which every such table is untouched)
    fn lists_unsupported(&self, now: &[usize]) -> bool {
        now.iter().any(|p| !self.patches[*p].extra.is_empty())
    }
    /// tables touched by the patches `now` (indices into kinds)
    fn touched(&self, now: &[usize]) -> BTreeSet<usize> {
        now.iter().flat_map(|p| self.patches[*p].tables.iter().copied()).collect()
    }

    /// does the model say that applying `now` to `before` cannot be represented (short loca overflow)?
    fn expect_overflow(&self, before: &Decoded, now: &[usize]) -> bool {
        for t in self.touched(now) {
            if self.kinds[t] == Kind::Glyf && before.fmt[t] == Fmt::Short {
                let rep: BTreeSet<u32> = now.iter().filter(|p| self.patches[**p].tables.contains(&t)).flat_map(|p| self.patches[*p].gids.iter().copied()).collect();
                let mut total = 0usize;
                for g in 0..self.n {
                    total += if rep.contains(&(g as u32)) {
                        let l = self.new_data[t][&(g as u32)].len();
                        l + (l & 1)
                    } else {
                        before.glyphs[t][g].len()
                    };
                }
                if total > SHORT_MAX {
                    return true;
                }
            }
        }
        false
    }

    /// glyph set replaced in table t by the patches `now`
    fn replaced(&self, t: usize, now: &[usize]) -> BTreeSet<u32> {
        now.iter().filter(|p| self.patches[**p].tables.contains(&t)).flat_map(|p| self.patches[*p].gids.iter().copied()).collect()
    }
    /// size of table t's glyph data after applying `now` (padded when the offsets before are short)
    fn new_total(&self, before: &Decoded, t: usize, now: &[usize]) -> usize {
        let rep = self.replaced(t, now);
        let short = before.fmt[t] == Fmt::Short;
        (0..self.n)
            .map(|g| match rep.contains(&(g as u32)) {
                true => {
                    let l = self.new_data[t][&(g as u32)].len();
                    if short {
                        l + (l & 1)
                    } else {
                        l
                    }
                }
                false => before.glyphs[t][g].len(),
            })
            .sum()
    }
    /// offset widths after the step under the policy 'keep unless too small, then the first sufficient one'
    fn predict_fmt(&self, before: &Decoded, now: &[usize]) -> Vec<Fmt> {
        let touched = self.touched(now);
        (0..self.kinds.len())
            .map(|t| {
                if !touched.contains(&t) {
                    return before.fmt[t];
                }
                let total = self.new_total(before, t, now);
                match (self.kinds[t], before.fmt[t]) {
                    (Kind::Gvar, Fmt::Short) if total > SHORT_MAX => Fmt::Long,
                    (_, Fmt::Off(k)) => {
                        let cap = |k: u8| (1usize << (8 * k as usize)) - 2;
                        if total > cap(k) {
                            Fmt::Off((1..=4u8).find(|c| cap(*c) >= total).unwrap_or(4))
                        } else {
                            Fmt::Off(k)
                        }
                    }
                    (_, f) => f,
                }
            })
            .collect()
    }
    /// the oracle for one successful application of the patches `now` to the font decoded as `before`
    fn check_step(&self, before: &Decoded, out: &[u8], now: &[usize], what: &str) -> Result<Decoded, Fail> {
        let tabs = tables_of(out, what)?;
        let kb: Vec<&Tag4> = before.tables.keys().collect();
        let ka: Vec<&Tag4> = tabs.keys().collect();
        if kb != ka {
            return Err(fail("gk|table-set", format!("{what}: tables before {:?}, after {:?}", kb.iter().map(|t| tag_str(t)).collect::<Vec<_>>(), ka.iter().map(|t| tag_str(t)).collect::<Vec<_>>())));
        }
        let touched = self.touched(now);
        let mut touched_tags: BTreeSet<Tag4> = touched.iter().map(|t| self.kinds[*t].tag()).collect();
        if touched_tags.contains(b"glyf") {
            touched_tags.insert(*b"loca");
        }
        for (tag, b) in &before.tables {
            let a = &tabs[tag];
            if *tag == IFT || *tag == IFTX {
                let mut want = b.clone();
                for p in now {
                    let bp = &self.patches[*p];
                    if bp.iftx == (*tag == IFTX) {
                        want[bp.flag_pos] |= 0x40;
                    }
                }
                if *a != want {
                    let diffs: Vec<(usize, u8, u8)> = a.iter().zip(want.iter()).enumerate().filter(|(_, (x, y))| x != y).map(|(i, (x, y))| (i, *x, *y)).take(6).collect();
                    return Err(fail("gk|applied-bits", format!("{what}: {} differs from 'before + applied bits of the applied patches': (pos, got, want) {diffs:x?}, lengths {}/{}", tag_str(tag), a.len(), want.len())));
                }
            } else if !touched_tags.contains(tag) && norm(tag, a) != norm(tag, b) {
                return Err(fail("gk|untouched-table", format!("{what}: table {} is not listed in any applied patch but changed ({})", tag_str(tag), first_diff(a, b))));
            }
        }
        let mut after = self.decode(tabs, what)?;
        after.explained = before.explained && after.fmt == self.predict_fmt(before, now);
        for (t, k) in self.kinds.iter().enumerate() {
            if !touched.contains(&t) {
                continue; // byte-identical, checked above
            }
            let rep: BTreeSet<u32> = now.iter().filter(|p| self.patches[**p].tables.contains(&t)).flat_map(|p| self.patches[*p].gids.iter().copied()).collect();
            for g in 0..self.n {
                let got = &after.glyphs[t][g];
                if rep.contains(&(g as u32)) {
                    let mut want = self.new_data[t][&(g as u32)].clone();
                    if after.fmt[t] == Fmt::Short && want.len() % 2 == 1 {
                        want.push(0);
                    }
                    if *got != want {
                        return Err(fail(&format!("gk|patched-glyph|{}", k.name()), format!("{what}: {} glyph {g} is listed in an applied patch; data {} (patch data {} bytes, offsets {:?})", k.name(), first_diff(got, &want), self.new_data[t][&(g as u32)].len(), after.fmt[t])));
                    }
                } else if *got != before.glyphs[t][g] {
                    return Err(fail(&format!("gk|kept-glyph|{}", k.name()), format!("{what}: {} glyph {g} is not listed in any applied patch but its data changed ({})", k.name(), first_diff(got, &before.glyphs[t][g]))));
                }
            }
            match k {
                Kind::Gvar => {
                    if after.gvar != before.gvar {
                        return Err(fail("gk|gvar-frame", format!("{what}: gvar header fields / shared tuples changed: {:?} -> {:?}", before.gvar.as_ref().map(|x| x.0), after.gvar.as_ref().map(|x| x.0))));
                    }
                }
                Kind::Cff | Kind::Cff2 => {
                    let cs = self.cs_off[(*k == Kind::Cff2) as usize];
                    let tag = k.tag();
                    if after.tables[&tag].get(..cs) != before.tables[&tag].get(..cs) {
                        return Err(fail("gk|cff-prefix", format!("{what}: {} bytes before the charstrings INDEX changed", k.name())));
                    }
                }
                Kind::Glyf => {}
            }
        }
        Ok(after)
    }
}

// ------------------------------------------------------------------------------------------------------
// glyph-keyed scenarios: driver and oracles

fn is_overflow(e: &PatchingError) -> bool {
    *e == PatchingError::SerializationError(SerializeErrorFlags::SERIALIZE_ERROR_OFFSET_OVERFLOW)
}
fn discover(font: &FontRef, cp: u32, what: &str) -> Result<PatchUri, Fail> {
    let def = SubsetDefinition::codepoints([cp].into_iter().collect());
    let mut v = intersecting_patches(font, &def).map_err(|e| fail("select|query", format!("{what}: intersecting_patches failed: {e}")))?;
    if v.len() != 1 {
        return Err(fail("select|query", format!("{what}: code point {cp:#x} belongs to exactly one unapplied entry, got {} patches", v.len())));
    }
    Ok(v.pop().unwrap())
}
fn info_of(u: PatchUri) -> Result<PatchInfo, Fail> {
    PatchInfo::try_from(u).map_err(|_| fail("select|query", "PatchInfo::try_from failed on a valid template"))
}
fn permutation(n: usize, seed: u64) -> Vec<usize> {
    let mut v: Vec<usize> = (0..n).collect();
    let mut p = seed;
    for i in (1..n).rev() {
        p = p.wrapping_mul(6364136223846793005).wrapping_add(1442695040888963407);
        v.swap(i, (p >> 33) as usize % (i + 1));
    }
    v
}
fn def_of(cps: impl IntoIterator<Item = u32>) -> SubsetDefinition {
    SubsetDefinition::codepoints(cps.into_iter().collect::<IntSet<u32>>())
}

struct Gk<'a> {
    sc: &'a Scenario,
    stats: &'a Stats,
}
impl Gk<'_> {
    fn fresh_map(&self, replace: Option<(usize, &[u8])>) -> HashMap<String, UriStatus> {
        let mut m = HashMap::new();
        for (i, p) in self.sc.patches.iter().enumerate() {
            let bytes = match replace {
                Some((j, b)) if j == i => b.to_vec(),
                _ => p.bytes.clone(),
            };
            m.insert(p.uri.clone(), UriStatus::Pending(bytes));
        }
        m.insert("zz/unrelated".to_string(), UriStatus::Pending(vec![1, 2, 3]));
        m.insert("zz/done".to_string(), UriStatus::Applied);
        m
    }
    fn uris_of(&self, set: &[usize]) -> Vec<String> {
        let mut v: Vec<String> = set.iter().map(|p| self.sc.patches[*p].uri.clone()).collect();
        v.sort();
        v
    }
    /// select on `font` with `def`, require exactly the URIs of `expect`, apply with `dec`
    fn group_apply(&self, font: &[u8], def: &SubsetDefinition, expect: &[usize], map: &mut HashMap<String, UriStatus>, dec: &Dec, what: &str) -> Result<Result<Vec<u8>, PatchingError>, Fail> {
        let f = FontRef::new(font).map_err(|e| fail("reopen", format!("{what}: {e}")))?;
        let group = guarded(|| PatchGroup::select_next_patches(f, def))?.map_err(|e| fail("select|group", format!("{what}: select_next_patches failed: {e}")))?;
        let mut got: Vec<String> = group.uris().map(|s| s.to_string()).collect();
        got.sort();
        let want = self.uris_of(expect);
        if got != want {
            return Err(fail("select|group", format!("{what}: the group offers {got:?}, the unapplied requested glyph-keyed entries are {want:?}")));
        }
        self.stats.evals(1);
        guarded(|| group.apply_next_patches_with_decoder(map, dec))
    }
    /// low-level application of the patches `order` (in that order), PatchInfos taken from `info_font`
    fn low_apply(&self, font: &[u8], info_font: &[u8], order: &[usize], replace: Option<(usize, &[u8])>, dec: &Dec, what: &str) -> Result<Result<Vec<u8>, PatchingError>, Fail> {
        let f = FontRef::new(font).map_err(|e| fail("reopen", format!("{what}: {e}")))?;
        let fi = FontRef::new(info_font).map_err(|e| fail("reopen", format!("{what}: {e}")))?;
        let mut infos = vec![];
        for p in order {
            infos.push(info_of(discover(&fi, self.sc.patches[*p].cp, what)?)?);
        }
        let datas: Vec<&[u8]> = order
            .iter()
            .map(|p| match replace {
                Some((j, b)) if j == *p => b,
                _ => &self.sc.patches[*p].bytes[..],
            })
            .collect();
        self.stats.evals(1);
        guarded(|| f.apply_glyph_keyed_patches(infos.iter().zip(datas.iter().copied()), dec))
    }
    fn expect_failure(&self, r: Result<Vec<u8>, PatchingError>, map: Option<(&HashMap<String, UriStatus>, &Snap)>, sig: &str, what: &str) -> CaseResult {
        if r.is_ok() {
            return Err(fail(&format!("{sig}|not-an-error"), format!("{what}: the application returned Ok")));
        }
        if let Some((m, before)) = map {
            if snap(m) != *before {
                return Err(fail(&format!("{sig}|bookkeeping"), format!("{what}: the application failed ({}) but the caller's URI status map changed", r.err().unwrap())));
            }
        }
        Ok(())
    }
    fn applied_snap(&self, before: &Snap, set: &[usize]) -> Snap {
        let mut s = before.clone();
        for p in set {
            s.insert(self.sc.patches[*p].uri.clone(), None);
        }
        s
    }
    fn compare_final(&self, full: &Decoded, other: &Decoded, what: &str) -> CaseResult {
        if full.tables == other.tables {
            return Ok(());
        }
        // The tables differ. Two listed findings explain some differences exactly; anything else is a violation.
        let sc = self.sc;
        let (mut width, mut padding) = (false, false);
        for (tag, d) in &full.tables {
            if other.tables.get(tag).map(|o| norm(tag, o)) == Some(norm(tag, d)) {
                continue; // equal up to head.checksumAdjustment, which is a function of the other tables
            }
            let name = tag_str(tag);
            let t = match sc.kinds.iter().position(|k| k.tag() == *tag) {
                Some(t) if sc.kinds[t] != Kind::Glyf => t,
                _ => return Err(fail("order|content", format!("{what}: table {name} differs from the all-at-once application"))),
            };
            let mut pad_here = false;
            for g in 0..sc.n {
                let (a, b) = (&full.glyphs[t][g], &other.glyphs[t][g]);
                if a != b {
                    let explained = sc.kinds[t] == Kind::Gvar
                        && sc.new_data[t]
                            .get(&(g as u32))
                            .map(|nd| {
                                let mut p = nd.clone();
                                p.push(0);
                                nd.len() % 2 == 1 && ((a == nd && *b == p) || (b == nd && *a == p))
                            })
                            .unwrap_or(false);
                    if !explained {
                        return Err(fail("order|content", format!("{what}: {name} glyph {g} differs from the all-at-once application ({})", first_diff(a, b))));
                    }
                    pad_here = true;
                }
            }
            let width_here = full.fmt[t] != other.fmt[t];
            if width_here && !(full.explained && other.explained) {
                return Err(fail("order|representation", format!("{what}: {name} offset widths {:?} vs {:?} not explained by the sizes passed through", full.fmt[t], other.fmt[t])));
            }
            if !width_here && !pad_here {
                return Err(fail("order|representation", format!("{what}: {name} decodes to the same glyph data with the same offset width but differs in bytes")));
            }
            width |= width_here;
            padding |= pad_here;
        }
        if !sc.raw {
            if width {
                self.stats.class("excluded_known:offset-width-depends-on-grouping");
            }
            if padding {
                self.stats.class("excluded_known:gvar-padding-depends-on-grouping");
            }
            return Ok(());
        }
        if padding {
            return Err(fail("order|gvar-padding-depends-on-grouping", format!("{what}: odd-length gvar data is zero-padded when written under short offsets and not when the same step widens to long offsets; the bytes stay after a later widening (offset formats {:?} vs {:?})", full.fmt, other.fmt)));
        }
        Err(fail("order|offset-width-depends-on-grouping", format!("{what}: same glyph data as the all-at-once application, offset widths {:?} vs {:?}: an intermediate font needed the wider offsets and widths are never narrowed", full.fmt, other.fmt)))
    }
    /// apply `groups` one after the other; Ok(None) when an intermediate font is not representable (short loca)
    fn sequence(&self, groups: &[Vec<usize>], via_group: bool, what: &str) -> Result<Option<Decoded>, Fail> {
        let sc = self.sc;
        let mut cur_font = sc.font.clone();
        let mut cur = sc.decode(tables_of(&cur_font, what)?, what)?;
        let mut map = self.fresh_map(None);
        let mut cps: Vec<u32> = vec![0x51];
        for (j, members) in groups.iter().enumerate() {
            let w = format!("{what}, step {j} {members:?}");
            let ovf = sc.expect_overflow(&cur, members);
            let before = snap(&map);
            let r = if via_group {
                cps.extend(members.iter().map(|p| sc.patches[*p].cp));
                self.group_apply(&cur_font, &def_of(cps.iter().copied()), members, &mut map, &Dec::ok(), &w)?
            } else {
                self.low_apply(&cur_font, &cur_font, members, None, &Dec::ok(), &w)?
            };
            match (r, ovf) {
                (Ok(out), false) => {
                    cur = sc.check_step(&cur, &out, members, &w)?;
                    cur_font = out;
                    if via_group && snap(&map) != self.applied_snap(&before, members) {
                        return Err(fail("gk|bookkeeping-on-success", format!("{w}: after success exactly the applied URIs become Applied")));
                    }
                }
                (Ok(_), true) => return Err(fail("gk|overflow-not-refused", format!("{w}: new glyf data exceeds the short loca range, expected Err(OFFSET_OVERFLOW)"))),
                (Err(e), true) => {
                    if !is_overflow(&e) {
                        return Err(fail("gk|overflow-error-kind", format!("{w}: expected Err(SerializationError(OFFSET_OVERFLOW)), got {e:?}")));
                    }
                    if via_group && snap(&map) != before {
                        return Err(fail("gk|overflow|bookkeeping", format!("{w}: failed but the URI status map changed")));
                    }
                    self.stats.class("order:intermediate-not-representable");
                    return Ok(None);
                }
                (Err(e), false) if sc.lists_unsupported(members) => {
                    if via_group && snap(&map) != before {
                        return Err(fail("gk|unsupported-tag|bookkeeping", format!("{w}: failed ({e:?}) but the URI status map changed")));
                    }
                    self.stats.class("unsupported-tag:refused");
                    return Ok(None);
                }
                (Err(e), false) => return Err(fail("gk|unexpected-error", format!("{w}: {e:?}"))),
            }
        }
        Ok(Some(cur))
    }
}

fn test_gk(c: &GkCase, stats: &Stats) -> CaseResult {
    let mut sc = Scenario::build(c)?;
    let base = sc.decode(tables_of(&sc.font, "base")?, "base")?;
    if base.glyphs != sc.base_glyphs || base.fmt != sc.base_fmt {
        return Err(fail("setup|base-decode", "harness: the base font does not decode to the generated glyph data"));
    }
    {
        let font = FontRef::new(&sc.font).map_err(|e| fail("setup", format!("base font: {e}")))?;
        let mut seen = BTreeSet::new();
        for i in 0..sc.patches.len() {
            let u = discover(&font, sc.patches[i].cp, "base")?.uri_string().map_err(|_| fail("select|query", "uri_string failed"))?;
            if !seen.insert(u.clone()) {
                return Err(fail("select|query", format!("two entries share the URI {u}")));
            }
            sc.patches[i].uri = u;
        }
    }
    let sc = &sc;
    let gk = Gk { sc, stats };
    let np = sc.patches.len();
    let all: Vec<usize> = (0..np).collect();
    let def = def_of(sc.def_cps.iter().copied());
    let ovf = sc.expect_overflow(&base, &all);

    // (1) all at once through PatchGroup
    let mut map = gk.fresh_map(None);
    let before = snap(&map);
    let dec = Dec::ok();
    let r = gk.group_apply(&sc.font, &def, &all, &mut map, &dec, "all-at-once")?;
    let calls = dec.calls.get();
    let full: Option<(Vec<u8>, Decoded)> = match (r, ovf) {
        (Ok(out), false) => {
            let d = sc.check_step(&base, &out, &all, "all-at-once")?;
            if snap(&map) != gk.applied_snap(&before, &all) {
                return Err(fail("gk|bookkeeping-on-success", "all-at-once: after success exactly the applied URIs become Applied"));
            }
            Some((out, d))
        }
        (Ok(_), true) => return Err(fail("gk|overflow-not-refused", "all-at-once: new glyf data exceeds the short loca range, expected Err(OFFSET_OVERFLOW)")),
        (Err(e), true) => {
            if !is_overflow(&e) {
                return Err(fail("gk|overflow-error-kind", format!("all-at-once: expected Err(SerializationError(OFFSET_OVERFLOW)), got {e:?}")));
            }
            if snap(&map) != before {
                return Err(fail("gk|overflow|bookkeeping", "all-at-once: failed but the URI status map changed"));
            }
            None
        }
        (Err(e), false) if sc.lists_unsupported(&all) => {
            if snap(&map) != before {
                return Err(fail("gk|unsupported-tag|bookkeeping", format!("all-at-once: failed ({e:?}) but the URI status map changed")));
            }
            stats.class("unsupported-tag:refused");
            return Ok(());
        }
        (Err(e), false) => return Err(fail("gk|unexpected-error", format!("all-at-once: {e:?}"))),
    };

    // (2) low-level API, listed and permuted order
    let perm = permutation(np, c.perm);
    for (order, what) in [(&all, "low-level listed order"), (&perm, "low-level permuted order")] {
        match (gk.low_apply(&sc.font, &sc.font, order, None, &Dec::ok(), what)?, &full) {
            (Ok(out), Some((fo, fd))) => {
                if out != *fo {
                    let d = sc.check_step(&base, &out, &all, what)?;
                    gk.compare_final(fd, &d, what)?;
                    return Err(fail("order|container", format!("{what}: same tables, different file bytes")));
                }
            }
            (Err(e), None) if is_overflow(&e) => {}
            (r, _) => return Err(fail("order|outcome", format!("{what}: outcome {:?} differs from the PatchGroup application ({})", r.map(|b| b.len()), if full.is_some() { "Ok" } else { "overflow error" }))),
        }
    }
    if perm != all {
        stats.class("order:permuted");
    }

    let mut max_k = 0usize;
    if !c.light {
        // (3) decoder fault at call k with every error kind
        for k in 0..calls {
            for (i, ek) in ALL_EK.iter().enumerate() {
                let mut map = gk.fresh_map(None);
                let before = snap(&map);
                let what = format!("decoder fails at call {k} with {ek:?}");
                let r = gk.group_apply(&sc.font, &def, &all, &mut map, &Dec::failing(k, *ek), &what)?;
                gk.expect_failure(r, Some((&map, &before)), "fault", &what)?;
                if (i + k) % ALL_EK.len() == 0 {
                    let r = gk.low_apply(&sc.font, &sc.font, &perm, None, &Dec::failing(k, *ek), &what)?;
                    gk.expect_failure(r, None, "fault|low-level", &what)?;
                }
            }
            max_k = k;
        }
        stats.class_n("faults-injected", (calls * ALL_EK.len()) as u64);

        // (4) compatibility id mismatch
        let j = c.bad.0 as usize % np;
        let mut bad = sc.patches[j].bytes.clone();
        let pos = compat_pos(&bad);
        if c.bad.2 % 2 == 0 {
            bad[pos + (c.bad.1 as usize % 16)] ^= 1 << (c.bad.2 % 8);
        } else {
            let other = if sc.patches[j].iftx { sc.compat } else { sc.compat_x };
            for (w, x) in other.iter().enumerate() {
                bad[pos + 4 * w..pos + 4 * w + 4].copy_from_slice(&x.to_be_bytes());
            }
        }
        let mut map = gk.fresh_map(Some((j, &bad)));
        let before = snap(&map);
        let what = format!("patch {j} carries a different compatibility id");
        let d = Dec::ok();
        let r = gk.group_apply(&sc.font, &def, &all, &mut map, &d, &what)?;
        gk.expect_failure(r, Some((&map, &before)), "compat", &what)?;
        let r = gk.low_apply(&sc.font, &sc.font, &perm, Some((j, &bad)), &Dec::ok(), &what)?;
        gk.expect_failure(r, None, "compat|low-level", &what)?;
        let sib = sc.sibling_font();
        let r = gk.low_apply(&sc.font, &sib, &all, None, &Dec::ok(), "PatchInfo from a font with another compatibility id")?;
        gk.expect_failure(r, None, "compat|foreign-info", "PatchInfo from a font with another compatibility id")?;
        stats.class("compat-mismatch");

        // (5) a decoder failure that is not injected: undersized maxUncompressedLength / malformed stream
        let j = c.natural.0 as usize % np;
        let mut bad = sc.patches[j].bytes.clone();
        match c.natural.1 % 3 {
            0 => bad[25..29].copy_from_slice(&((sc.patches[j].raw_len - 1) as u32).to_be_bytes()),
            1 => bad[30] = b'X',
            _ => bad[29] = b'D',
        }
        let mut map = gk.fresh_map(Some((j, &bad)));
        let before = snap(&map);
        let what = format!("patch {j} has an undecodable stream (style {})", c.natural.1 % 3);
        let r = gk.group_apply(&sc.font, &def, &all, &mut map, &Dec::ok(), &what)?;
        gk.expect_failure(r, Some((&map, &before)), "decode-failure", &what)?;
        // (5b) the patch cut after its 29 byte header: no stream at all is as undecodable as a malformed one
        let mut bad = sc.patches[j].bytes.clone();
        bad.truncate(29);
        let mut map = gk.fresh_map(Some((j, &bad)));
        let before = snap(&map);
        let what = format!("patch {j} has a zero-length stream");
        let r = gk.group_apply(&sc.font, &def, &all, &mut map, &Dec::ok(), &what)?;
        gk.expect_failure(r, Some((&map, &before)), "decode-failure|empty-stream", &what)?;
        stats.class("gk:empty-stream-patch");
        // (5c) the patch cut short inside its 29 byte header
        let mut bad = sc.patches[j].bytes.clone();
        bad.truncate(c.natural.1 as usize % 29);
        let mut map = gk.fresh_map(Some((j, &bad)));
        let before = snap(&map);
        let what = format!("patch {j} cut to {} bytes", bad.len());
        let r = gk.group_apply(&sc.font, &def, &all, &mut map, &Dec::ok(), &what)?;
        gk.expect_failure(r, Some((&map, &before)), "truncated-patch", &what)?;
        stats.class("gk:truncated-in-header");

        // (6) other groupings / orders
        if np >= 2 {
            let mut groups: Vec<Vec<usize>> = vec![vec![]; 3];
            for p in 0..np {
                let g = if c.partition.is_empty() { p % 3 } else { c.partition[p % c.partition.len()] as usize % 3 };
                groups[g].push(p);
            }
            groups.retain(|g| !g.is_empty());
            if groups.len() >= 2 {
                stats.class(&format!("order:partition-into-{}", groups.len()));
                if let (Some(d), Some((_, fd))) = (gk.sequence(&groups, true, "partition through PatchGroup")?, &full) {
                    gk.compare_final(fd, &d, "partition through PatchGroup")?;
                }
                groups.reverse();
                if let (Some(d), Some((_, fd))) = (gk.sequence(&groups, false, "reversed partition, low-level")?, &full) {
                    gk.compare_final(fd, &d, "reversed partition, low-level")?;
                }
            }
            let singles: Vec<Vec<usize>> = perm.iter().map(|p| vec![*p]).collect();
            if let (Some(d), Some((_, fd))) = (gk.sequence(&singles, c.perm & 1 == 0, "one patch at a time, permuted")?, &full) {
                gk.compare_final(fd, &d, "one patch at a time, permuted")?;
            }
        }
    }

    // --- evidence
    let kinds: Vec<&str> = sc.kinds.iter().map(|k| k.name()).collect();
    stats.class(&format!("tables:{}", kinds.join("+")));
    stats.class(&format!("patches={np}"));
    let mut nontrivial = max_k >= 2;
    let overlap = {
        let mut cnt: BTreeMap<u32, usize> = BTreeMap::new();
        for p in &sc.patches {
            for g in &p.gids {
                *cnt.entry(*g).or_default() += 1;
            }
        }
        cnt.values().filter(|c| **c >= 2).count()
    };
    if overlap > 0 {
        stats.class("glyphs-shared-between-patches");
    }
    if sc.patches.iter().any(|p| p.gids.is_empty()) {
        stats.class("patch-with-no-glyphs");
    }
    for p in &sc.patches {
        if p.extra.iter().any(|t| base.tables.contains_key(t)) {
            stats.class("lists-unsupported-tag-present-in-font");
        }
        if p.extra.iter().any(|t| !base.tables.contains_key(t)) {
            stats.class("lists-unsupported-tag-absent-from-font");
        }
    }
    if sc.patches.iter().any(|p| p.tables.len() >= 2) {
        stats.class("patch-with-2+-tables");
    }
    if sc.patches.iter().any(|p| p.iftx) && sc.patches.iter().any(|p| !p.iftx) {
        stats.class("entries-in-IFT-and-IFTX");
    }
    for (t, k) in sc.kinds.iter().enumerate() {
        stats.class(&format!("base:{}:{:?}", k.name(), sc.base_fmt[t]));
        let rep = sc.new_data[t].len();
        if rep > 0 && rep < sc.n {
            stats.class("keeps-and-replaces");
        }
        if sc.new_data[t].values().any(|d| d.len() % 2 == 1) {
            stats.class("odd-length-data");
        }
        if sc.new_data[t].values().any(|d| d.is_empty()) {
            stats.class("empty-data");
        }
        let bt: usize = sc.base_glyphs[t].iter().map(|g| g.len()).sum();
        match &full {
            Some((_, d)) => {
                let at: usize = d.glyphs[t].iter().map(|g| g.len()).sum();
                if d.fmt[t] != sc.base_fmt[t] {
                    stats.class(&format!("widened:{}:{:?}->{:?}", k.name(), sc.base_fmt[t], d.fmt[t]));
                }
                if rep > 0 && rep < sc.n && at != bt {
                    nontrivial = true;
                }
                let thr = match (k, sc.base_fmt[t]) {
                    (_, Fmt::Short) => Some(SHORT_MAX),
                    (_, Fmt::Off(1)) => Some(254),
                    (_, Fmt::Off(2)) => Some(65534),
                    (_, Fmt::Off(3)) => Some(16_777_214),
                    _ => None,
                };
                if let Some(thr) = thr {
                    if at.abs_diff(thr) <= 4 {
                        stats.class(&format!("new-size-within-4-of-limit:{}:{:?}", k.name(), sc.base_fmt[t]));
                    }
                }
                if at > SHORT_MAX && *k == Kind::Glyf {
                    stats.class("long-glyf-above-short-range");
                }
            }
            None => {
                stats.class("short-loca-overflow-refused");
                nontrivial = nontrivial || (rep > 0 && rep < sc.n);
            }
        }
    }
    if nontrivial {
        stats.nontrivial(hash_json(c));
        static GK_SAMPLES: std::sync::atomic::AtomicUsize = std::sync::atomic::AtomicUsize::new(0);
        if stats.want_sample() && GK_SAMPLES.fetch_add(1, std::sync::atomic::Ordering::Relaxed) < 5 {
            stats.sample(serde_json::json!({"stage": "glyph-keyed", "glyphs": sc.n, "tables": kinds, "base_formats": format!("{:?}", sc.base_fmt),
                "patches": sc.patches.iter().map(|p| serde_json::json!({"gids": p.gids.iter().take(12).collect::<Vec<_>>(), "tables": p.tables, "iftx": p.iftx, "bytes": p.bytes.len()})).collect::<Vec<_>>(),
                "outcome": if full.is_some() { "applied" } else { "OFFSET_OVERFLOW" }, "decoder_calls": calls}));
        }
    }
    Ok(())
}

// ------------------------------------------------------------------------------------------------------
// glyph-keyed scenarios: generator

fn base_len_strategy() -> impl Strategy<Value = u16> {
    prop_oneof![3 => Just(0u16), 5 => 1u16..40, 2 => 40u16..600, 1 => 600u16..5000]
}
fn new_len_strategy() -> impl Strategy<Value = u32> {
    prop_oneof![
        2 => Just(0u32),
        3 => (0u32..30).prop_map(|x| 2 * x + 1),
        3 => (0u32..30).prop_map(|x| 2 * x),
        2 => 60u32..2000,
        1 => 2000u32..40000,
    ]
}
fn table_spec(kind: Kind) -> impl Strategy<Value = TableSpec> {
    (
        prop_oneof![4 => Just(0u8), 2 => Just(1u8), 1 => Just(2u8), 1 => Just(3u8)],
        proptest::collection::vec(base_len_strategy(), 1..24),
        prop_oneof![2 => Just(false), 1 => Just(true)],
        1u8..=2,
        0u8..=3,
        any::<bool>(),
        0u8..4,
    )
        .prop_map(move |(wide, lens, tiny, axes, shared, ooo, gap)| TableSpec { kind, wide, lens, tiny, axes, shared, ooo, gap })
}
fn tables_strategy() -> impl Strategy<Value = Vec<TableSpec>> {
    // bit per Kind (Cff, Cff2, Glyf, Gvar)
    let mask = prop_oneof![
        6 => Just(0b0100u8),
        6 => Just(0b1100u8),
        1 => Just(0b1000u8),
        4 => Just(0b0001u8),
        4 => Just(0b0010u8),
        1 => Just(0b1010u8),
        1 => Just(0b1101u8),
        1 => Just(0b0101u8),
        1 => Just(0b1111u8),
    ];
    (mask, table_spec(Kind::Cff), table_spec(Kind::Cff2), table_spec(Kind::Glyf), table_spec(Kind::Gvar)).prop_map(|(m, a, b, c, d)| [a, b, c, d].into_iter().enumerate().filter(|(i, _)| m & (1 << i) != 0).map(|x| x.1).collect())
}
fn pool_glyph() -> impl Strategy<Value = PoolGlyph> {
    (any::<u32>(), prop_oneof![2 => (0u8..5).prop_map(|b| 1u8 << b), 3 => 1u8..32], [new_len_strategy(), new_len_strategy(), new_len_strategy(), new_len_strategy()]).prop_map(|(gid_raw, mask, lens)| PoolGlyph { gid_raw, mask, lens })
}
fn patch_spec() -> impl Strategy<Value = PatchSpec> {
    (any::<bool>(), prop_oneof![3 => Just(0xFFu8), 2 => 1u8..16], any::<bool>(), prop_oneof![2 => Just(0u8), 1 => any::<u8>()], any::<u16>(), prop_oneof![3 => Just(vec![]), 2 => proptest::collection::vec(0u8..13, 1..=3)]).prop_map(|(wide_gids, tables, iftx, slack, split_raw, extra)| PatchSpec { wide_gids, tables, iftx, slack, split_raw, extra })
}
fn map_spec() -> impl Strategy<Value = MapSpec> {
    (
        prop_oneof![3 => Just(0u8), 3 => Just(1u8), 1 => Just(2u8)],
        any::<[u32; 4]>(),
        0u8..4,
        0u8..4,
        0u8..3,
        proptest::collection::vec(0u8..5, 1..4),
        proptest::collection::vec((any::<bool>(), any::<u16>(), 0u8..4).prop_map(|(iftx, pos_raw, kind)| Decoy { iftx, pos_raw, kind }), 0..4),
    )
        .prop_map(|(which, compat, x_word, gap, bias_mode, id_deltas, decoys)| MapSpec { which, compat, x_word, gap, bias_mode, id_deltas, decoys })
}
fn plan_strategy() -> impl Strategy<Value = Option<SizePlan>> {
    let p = (any::<u8>(), prop_oneof![5 => Just(0u8), 3 => Just(1u8), 2 => Just(2u8)], -4i8..=4, any::<bool>(), any::<u32>()).prop_map(|(table_raw, thr, delta, in_base, filler_raw)| SizePlan { table_raw, thr, delta, in_base, filler_raw });
    prop_oneof![5 => Just(None), 5 => p.prop_map(Some)]
}
fn gk_strategy() -> impl Strategy<Value = GkCase> {
    (
        (prop_oneof![6 => 1u16..=40, 2 => 41u16..=400, 1 => 401u16..=3000], tables_strategy(), proptest::collection::vec(pool_glyph(), 0..14)),
        (proptest::option::weighted(0.4, (any::<u32>(), 2u8..12, 1u8..32)), any::<u8>(), proptest::collection::vec(patch_spec(), 1..=5), map_spec(), plan_strategy()),
        (any::<u64>(), proptest::collection::vec(0u8..3, 5), (any::<u8>(), any::<u8>(), any::<u8>()), (any::<u8>(), any::<u8>()), any::<u32>()),
    )
        .prop_map(|((n_glyphs, tables, pool), (run, edge, patches, map, plan), (perm, partition, bad, natural, salt))| GkCase { n_glyphs, tables, pool, run, edge, patches, map, plan, perm, partition, bad, natural, salt, light: false, raw: false })
}

// ------------------------------------------------------------------------------------------------------
// table-keyed scenarios

const TK_TAGS: [Tag4; 12] = [*b"tab1", *b"tab2", *b"tab3", *b"tab4", *b"glyf", *b"loca", *b"head", *b"cmap", *b"CFF ", *b"OS/2", *b"zzzz", *b"GSUB"];
fn tk_tag(i: u8) -> Tag4 {
    match i % 14 {
        12 => IFT,
        13 => IFTX,
        j => TK_TAGS[j as usize],
    }
}
#[derive(Clone, Debug, Serialize, Deserialize)]
enum Ins {
    Lit(Vec<u8>),
    Pat(u16, u16),
    Copy(u32, u32),
}
#[derive(Clone, Debug, Serialize, Deserialize)]
struct TkEntry {
    target: u8,
    /// flags: 0 diff against the base table, 1 replace, 2 drop, 3 drop + replace
    mode: u8,
    /// Some(k): same tag as the k-th earlier entry of the patch (duplicate tag)
    #[serde(default)]
    dup: Option<u8>,
    prog: Vec<Ins>,
    slack: u8,
}
#[derive(Clone, Debug, Serialize, Deserialize)]
struct TkCase {
    /// (tag index, length, seed); first occurrence of a tag wins
    base: Vec<(u8, u16, u16)>,
    entries: Vec<TkEntry>,
    in_iftx: bool,
    which: u8,
    /// 1 fully invalidating, 2 partially invalidating
    format: u8,
    compat: [u32; 4],
    x_word: u8,
    gap: u8,
    /// glyph-keyed decoy entries: (IFTX?, position, 0 requested / 1 not requested / 2 ignored)
    decoys: Vec<(bool, u16, u8)>,
    bad: (u8, u8),
    natural: (u8, u8),
    salt: u32,
}

struct TkScenario {
    base: Tables,
    font: Vec<u8>,
    version: u32,
    model: Tables,
    /// (tag, flags, max, stream) as encoded; and per entry the expected result (None = dropped)
    entries: Vec<(Tag4, u8, u32, Vec<u8>)>,
    results: Vec<Option<Vec<u8>>>,
    /// flags of each entry (0 diff, 1 replace, 2 drop, 3 drop+replace)
    modes: Vec<u8>,
    /// Some(flags of the first entry with the same tag) for entries that must be ignored
    ignored: Vec<Option<u8>>,
    patch: Vec<u8>,
    tk_cp: u32,
    tk_in_x: bool,
    def_cps: Vec<u32>,
    compat: [u32; 4],
    compat_x: [u32; 4],
}
impl TkScenario {
    fn build(c: &TkCase) -> TkScenario {
        let salt = |a: u64, b: u64| mix(mix(c.salt as u64, a), b);
        let mut base = Tables::new();
        for (i, len, seed) in &c.base {
            let tag = tk_tag(*i);
            if tag != IFT && tag != IFTX {
                base.entry(tag).or_insert_with(|| pat(salt(*seed as u64, *i as u64), *len as usize));
            }
        }
        base.insert(*b"keep", pat(salt(9, 9), 21));
        let which = c.which % 3;
        let tk_in_x = which == 2 || (which == 1 && c.in_iftx);
        let compat = c.compat;
        let mut compat_x = compat;
        compat_x[c.x_word as usize % 4] ^= 0x8000_0001;
        let fmt = if c.format % 2 == 1 { 1u8 } else { 2 };
        let mut def_cps = vec![0x52u32];
        let mut tk_cp = 0;
        for x in 0..2usize {
            let present = match which {
                0 => x == 0,
                1 => true,
                _ => x == 1,
            };
            if !present {
                continue;
            }
            // items: Some(kind) = decoy, None = the table-keyed entry
            let mut items: Vec<Option<u8>> = vec![];
            if tk_in_x == (x == 1) {
                items.push(None);
            }
            for (ix, pos, kind) in &c.decoys {
                let dx = which == 2 || (which == 1 && *ix);
                if dx == (x == 1) {
                    let at = idx((*pos as u32) << 16, items.len() + 1);
                    items.insert(at, Some(*kind % 3));
                }
            }
            let default_is_tk = tk_in_x == (x == 1) && c.salt & 1 == 1;
            let default_format = if default_is_tk { fmt } else { 3 };
            let base_cp = if x == 0 { 0x100u32 } else { 0x300 };
            let mut entries = vec![];
            for (j, it) in items.iter().enumerate() {
                let cp = base_cp + j as u32;
                let mut e = EntryEnc { cp, format: None, ignored: false, id_delta: if (c.salt as usize >> 3) % 3 == j % 3 { Some((j % 3) as u8) } else { None }, bias_mode: ((c.gap as usize + j) % 3) as u8 };
                match it {
                    None => {
                        if !default_is_tk {
                            e.format = Some(fmt);
                        }
                        tk_cp = cp;
                        def_cps.push(cp);
                    }
                    Some(k) => {
                        if default_is_tk {
                            e.format = Some(3);
                        }
                        match k {
                            0 => def_cps.push(cp),
                            1 => {}
                            _ => {
                                e.ignored = true;
                                def_cps.push(cp);
                            }
                        }
                    }
                }
                entries.push(e);
            }
            let (cid, tmpl): ([u32; 4], &[u8]) = if x == 0 { (compat, b"t/{id}") } else { (compat_x, b"x/{id}") };
            base.insert(if x == 0 { IFT } else { IFTX }, encode_map(cid, default_format, tmpl, None, None, c.gap as usize % 4, &entries).bytes);
        }
        let version = 0x00010000;
        let font = sfnt::assemble(version, &base.iter().map(|(t, d)| (*t, d.clone())).collect::<Vec<_>>());
        // --- patch
        let mut model = base.clone();
        // Reference model (code at HEAD, following the IFT "apply table keyed patch" steps): entries are taken in
        // order; an entry whose tag occurred in an earlier entry is ignored whatever its flags; of the first entry of
        // a tag, DROP_TABLE (alone or together with REPLACE_TABLE) removes the table, REPLACE_TABLE decodes without
        // dictionary, no flag decodes against the base font's table.
        let mut seen: BTreeMap<Tag4, u8> = BTreeMap::new();
        let (mut entries, mut results, mut modes, mut ignored): (Vec<(Tag4, u8, u32, Vec<u8>)>, Vec<Option<Vec<u8>>>, Vec<u8>, Vec<Option<u8>>) = (vec![], vec![], vec![], vec![]);
        for (i, e) in c.entries.iter().enumerate() {
            let mut tag = tk_tag(e.target);
            let mut mode = e.mode % 4;
            match e.dup {
                Some(k) if !entries.is_empty() => tag = entries[k as usize % entries.len()].0,
                _ => {
                    if mode == 0 && !base.contains_key(&tag) {
                        // a diff needs a base table: retarget to an existing one
                        let have: Vec<Tag4> = base.keys().filter(|t| *t != b"keep").copied().collect();
                        if !have.is_empty() {
                            tag = have[e.target as usize % have.len()];
                        }
                    }
                }
            }
            if tag == *b"keep" {
                continue;
            }
            let first = seen.get(&tag).copied();
            let old = base.get(&tag);
            if first.is_none() && mode == 0 && old.is_none() {
                mode = 1;
            }
            if first.is_none() {
                seen.insert(tag, mode);
            }
            if mode >= 2 {
                if first.is_none() {
                    model.remove(&tag);
                }
                let junk = if e.slack & 1 == 1 { pat(salt(7, i as u64), e.slack as usize % 9) } else { vec![] };
                entries.push((tag, mode, 0u32, junk));
                results.push(None);
                modes.push(mode);
                ignored.push(first);
                continue;
            }
            let mut stream = vec![if mode == 0 { b'D' } else { b'R' }];
            let mut result = vec![];
            for (k, ins) in e.prog.iter().enumerate() {
                let lit: Vec<u8> = match (ins, mode, old) {
                    (Ins::Lit(b), _, _) => b.clone(),
                    (Ins::Pat(l, s), _, _) => pat(salt(*s as u64, k as u64), *l as usize),
                    (Ins::Copy(o, l), 0, Some(old)) => {
                        let off = idx(*o, old.len() + 1);
                        let len = idx(*l, old.len() - off + 1);
                        stream.push(b'C');
                        be32(&mut stream, off as u32);
                        be32(&mut stream, len as u32);
                        result.extend_from_slice(&old[off..off + len]);
                        continue;
                    }
                    (Ins::Copy(_, l), _, _) => pat(salt(8, k as u64), (*l >> 26) as usize),
                };
                stream.push(b'L');
                be32(&mut stream, lit.len() as u32);
                stream.extend_from_slice(&lit);
                result.extend_from_slice(&lit);
            }
            entries.push((tag, mode, (result.len() + e.slack as usize) as u32, stream));
            if first.is_none() {
                model.insert(tag, result.clone());
                results.push(Some(result));
            } else {
                results.push(None);
            }
            modes.push(mode);
            ignored.push(first);
        }
        let patch = encode_tk_patch(if tk_in_x { compat_x } else { compat }, &entries);
        TkScenario { base, font, version, model, entries, results, modes, ignored, patch, tk_cp, tk_in_x, def_cps, compat, compat_x }
    }
    fn sibling_font(&self) -> Vec<u8> {
        let mut t: Vec<(Tag4, Vec<u8>)> = self.base.iter().map(|(t, d)| (*t, d.clone())).collect();
        for (tag, d) in t.iter_mut() {
            if *tag == IFT || *tag == IFTX {
                d[8] ^= 0x10;
            }
        }
        sfnt::assemble(self.version, &t)
    }
    fn check_result(&self, out: &[u8], what: &str) -> CaseResult {
        let got = tables_of(out, what)?;
        for (i, (tag, _, _, _)) in self.entries.iter().enumerate() {
            let name = tag_str(tag);
            if self.ignored[i].is_some() {
                continue; // a later entry of the same tag: the model (and the final comparison below) ignores it
            }
            match (&self.results[i], got.get(tag)) {
                (None, Some(_)) => return Err(fail("tk|dropped-present", format!("{what}: table {name} carries the drop flag but is present"))),
                (None, None) => {}
                (Some(_), None) => return Err(fail("tk|patched-missing", format!("{what}: patched table {name} is missing"))),
                (Some(w), Some(g)) => {
                    if norm(tag, g) != norm(tag, w) {
                        let kind = if self.modes[i] == 0 { "diff" } else { "replace" };
                        return Err(fail(&format!("tk|table|{kind}"), format!("{what}: table {name} ({kind}) is not the decoded result: {}", first_diff(g, w))));
                    }
                }
            }
        }
        let kg: Vec<String> = got.keys().map(tag_str).collect();
        let km: Vec<String> = self.model.keys().map(tag_str).collect();
        if kg != km {
            return Err(fail("tk|table-set", format!("{what}: tables {kg:?}, expected {km:?}")));
        }
        for (tag, w) in &self.model {
            if norm(tag, &got[tag]) != norm(tag, w) {
                return Err(fail("tk|untouched-table", format!("{what}: table {} is not in the patch but changed ({})", tag_str(tag), first_diff(&got[tag], w))));
            }
        }
        Ok(())
    }
}

fn test_tk(c: &TkCase, stats: &Stats) -> CaseResult {
    let sc = TkScenario::build(c);
    let font = FontRef::new(&sc.font).map_err(|e| fail("setup", format!("base font: {e}")))?;
    let tk_uri_obj = discover(&font, sc.tk_cp, "base")?;
    let tk_uri = tk_uri_obj.uri_string().map_err(|_| fail("select|query", "uri_string failed"))?;
    let def = def_of(sc.def_cps.iter().copied());
    let fresh = |patch: &[u8]| -> Result<(PatchGroup<'_>, HashMap<String, UriStatus>), Fail> {
        let group = guarded(|| PatchGroup::select_next_patches(font.clone(), &def))?.map_err(|e| fail("select|group", format!("select_next_patches failed: {e}")))?;
        let uris: Vec<String> = group.uris().map(|s| s.to_string()).collect();
        if !uris.contains(&tk_uri) {
            return Err(fail("select|group", format!("the requested table-keyed entry {tk_uri} is not in the group {uris:?}")));
        }
        let mut m = HashMap::new();
        for (i, u) in uris.iter().enumerate() {
            m.insert(u.clone(), UriStatus::Pending(pat(i as u64, 40)));
        }
        m.insert(tk_uri.clone(), UriStatus::Pending(patch.to_vec()));
        m.insert("zz/unrelated".to_string(), UriStatus::Pending(vec![9]));
        m.insert("zz/done".to_string(), UriStatus::Applied);
        Ok((group, m))
    };
    let expect_failure = |r: Result<Vec<u8>, PatchingError>, map: Option<(&HashMap<String, UriStatus>, &Snap)>, sig: &str, what: &str| -> CaseResult {
        if r.is_ok() {
            return Err(fail(&format!("{sig}|not-an-error"), format!("{what}: the application returned Ok")));
        }
        if let Some((m, before)) = map {
            if snap(m) != *before {
                return Err(fail(&format!("{sig}|bookkeeping"), format!("{what}: the application failed ({}) but the caller's URI status map changed", r.err().unwrap())));
            }
        }
        Ok(())
    };
    // (1) through PatchGroup
    let (group, mut map) = fresh(&sc.patch)?;
    let before = snap(&map);
    let dec = Dec::ok();
    let out = guarded(|| group.apply_next_patches_with_decoder(&mut map, &dec))?.map_err(|e| fail("tk|unexpected-error", format!("PatchGroup application: {e:?}")))?;
    let calls = dec.calls.get();
    sc.check_result(&out, "PatchGroup application")?;
    let mut want = before.clone();
    want.insert(tk_uri.clone(), None);
    if snap(&map) != want {
        return Err(fail("tk|bookkeeping-on-success", "after success exactly the table-keyed URI becomes Applied"));
    }
    // (2) low-level
    let info = info_of(tk_uri_obj.clone())?;
    let out2 = guarded(|| font.apply_table_keyed_patch(&info, &sc.patch, &Dec::ok()))?.map_err(|e| fail("tk|unexpected-error", format!("apply_table_keyed_patch: {e:?}")))?;
    if out2 != out {
        sc.check_result(&out2, "apply_table_keyed_patch")?;
        return Err(fail("tk|entry-points-differ", "PatchGroup and apply_table_keyed_patch produce different files"));
    }
    stats.evals(2);
    // (3) faults
    for k in 0..calls {
        for (i, ek) in ALL_EK.iter().enumerate() {
            let what = format!("decoder fails at call {k} with {ek:?}");
            let (group, mut map) = fresh(&sc.patch)?;
            let before = snap(&map);
            let r = guarded(|| group.apply_next_patches_with_decoder(&mut map, &Dec::failing(k, *ek)))?;
            expect_failure(r, Some((&map, &before)), "fault", &what)?;
            if (i + k) % 3 == 0 {
                let r = guarded(|| font.apply_table_keyed_patch(&info, &sc.patch, &Dec::failing(k, *ek)))?;
                expect_failure(r, None, "fault|low-level", &what)?;
            }
            stats.evals(1);
        }
    }
    stats.class_n("faults-injected", (calls * ALL_EK.len()) as u64);
    // (4) compatibility id
    let mut bad = sc.patch.clone();
    let pos = compat_pos(&bad);
    if c.bad.1 % 2 == 0 {
        bad[pos + (c.bad.0 as usize % 16)] ^= 1 << (c.bad.1 % 8);
    } else {
        let other = if sc.tk_in_x { sc.compat } else { sc.compat_x };
        for (w, x) in other.iter().enumerate() {
            bad[pos + 4 * w..pos + 4 * w + 4].copy_from_slice(&x.to_be_bytes());
        }
    }
    let (group, mut map) = fresh(&bad)?;
    let before = snap(&map);
    let r = guarded(|| group.apply_next_patches_with_decoder(&mut map, &Dec::ok()))?;
    expect_failure(r, Some((&map, &before)), "compat", "patch with another compatibility id")?;
    let r = guarded(|| font.apply_table_keyed_patch(&info, &bad, &Dec::ok()))?;
    expect_failure(r, None, "compat|low-level", "patch with another compatibility id")?;
    let sib = sc.sibling_font();
    let sf = FontRef::new(&sib).map_err(|e| fail("setup", format!("sibling font: {e}")))?;
    let foreign = info_of(discover(&sf, sc.tk_cp, "sibling")?)?;
    let r = guarded(|| font.apply_table_keyed_patch(&foreign, &sc.patch, &Dec::ok()))?;
    expect_failure(r, None, "compat|foreign-info", "PatchInfo from a font with another compatibility id")?;
    // (5) a decoder failure that is not injected
    let live: Vec<usize> = (0..sc.entries.len()).filter(|i| sc.results[*i].is_some() && sc.ignored[*i].is_none()).collect();
    if !live.is_empty() {
        let j = live[c.natural.0 as usize % live.len()];
        let mut es = sc.entries.clone();
        let rl = sc.results[j].as_ref().unwrap().len();
        match (c.natural.1 % 3, rl) {
            (0, 1..) => es[j].2 = rl as u32 - 1,
            (1, _) => es[j].3.push(b'?'),
            _ => es[j].3[0] = if es[j].3[0] == b'D' { b'R' } else { b'D' },
        }
        let bad = encode_tk_patch(if sc.tk_in_x { sc.compat_x } else { sc.compat }, &es);
        let (group, mut map) = fresh(&bad)?;
        let before = snap(&map);
        let what = format!("entry {j} has an undecodable stream (style {})", c.natural.1 % 3);
        let r = guarded(|| group.apply_next_patches_with_decoder(&mut map, &Dec::ok()))?;
        expect_failure(r, Some((&map, &before)), "decode-failure", &what)?;
        stats.class("undecodable-entry");
        // (5b) the same entry with no stream at all (entry = its 9 byte header): a replace / diff entry without data is
        // not a drop entry — the decoder is asked and refuses, the application fails and nothing is marked applied
        let mut es = sc.entries.clone();
        es[j].3.clear();
        let bad = encode_tk_patch(if sc.tk_in_x { sc.compat_x } else { sc.compat }, &es);
        let (group, mut map) = fresh(&bad)?;
        let before = snap(&map);
        let what = format!("entry {j} (not a drop entry) has a zero-length stream");
        let r = guarded(|| group.apply_next_patches_with_decoder(&mut map, &Dec::ok()))?;
        expect_failure(r, Some((&map, &before)), "decode-failure|empty-stream", &what)?;
        let r = guarded(|| font.apply_table_keyed_patch(&info, &bad, &Dec::ok()))?;
        expect_failure(r, None, "decode-failure|empty-stream|low-level", &what)?;
        stats.class("empty-stream-entry");
    }
    // (5c) the patch cut short inside its header / offset array, and inside the 9 byte header of its first entry: it
    // cannot be read, the application fails and nothing is marked applied
    {
        let head_len = 26 + 4 * (sc.entries.len() + 1);
        let mut cuts = vec![c.natural.0 as usize % head_len];
        if !sc.entries.is_empty() {
            cuts.push(head_len + c.natural.1 as usize % 9);
        }
        for cut in cuts {
            let mut bad = sc.patch.clone();
            bad.truncate(cut);
            let (group, mut map) = fresh(&bad)?;
            let before = snap(&map);
            let what = format!("patch of {} bytes cut to {cut} bytes (header and offsets take {head_len})", sc.patch.len());
            let r = guarded(|| group.apply_next_patches_with_decoder(&mut map, &Dec::ok()))?;
            expect_failure(r, Some((&map, &before)), "truncated-patch", &what)?;
            let r = guarded(|| font.apply_table_keyed_patch(&info, &bad, &Dec::ok()))?;
            expect_failure(r, None, "truncated-patch|low-level", &what)?;
            stats.class(if cut < head_len { "tk:truncated-in-header" } else { "tk:truncated-in-first-entry" });
        }
    }
    // --- evidence
    let kinds: BTreeSet<u8> = sc.modes.iter().copied().collect();
    for (i, m) in sc.modes.iter().enumerate() {
        let names = ["diff", "replace", "drop", "drop+replace"];
        match sc.ignored[i] {
            None => stats.class(&format!("tk:{}", names[*m as usize])),
            Some(f) => {
                stats.class(&format!("tk:duplicate-tag:{}-then-{}:{}", names[f as usize], names[*m as usize], if sc.base.contains_key(&sc.entries[i].0) { "table-in-font" } else { "table-not-in-font" }));
                if sc.ignored[..i].iter().zip(&sc.entries[..i]).any(|(g, e)| g.is_some() && e.0 == sc.entries[i].0) {
                    stats.class("tk:tag-listed-3+-times");
                }
            }
        }
    }
    stats.class(&format!("tk:entries={}", sc.entries.len().min(5)));
    stats.class(if c.format % 2 == 1 { "tk:fully-invalidating" } else { "tk:partially-invalidating" });
    if sc.results.iter().any(|r| r.as_ref().map(|v| v.is_empty()).unwrap_or(false)) {
        stats.class("tk:empty-result");
    }
    if sc.entries.iter().any(|e| e.0 == IFT || e.0 == IFTX) {
        stats.class("tk:patches-a-mapping-table");
    }
    if sc.entries.iter().enumerate().any(|(i, e)| sc.results[i].is_some() && !sc.base.contains_key(&e.0)) {
        stats.class("tk:adds-a-table");
    }
    if map.len() > 3 {
        stats.class("tk:group-also-offers-glyph-keyed");
    }
    if kinds.len() >= 2 {
        stats.nontrivial(hash_json(c));
        if stats.want_sample() {
            stats.sample(serde_json::json!({"stage": "table-keyed", "base_tables": sc.base.keys().map(tag_str).collect::<Vec<_>>(),
                "entries": sc.entries.iter().enumerate().map(|(i, e)| serde_json::json!({"tag": tag_str(&e.0), "flags": e.1, "stream_len": e.3.len(), "result_len": sc.results[i].as_ref().map(|r| r.len())})).collect::<Vec<_>>(),
                "format": c.format % 2, "decoder_calls": calls}));
        }
    }
    Ok(())
}

fn ins_strategy() -> impl Strategy<Value = Ins> {
    prop_oneof![
        3 => proptest::collection::vec(any::<u8>(), 0..12).prop_map(Ins::Lit),
        2 => (0u16..300, any::<u16>()).prop_map(|(l, s)| Ins::Pat(l, s)),
        1 => (300u16..20000, any::<u16>()).prop_map(|(l, s)| Ins::Pat(l, s)),
        4 => (any::<u32>(), any::<u32>()).prop_map(|(o, l)| Ins::Copy(o, l)),
    ]
}
fn tk_strategy() -> impl Strategy<Value = TkCase> {
    (
        (
            proptest::collection::vec((0u8..12, prop_oneof![1 => Just(0u16), 4 => 1u16..60, 2 => 60u16..3000], any::<u16>()), 0..8),
            proptest::collection::vec((0u8..14, prop_oneof![3 => Just(0u8), 3 => Just(1u8), 2 => Just(2u8), 1 => Just(3u8)], proptest::collection::vec(ins_strategy(), 0..6), any::<u8>(), proptest::option::weighted(0.3, any::<u8>())).prop_map(|(target, mode, prog, slack, dup)| TkEntry { target, mode, prog, slack, dup }), 0..7),
        ),
        (any::<bool>(), 0u8..3, 1u8..=2, any::<[u32; 4]>(), 0u8..4, 0u8..4),
        (proptest::collection::vec((any::<bool>(), any::<u16>(), 0u8..3), 0..4), (any::<u8>(), any::<u8>()), (any::<u8>(), any::<u8>()), any::<u32>()),
    )
        .prop_map(|((base, entries), (in_iftx, which, format, compat, x_word, gap), (decoys, bad, natural, salt))| TkCase { base, entries, in_iftx, which, format, compat, x_word, gap, decoys, bad, natural, salt })
}

// ------------------------------------------------------------------------------------------------------
// the built-in brotli decoder on fixed real streams (whole and truncated)

#[derive(Clone, Debug, Serialize, Deserialize)]
struct BrCase {
    /// (stream 0/1, kept length)
    cut: Option<(u8, u8)>,
    max_short: bool,
}
// shared-brotli streams of font-test-data's table_keyed_patch(): "abcdef\n" -> BR_T1 (with dictionary), BR_T2 (without)
const BR1: [u8; 23] = [0xa1, 0xe0, 0x00, 0xc0, 0x2f, 0x3a, 0x38, 0xf4, 0x01, 0xd1, 0xaf, 0x54, 0x84, 0x14, 0x71, 0x2a, 0x80, 0x04, 0xa2, 0x1c, 0xd3, 0xdd, 0x07];
const BR2: [u8; 29] = [
    0xa1, 0xe8, 0x00, 0xc0, 0xef, 0x48, 0x9d, 0xfa, 0xdc, 0xf1, 0xc2, 0xac, 0xc5, 0xde, 0xe4, 0xf4, 0xb4, 0x02, 0x48, 0x98, 0x98, 0x52, 0x64, 0xa8, 0x50, 0x20, 0x29, 0x75, 0x0b,
];
const BR_T1: &[u8] = b"hijkabcdeflmnohijkabcdeflmno\n";
const BR_T2: &[u8] = b"foobarbaz foobarbaz foobarbaz\n";
const BR_CASES: u64 = 2 + 23 + 29;
fn br_case(i: u64) -> BrCase {
    match i {
        0 => BrCase { cut: None, max_short: false },
        1 => BrCase { cut: None, max_short: true },
        2..=24 => BrCase { cut: Some((0, (i - 2) as u8)), max_short: false },
        _ => BrCase { cut: Some((1, ((i - 25) % 29) as u8)), max_short: false },
    }
}
fn test_br(c: &BrCase, stats: &Stats) -> CaseResult {
    let compat = [1u32, 2, 3, 4];
    let mut base = Tables::new();
    base.insert(*b"tab1", b"abcdef\n".to_vec());
    base.insert(*b"tab2", b"foobar\n".to_vec());
    base.insert(*b"tab3", b"foobaz\n".to_vec());
    base.insert(*b"tab4", b"unchanged\n".to_vec());
    base.insert(IFT, encode_map(compat, 1, b"foo/{id}", None, None, 0, &[EntryEnc { cp: 0x100, format: None, ignored: false, id_delta: None, bias_mode: 0 }]).bytes);
    let font_bytes = sfnt::assemble(0x00010000, &base.iter().map(|(t, d)| (*t, d.clone())).collect::<Vec<_>>());
    let (mut s1, mut s2) = (BR1.to_vec(), BR2.to_vec());
    match c.cut {
        Some((0, l)) => s1.truncate(l as usize),
        Some((_, l)) => s2.truncate(l as usize),
        None => {}
    }
    let patch = encode_tk_patch(compat, &[(*b"tab1", 0, if c.max_short { 28 } else { 29 }, s1), (*b"tab2", 1, 30, s2), (*b"tab3", 2, 0, vec![])]);
    let font = FontRef::new(&font_bytes).map_err(|e| fail("setup", format!("{e}")))?;
    let uri = discover(&font, 0x100, "base")?.uri_string().map_err(|_| fail("select|query", "uri_string failed"))?;
    let group = guarded(|| PatchGroup::select_next_patches(font.clone(), &def_of([0x100u32])))?.map_err(|e| fail("select|group", format!("{e}")))?;
    let mut map = HashMap::new();
    map.insert(uri.clone(), UriStatus::Pending(patch));
    map.insert("zz/unrelated".to_string(), UriStatus::Pending(vec![1]));
    let before = snap(&map);
    match guarded(|| group.apply_next_patches(&mut map))? {
        Ok(out) => {
            if c.max_short {
                return Err(fail("brotli|max-length", "a 29-byte result was accepted under maxUncompressedLength 28"));
            }
            if c.cut.is_none() {
                let got = tables_of(&out, "built-in decoder")?;
                let mut want = base.clone();
                want.insert(*b"tab1", BR_T1.to_vec());
                want.insert(*b"tab2", BR_T2.to_vec());
                want.remove(b"tab3");
                if got != want {
                    return Err(fail("brotli|tables", "tables after the real table-keyed patch differ from the known result"));
                }
                stats.nontrivial(hash_json(c));
            } else {
                stats.class("brotli:truncated-stream-accepted");
            }
            let mut w = before.clone();
            w.insert(uri, None);
            if snap(&map) != w {
                return Err(fail("tk|bookkeeping-on-success", "built-in decoder: after success exactly the applied URI becomes Applied"));
            }
        }
        Err(e) => {
            if c.cut.is_none() && !c.max_short {
                return Err(fail("brotli|unexpected-error", format!("the real patch is rejected: {e:?}")));
            }
            if snap(&map) != before {
                return Err(fail("decode-failure|bookkeeping", format!("built-in decoder failed ({e:?}) but the URI status map changed")));
            }
            stats.class("brotli:real-decoder-failure");
            stats.nontrivial(hash_json(c));
        }
    }
    Ok(())
}

/// the INDEX offSize 3 -> 4 limit (16 MiB of charstrings): a handful of fixed cases, no fault enumeration
fn big_case(i: u64) -> GkCase {
    let kind = if i % 2 == 0 { Kind::Cff } else { Kind::Cff2 };
    let delta = [1i8, 0, -1, 2, 1, 0][i as usize % 6];
    GkCase {
        n_glyphs: 3,
        tables: vec![TableSpec { kind, wide: 0, lens: vec![5, 0, 9], tiny: false, axes: 1, shared: 0, ooo: false, gap: i as u8 }],
        pool: vec![PoolGlyph { gid_raw: 0x8000_0000, mask: 1, lens: [7, 7, 7, 7] }],
        run: None,
        edge: 0,
        patches: vec![PatchSpec { wide_gids: i % 3 == 0, tables: 0xFF, iftx: false, slack: 0, split_raw: 1, extra: vec![] }],
        map: MapSpec { which: 0, compat: [1, 2, 3, 4], x_word: 0, gap: 0, bias_mode: 0, id_deltas: vec![0], decoys: vec![] },
        plan: Some(SizePlan { table_raw: 0, thr: 3, delta, in_base: i >= 4, filler_raw: 0 }),
        perm: i,
        partition: vec![0],
        bad: (0, 0, 0),
        natural: (0, 0),
        salt: 77 + i as u32,
        light: true,
        raw: false,
    }
}

/// Deterministic reproductions of the listed findings (shrunk cases of the random stage, `raw` = no avoidance / tolerance).
const KNOWN_CASES: [&str; 4] = [
    // regression (fixed in /repo): a gvar table whose glyph data is empty after the application could not be written
    r#"{"bad":[0,0,0],"edge":128,"light":false,"raw":false,"map":{"bias_mode":0,"compat":[0,0,0,0],"decoys":[],"gap":0,"id_deltas":[0],"which":0,"x_word":0},"n_glyphs":1,"natural":[0,0],"partition":[0,0,0,0,0],"patches":[{"iftx":false,"slack":0,"split_raw":0,"tables":255,"wide_gids":false}],"perm":0,"plan":null,"pool":[],"run":null,"salt":2795404,"tables":[{"axes":1,"gap":0,"kind":"Glyf","lens":[0],"ooo":false,"shared":0,"tiny":false,"wide":0},{"axes":1,"gap":0,"kind":"Gvar","lens":[0],"ooo":false,"shared":0,"tiny":false,"wide":0}]}"#,
    // regression (fixed in /repo): gvar widening failed with SERIALIZE_ERROR_OUT_OF_ROOM when the old glyph data was smaller than 2*(glyphCount+1) bytes
    r#"{"bad":[167,189,70],"edge":99,"light":false,"raw":false,"map":{"bias_mode":0,"compat":[0,0,0,0],"decoys":[],"gap":0,"id_deltas":[0],"which":0,"x_word":0},"n_glyphs":5,"natural":[96,54],"partition":[1,1,2,0,1],"patches":[{"iftx":false,"slack":0,"split_raw":0,"tables":255,"wide_gids":false},{"iftx":false,"slack":0,"split_raw":0,"tables":255,"wide_gids":false},{"iftx":false,"slack":0,"split_raw":0,"tables":255,"wide_gids":false}],"perm":1798185695779293192,"plan":{"delta":2,"filler_raw":0,"in_base":false,"table_raw":19,"thr":0},"pool":[{"gid_raw":1717986919,"lens":[0,0,0,1],"mask":4}],"run":null,"salt":153027021,"tables":[{"axes":1,"gap":0,"kind":"Glyf","lens":[0],"ooo":false,"shared":0,"tiny":false,"wide":0},{"axes":1,"gap":0,"kind":"Gvar","lens":[0],"ooo":false,"shared":0,"tiny":false,"wide":0}]}"#,
    // offsets widened for an intermediate font are never narrowed: table bytes depend on the grouping
    r#"{"bad":[214,68,170],"edge":0,"light":false,"raw":true,"map":{"bias_mode":2,"compat":[0,0,0,60161242],"decoys":[{"iftx":true,"kind":3,"pos_raw":7013}],"gap":2,"id_deltas":[0,1,0],"which":0,"x_word":2},"n_glyphs":2,"natural":[95,26],"partition":[1,0,2,2,0],"patches":[{"iftx":false,"slack":0,"split_raw":0,"tables":255,"wide_gids":false},{"iftx":false,"slack":0,"split_raw":0,"tables":255,"wide_gids":false}],"perm":4510745566362011458,"plan":{"delta":-4,"filler_raw":556214955,"in_base":false,"table_raw":21,"thr":0},"pool":[{"gid_raw":2147483648,"lens":[0,0,0,0],"mask":2},{"gid_raw":0,"lens":[0,0,0,0],"mask":1}],"run":null,"salt":454001610,"tables":[{"axes":1,"gap":0,"kind":"Glyf","lens":[0],"ooo":false,"shared":0,"tiny":false,"wide":0},{"axes":1,"gap":0,"kind":"Gvar","lens":[40],"ooo":false,"shared":0,"tiny":false,"wide":0}]}"#,
    // odd-length gvar data keeps its short-offset padding byte after a later widening
    r#"{"bad":[61,239,117],"edge":84,"light":false,"raw":true,"map":{"bias_mode":0,"compat":[0,23905337,3407452346,680672352],"decoys":[{"iftx":false,"kind":1,"pos_raw":7807},{"iftx":false,"kind":3,"pos_raw":28558},{"iftx":true,"kind":3,"pos_raw":48873}],"gap":3,"id_deltas":[4],"which":0,"x_word":1},"n_glyphs":17,"natural":[23,47],"partition":[1,0,1,0,0],"patches":[{"iftx":false,"slack":0,"split_raw":0,"tables":255,"wide_gids":false},{"iftx":false,"slack":0,"split_raw":0,"tables":255,"wide_gids":false},{"iftx":false,"slack":0,"split_raw":0,"tables":255,"wide_gids":false}],"perm":7513761730047327439,"plan":{"delta":-2,"filler_raw":2575249122,"in_base":true,"table_raw":47,"thr":0},"pool":[{"gid_raw":0,"lens":[0,0,0,0],"mask":4},{"gid_raw":252645136,"lens":[0,0,0,41],"mask":1}],"run":null,"salt":566949067,"tables":[{"axes":1,"gap":0,"kind":"Glyf","lens":[0],"ooo":false,"shared":0,"tiny":false,"wide":0},{"axes":1,"gap":0,"kind":"Gvar","lens":[40],"ooo":false,"shared":0,"tiny":false,"wide":0}]}"#,
];
fn known_case(i: u64) -> GkCase {
    serde_json::from_str(KNOWN_CASES[i as usize % KNOWN_CASES.len()]).expect("known case parses")
}

fn main() {
    let ctx = Ctx::from_args("C18");
    ctx.set_rule("Generated scenarios: synthetic base font (glyf+loca / gvar / CFF / CFF2 in 9 combinations, opaque per-glyph data, short and long offsets, INDEX offSize 1..4, sizes planted within +-4 bytes of the 131070 / 254 / 65534 limits on half of the cases), hand-encoded format-2 IFT/IFTX tables with decoy entries, 1..5 glyph-keyed patches (overlapping glyph sets with equal data, u16/u24 ids, 1..3 glyph tables plus, on 40 % of the patches, 1..3 listed tags that cannot be glyph-keyed (hmtx/head/maxp/name/cmap/OS/2/loca/an extra table present in the font, or tags absent from it) at any position of the sorted tag list, lengths 0/odd/even/large) or one table-keyed patch (0..6 entries: replace / diff / drop / drop+replace flags, 30 % of the entries repeat the tag of an earlier entry with any flags, on tables present in and absent from the font; model: the first entry of a tag decides, later ones are ignored), transparent decoder with a fault at call k for every k and every DecodeError kind. Non-trivial: a glyph-keyed application that keeps and replaces glyphs of one table and changes its total size (or is refused for short-loca overflow), or a fault injected at k >= 2; a table-keyed patch with >= 2 entries of different kinds. Distinct by hash of the case.");
    ctx.assume("the oracle's own sfnt reader (vcore::sfnt) and loca / gvar / INDEX decoders; the library's sparse-bit-set writer is used to encode entry code points; URIs are discovered by querying intersecting_patches with each entry's private code point");
    ctx.prop_stage("glyph-keyed", Isolation::Threads, ctx.n(24_000, 280_000), gk_strategy, test_gk);
    ctx.prop_stage("table-keyed", Isolation::Threads, ctx.n(40_000, 500_000), tk_strategy, test_tk);
    ctx.index_stage("builtin-brotli", Isolation::Threads, BR_CASES, br_case, test_br);
    ctx.index_stage("cff-offsize-3-to-4", Isolation::Threads, ctx.n(2, 6), big_case, test_gk);
    ctx.index_stage("known-findings", Isolation::Threads, KNOWN_CASES.len() as u64, known_case, test_gk);
    ctx.finish();
}
