//! C18 — IFT patches change exactly what they say, atomically and order-independently.
//!
//! Everything is synthetic and generated together with a model: base fonts (glyf/loca, gvar, CFF, CFF2 with
//! opaque per-glyph data, short/long offsets, INDEX offSize 1..4), format-2 `IFT `/`IFTX` mapping tables,
//! glyph-keyed and table-keyed patches, and a transparent `SharedBrotliDecoder` with a fault plan.
//! The oracle re-reads the produced fonts with an independent container reader (vcore::sfnt) and its own
//! loca / gvar / INDEX decoders.
use incremental_font_transfer::{
    font_patch::{IncrementalFontPatchBase, PatchingError},
    patch_group::{PatchGroup, PatchInfo, UriStatus},
    patchmap::{intersecting_patches, PatchUri, SubsetDefinition},
};
use klippa::serialize::SerializeErrorFlags;
use proptest::prelude::*;
use read_fonts::{collections::IntSet, FontRef};
use serde::{Deserialize, Serialize};
use shared_brotli_patch_decoder::{decode_error::DecodeError, SharedBrotliDecoder};
use std::cell::Cell;
use std::collections::{BTreeMap, BTreeSet, HashMap};
use vcore::*;

type Tag4 = [u8; 4];
type Tables = BTreeMap<Tag4, Vec<u8>>;
const IFT: Tag4 = *b"IFT ";
const IFTX: Tag4 = *b"IFTX";
const SHORT_MAX: usize = 131070;

fn fail(sig: &str, msg: impl Into<String>) -> Fail {
    Fail::new(format!("c18|{sig}"), msg)
}
fn tag_str(t: &Tag4) -> String {
    String::from_utf8_lossy(t).to_string()
}
fn be16(v: &mut Vec<u8>, x: u16) {
    v.extend_from_slice(&x.to_be_bytes());
}
fn be24(v: &mut Vec<u8>, x: u32) {
    v.extend_from_slice(&x.to_be_bytes()[1..]);
}
fn be32(v: &mut Vec<u8>, x: u32) {
    v.extend_from_slice(&x.to_be_bytes());
}
fn rd(b: &[u8], o: usize, w: usize) -> Option<usize> {
    let s = b.get(o..o.checked_add(w)?)?;
    let mut x = 0usize;
    for c in s {
        x = (x << 8) | *c as usize;
    }
    Some(x)
}
/// deterministic expansion of (salt, len) into bytes; no byte pattern is all-zero for len > 0
fn pat(salt: u64, len: usize) -> Vec<u8> {
    let s = mix(salt, 0x5eed) | 0x0101_0101_0101_0101;
    (0..len).map(|i| ((s >> ((i & 7) * 8)) as u8) ^ (i as u8).wrapping_mul(38) ^ ((i >> 8) as u8).wrapping_mul(12)).collect()
}
fn idx(raw: u32, len: usize) -> usize {
    ((raw as u64 * len as u64) >> 32) as usize
}

// ------------------------------------------------------------------------------------------------------
// transparent decoder with a fault plan
//
// stream := kind ('R' = no dictionary expected, 'D' = dictionary expected) instruction*
// instruction := 'L' u32 len bytes[len] | 'C' u32 offset u32 len   (copy from the dictionary)

#[derive(Clone, Copy, Debug, PartialEq, Eq, Serialize, Deserialize)]
enum EK {
    Init,
    Stream,
    Dict,
    Max,
    Excess,
    IoOther,
    IoInvalidData,
}
const ALL_EK: [EK; 7] = [EK::Init, EK::Stream, EK::Dict, EK::Max, EK::Excess, EK::IoOther, EK::IoInvalidData];
impl EK {
    fn err(self) -> DecodeError {
        match self {
            EK::Init => DecodeError::InitFailure,
            EK::Stream => DecodeError::InvalidStream,
            EK::Dict => DecodeError::InvalidDictionary,
            EK::Max => DecodeError::MaxSizeExceeded,
            EK::Excess => DecodeError::ExcessInputData,
            EK::IoOther => DecodeError::IoError(std::io::ErrorKind::Other),
            EK::IoInvalidData => DecodeError::IoError(std::io::ErrorKind::InvalidData),
        }
    }
}

struct Dec {
    fail: Option<(usize, EK)>,
    calls: Cell<usize>,
}
impl Dec {
    fn ok() -> Dec {
        Dec { fail: None, calls: Cell::new(0) }
    }
    fn failing(k: usize, e: EK) -> Dec {
        Dec { fail: Some((k, e)), calls: Cell::new(0) }
    }
}
fn run_stream(enc: &[u8], dict: Option<&[u8]>, max: usize) -> Result<Vec<u8>, DecodeError> {
    let (&kind, mut rest) = enc.split_first().ok_or(DecodeError::InvalidStream)?;
    match (kind, dict) {
        (b'R', None) | (b'D', Some(_)) => {}
        (b'R', Some(_)) | (b'D', None) => return Err(DecodeError::InvalidDictionary),
        _ => return Err(DecodeError::InvalidStream),
    }
    let mut out = Vec::new();
    while let Some((&op, r)) = rest.split_first() {
        match op {
            b'L' => {
                let len = rd(r, 0, 4).ok_or(DecodeError::InvalidStream)?;
                let body = r.get(4..4usize.checked_add(len).ok_or(DecodeError::InvalidStream)?).ok_or(DecodeError::InvalidStream)?;
                if out.len() + body.len() > max {
                    return Err(DecodeError::MaxSizeExceeded);
                }
                out.extend_from_slice(body);
                rest = &r[4 + len..];
            }
            b'C' => {
                let off = rd(r, 0, 4).ok_or(DecodeError::InvalidStream)?;
                let len = rd(r, 4, 4).ok_or(DecodeError::InvalidStream)?;
                let d = dict.ok_or(DecodeError::InvalidDictionary)?;
                let body = d.get(off..off.checked_add(len).ok_or(DecodeError::InvalidStream)?).ok_or(DecodeError::InvalidStream)?;
                if out.len() + body.len() > max {
                    return Err(DecodeError::MaxSizeExceeded);
                }
                out.extend_from_slice(body);
                rest = &r[8..];
            }
            _ => return Err(DecodeError::InvalidStream),
        }
    }
    Ok(out)
}
impl SharedBrotliDecoder for Dec {
    fn decode(&self, enc: &[u8], dict: Option<&[u8]>, max: usize) -> Result<Vec<u8>, DecodeError> {
        let c = self.calls.get();
        self.calls.set(c + 1);
        if let Some((k, e)) = self.fail {
            if k == c {
                return Err(e.err());
            }
        }
        run_stream(enc, dict, max)
    }
}
fn lit_stream(kind: u8, chunks: &[&[u8]]) -> Vec<u8> {
    let mut v = vec![kind];
    for c in chunks {
        v.push(b'L');
        be32(&mut v, c.len() as u32);
        v.extend_from_slice(c);
    }
    v
}

// ------------------------------------------------------------------------------------------------------
// bookkeeping snapshots, container helpers

type Snap = BTreeMap<String, Option<Vec<u8>>>;
fn snap(m: &HashMap<String, UriStatus>) -> Snap {
    m.iter()
        .map(|(k, v)| {
            (
                k.clone(),
                match v {
                    UriStatus::Applied => None,
                    UriStatus::Pending(d) => Some(d.clone()),
                },
            )
        })
        .collect()
}
fn tables_of(bytes: &[u8], what: &str) -> Result<Tables, Fail> {
    if FontRef::new(bytes).is_err() {
        return Err(fail("reopen", format!("{what}: FontRef::new rejects the produced font")));
    }
    let (_, t) = sfnt::split_tables(bytes).ok_or_else(|| fail("reopen", format!("{what}: produced bytes are not an sfnt")))?;
    let mut m = Tables::new();
    for (tag, d) in t {
        if m.insert(tag, d).is_some() {
            return Err(fail("reopen", format!("{what}: duplicate directory entry {}", tag_str(&tag))));
        }
    }
    Ok(m)
}
/// table bytes with head.checksumAdjustment (a function of the whole file) zeroed
fn norm(tag: &Tag4, d: &[u8]) -> Vec<u8> {
    let mut v = d.to_vec();
    if tag == b"head" && v.len() >= 12 {
        v[8..12].fill(0);
    }
    v
}
fn first_diff(a: &[u8], b: &[u8]) -> String {
    let p = a.iter().zip(b.iter()).position(|(x, y)| x != y).unwrap_or(a.len().min(b.len()));
    format!("lengths {} / {}, first difference at byte {p}", a.len(), b.len())
}

// ------------------------------------------------------------------------------------------------------
// format-2 mapping table encoder (hand-encoded; the code point set uses the library's sparse-bit-set writer)

#[derive(Clone, Debug)]
struct EntryEnc {
    cp: u32,
    format: Option<u8>,
    ignored: bool,
    id_delta: Option<u8>,
    bias_mode: u8,
}
struct MapEnc {
    bytes: Vec<u8>,
    /// byte position of each entry's format-flags byte (bit 6 = ignored / applied)
    flag_pos: Vec<usize>,
}
fn encode_map(compat: [u32; 4], default_format: u8, template: &[u8], cff: Option<u32>, cff2: Option<u32>, gap: usize, entries: &[EntryEnc]) -> MapEnc {
    let mut v = vec![2u8, 0, 0, 0, (cff.is_some() as u8) | ((cff2.is_some() as u8) << 1)];
    for c in compat {
        be32(&mut v, c);
    }
    v.push(default_format);
    be24(&mut v, entries.len() as u32);
    let off_pos = v.len();
    be32(&mut v, 0);
    be32(&mut v, 0);
    be16(&mut v, template.len() as u16);
    v.extend_from_slice(template);
    if let Some(o) = cff {
        be32(&mut v, o);
    }
    if let Some(o) = cff2 {
        be32(&mut v, o);
    }
    v.extend(std::iter::repeat(0u8).take(gap));
    let off = v.len() as u32;
    v[off_pos..off_pos + 4].copy_from_slice(&off.to_be_bytes());
    let mut flag_pos = vec![];
    for e in entries {
        flag_pos.push(v.len());
        let mut flags = match e.bias_mode {
            0 => 0x10u8,
            1 => 0x20,
            _ => 0x30,
        };
        if e.ignored {
            flags |= 0x40;
        }
        if e.id_delta.is_some() {
            flags |= 0x04;
        }
        if e.format.is_some() {
            flags |= 0x08;
        }
        v.push(flags);
        if let Some(d) = e.id_delta {
            be24(&mut v, d as u32);
        }
        if let Some(f) = e.format {
            v.push(f);
        }
        let back = if e.bias_mode == 0 { e.cp } else { e.cp & 3 };
        let bias = e.cp - back;
        match e.bias_mode {
            0 => {}
            1 => be16(&mut v, bias as u16),
            _ => be24(&mut v, bias),
        }
        let s: IntSet<u32> = [back].into_iter().collect();
        v.extend(s.to_sparse_bit_set());
    }
    MapEnc { bytes: v, flag_pos }
}

// ------------------------------------------------------------------------------------------------------
// patch encoders

fn encode_glyph_patches(wide: bool, gids: &[u32], tags: &[Tag4], data: &[Vec<Vec<u8>>]) -> Vec<u8> {
    let mut v = vec![];
    be32(&mut v, gids.len() as u32);
    v.push(tags.len() as u8);
    for g in gids {
        if wide {
            be24(&mut v, *g);
        } else {
            be16(&mut v, *g as u16);
        }
    }
    for t in tags {
        v.extend_from_slice(t);
    }
    let header = v.len() + 4 * (gids.len() * tags.len() + 1);
    let mut off = header as u32;
    for t in data {
        for d in t {
            be32(&mut v, off);
            off += d.len() as u32;
        }
    }
    be32(&mut v, off);
    for t in data {
        for d in t {
            v.extend_from_slice(d);
        }
    }
    v
}
fn encode_gk_patch(wide: bool, compat: [u32; 4], max_len: u32, stream: &[u8]) -> Vec<u8> {
    let mut v = b"ifgk".to_vec();
    be32(&mut v, 0);
    v.push(wide as u8);
    for c in compat {
        be32(&mut v, c);
    }
    be32(&mut v, max_len);
    v.extend_from_slice(stream);
    v
}
/// entries: (tag, flags, max_uncompressed_length, stream)
fn encode_tk_patch(compat: [u32; 4], entries: &[(Tag4, u8, u32, Vec<u8>)]) -> Vec<u8> {
    let mut v = b"iftk".to_vec();
    be32(&mut v, 0);
    for c in compat {
        be32(&mut v, c);
    }
    be16(&mut v, entries.len() as u16);
    let mut off = (v.len() + 4 * (entries.len() + 1)) as u32;
    for e in entries {
        be32(&mut v, off);
        off += 9 + e.3.len() as u32;
    }
    be32(&mut v, off);
    for e in entries {
        v.extend_from_slice(&e.0);
        v.push(e.1);
        be32(&mut v, e.2);
        v.extend_from_slice(&e.3);
    }
    v
}
/// position of the compatibility id inside a patch of either kind
fn compat_pos(patch: &[u8]) -> usize {
    if patch.starts_with(b"ifgk") {
        9
    } else {
        8
    }
}

// ------------------------------------------------------------------------------------------------------
// glyph-data table builders and the oracle's decoders

#[derive(Clone, Copy, Debug, PartialEq, Eq, PartialOrd, Ord, Serialize, Deserialize)]
enum Kind {
    Cff,
    Cff2,
    Glyf,
    Gvar,
}
const KINDS: [Kind; 4] = [Kind::Cff, Kind::Cff2, Kind::Glyf, Kind::Gvar];
impl Kind {
    fn tag(self) -> Tag4 {
        match self {
            Kind::Cff => *b"CFF ",
            Kind::Cff2 => *b"CFF2",
            Kind::Glyf => *b"glyf",
            Kind::Gvar => *b"gvar",
        }
    }
    fn name(self) -> &'static str {
        match self {
            Kind::Cff => "CFF",
            Kind::Cff2 => "CFF2",
            Kind::Glyf => "glyf",
            Kind::Gvar => "gvar",
        }
    }
}
/// offset representation: Short = u16 offsets / 2, Long = u32, Off(n) = INDEX offSize n
#[derive(Clone, Copy, Debug, PartialEq, Eq)]
enum Fmt {
    Short,
    Long,
    Off(u8),
}
fn cff_min_off_size(total: usize) -> u8 {
    // offsets run from 1 to total + 1
    if total + 1 <= 0xFF {
        1
    } else if total + 1 <= 0xFFFF {
        2
    } else if total + 1 <= 0xFF_FFFF {
        3
    } else {
        4
    }
}
fn build_gvar(axes: u16, shared: u16, ooo: bool, long: bool, salt: u64, glyphs: &[Vec<u8>]) -> Vec<u8> {
    let n = glyphs.len();
    let mut v = vec![];
    be16(&mut v, 1);
    be16(&mut v, 0);
    be16(&mut v, axes);
    be16(&mut v, shared);
    let sto_pos = v.len();
    be32(&mut v, 0);
    be16(&mut v, n as u16);
    be16(&mut v, long as u16);
    let dao_pos = v.len();
    be32(&mut v, 0);
    let mut off = 0usize;
    for i in 0..=n {
        if long {
            be32(&mut v, off as u32);
        } else {
            be16(&mut v, (off / 2) as u16);
        }
        if i < n {
            off += glyphs[i].len();
        }
    }
    let shared_bytes = pat(salt ^ 0x7475, shared as usize * axes as usize * 2);
    let data: Vec<u8> = glyphs.iter().flat_map(|g| g.iter().copied()).collect();
    let (sto, dao);
    if ooo {
        dao = v.len();
        v.extend_from_slice(&data);
        sto = if shared == 0 { dao } else { v.len() };
        v.extend_from_slice(&shared_bytes);
    } else {
        sto = v.len();
        v.extend_from_slice(&shared_bytes);
        dao = v.len();
        v.extend_from_slice(&data);
    }
    v[sto_pos..sto_pos + 4].copy_from_slice(&(sto as u32).to_be_bytes());
    v[dao_pos..dao_pos + 4].copy_from_slice(&(dao as u32).to_be_bytes());
    v
}
fn build_cff(prefix: &[u8], count_width: usize, off_size: u8, glyphs: &[Vec<u8>]) -> Vec<u8> {
    let mut v = prefix.to_vec();
    if count_width == 2 {
        be16(&mut v, glyphs.len() as u16);
    } else {
        be32(&mut v, glyphs.len() as u32);
    }
    v.push(off_size);
    let mut off = 1u32;
    for i in 0..=glyphs.len() {
        v.extend_from_slice(&off.to_be_bytes()[4 - off_size as usize..]);
        if i < glyphs.len() {
            off += glyphs[i].len() as u32;
        }
    }
    for g in glyphs {
        v.extend_from_slice(g);
    }
    v
}

/// slices `data` by ascending offsets; Err names the defect
fn slice_by(offs: &[usize], data: &[u8]) -> Result<Vec<Vec<u8>>, String> {
    let mut out = Vec::with_capacity(offs.len().saturating_sub(1));
    for w in offs.windows(2) {
        if w[0] > w[1] {
            return Err(format!("offsets not ascending: {} then {}", w[0], w[1]));
        }
        let s = data.get(w[0]..w[1]).ok_or_else(|| format!("offset range {}..{} outside the {} data bytes", w[0], w[1], data.len()))?;
        out.push(s.to_vec());
    }
    Ok(out)
}
fn decode_glyf(glyf: &[u8], loca: &[u8], long: bool, n: usize) -> Result<Vec<Vec<u8>>, String> {
    let w = if long { 4 } else { 2 };
    let mut offs = vec![];
    for i in 0..=n {
        let o = rd(loca, i * w, w).ok_or_else(|| format!("loca has {} bytes, needs {}", loca.len(), (n + 1) * w))?;
        offs.push(if long { o } else { o * 2 });
    }
    slice_by(&offs, glyf)
}
struct GvarView {
    glyphs: Vec<Vec<u8>>,
    long: bool,
    /// version, axisCount, sharedTupleCount, glyphCount, flags without bit 0
    header: [usize; 5],
    shared: Vec<u8>,
}
fn decode_gvar(b: &[u8], n: usize) -> Result<GvarView, String> {
    let e = || "gvar header truncated".to_string();
    let version = rd(b, 0, 4).ok_or_else(e)?;
    let axes = rd(b, 4, 2).ok_or_else(e)?;
    let shared = rd(b, 6, 2).ok_or_else(e)?;
    let sto = rd(b, 8, 4).ok_or_else(e)?;
    let count = rd(b, 12, 2).ok_or_else(e)?;
    let flags = rd(b, 14, 2).ok_or_else(e)?;
    let dao = rd(b, 16, 4).ok_or_else(e)?;
    if count != n {
        return Err(format!("gvar glyphCount {count} != {n}"));
    }
    let long = flags & 1 == 1;
    let w = if long { 4 } else { 2 };
    let mut offs = vec![];
    for i in 0..=n {
        let o = rd(b, 20 + i * w, w).ok_or_else(|| "gvar offsets truncated".to_string())?;
        offs.push(if long { o } else { o * 2 });
    }
    let data = b.get(dao..).ok_or_else(|| "glyphVariationDataArrayOffset out of bounds".to_string())?;
    let glyphs = slice_by(&offs, data)?;
    let sh = b.get(sto..sto + shared * axes * 2).ok_or_else(|| "shared tuples out of bounds".to_string())?.to_vec();
    Ok(GvarView { glyphs, long, header: [version, axes, shared, count, flags & !1], shared: sh })
}
fn decode_cff(b: &[u8], cs_off: usize, count_width: usize, n: usize) -> Result<(Vec<Vec<u8>>, u8), String> {
    let count = rd(b, cs_off, count_width).ok_or_else(|| "charstrings INDEX truncated".to_string())?;
    if count != n {
        return Err(format!("charstrings count {count} != {n}"));
    }
    let os = rd(b, cs_off + count_width, 1).ok_or_else(|| "charstrings INDEX truncated".to_string())?;
    if !(1..=4).contains(&os) {
        return Err(format!("offSize {os}"));
    }
    let base = cs_off + count_width + 1;
    let mut offs = vec![];
    for i in 0..=n {
        let o = rd(b, base + i * os, os).ok_or_else(|| "charstrings offsets truncated".to_string())?;
        if o == 0 {
            return Err("INDEX offset 0".to_string());
        }
        offs.push(o - 1);
    }
    let data = &b[base + (n + 1) * os..];
    Ok((slice_by(&offs, data)?, os as u8))
}

// ------------------------------------------------------------------------------------------------------
// glyph-keyed scenarios: case type

#[derive(Clone, Debug, Serialize, Deserialize)]
struct TableSpec {
    kind: Kind,
    /// glyf/gvar: 0 = short offsets when possible, else long; CFF/CFF2: offSize above the minimum
    wide: u8,
    /// base glyph lengths, used cyclically
    lens: Vec<u16>,
    /// lengths reduced modulo 8 (reaches INDEX offSize 1)
    tiny: bool,
    axes: u8,
    shared: u8,
    /// gvar: glyph data placed before the shared tuples
    ooo: bool,
    /// CFF/CFF2: junk bytes between the real table prefix and the charstrings INDEX
    gap: u8,
}
#[derive(Clone, Debug, Serialize, Deserialize)]
struct PoolGlyph {
    gid_raw: u32,
    /// which patches list this glyph (bit per patch; forced non-empty)
    mask: u8,
    /// new data length per Kind
    lens: [u32; 4],
}
#[derive(Clone, Debug, Serialize, Deserialize)]
struct PatchSpec {
    wide_gids: bool,
    /// bit per font table (forced non-empty, at most 3)
    tables: u8,
    iftx: bool,
    slack: u8,
    split_raw: u16,
}
#[derive(Clone, Debug, Serialize, Deserialize)]
struct Decoy {
    iftx: bool,
    pos_raw: u16,
    /// 0 ignored glyph-keyed, 1 glyph-keyed not requested, 2 table-keyed not requested, 3 ignored and requested
    kind: u8,
}
#[derive(Clone, Debug, Serialize, Deserialize)]
struct MapSpec {
    /// 0 `IFT ` only, 1 both, 2 `IFTX` only (forced to 1 when CFF/CFF2 needs the charstrings offset)
    which: u8,
    compat: [u32; 4],
    x_word: u8,
    gap: u8,
    bias_mode: u8,
    id_deltas: Vec<u8>,
    decoys: Vec<Decoy>,
}
#[derive(Clone, Debug, Serialize, Deserialize)]
struct SizePlan {
    table_raw: u8,
    /// 0: 131070 (short offsets), 1: 254 (offSize 1), 2: 65534 (offSize 2), 3: 16777214 (offSize 3)
    thr: u8,
    delta: i8,
    in_base: bool,
    filler_raw: u32,
}
#[derive(Clone, Debug, Serialize, Deserialize)]
struct GkCase {
    n_glyphs: u16,
    tables: Vec<TableSpec>,
    pool: Vec<PoolGlyph>,
    /// contiguous run of patched glyphs: start, length, mask
    run: Option<(u32, u8, u8)>,
    /// bit 0: patch glyph 0, bit 1: patch the last glyph
    edge: u8,
    patches: Vec<PatchSpec>,
    map: MapSpec,
    plan: Option<SizePlan>,
    perm: u64,
    partition: Vec<u8>,
    /// compat-id corruption: patch, word, style
    bad: (u8, u8, u8),
    /// non-injected decoder failure: patch, style
    natural: (u8, u8),
    salt: u32,
    /// skip fault enumeration and regrouping (huge cases)
    light: bool,
}

struct BuiltPatch {
    gids: Vec<u32>,
    /// indices into Scenario::kinds
    tables: Vec<usize>,
    bytes: Vec<u8>,
    raw_len: usize,
    iftx: bool,
    cp: u32,
    flag_pos: usize,
    uri: String,
}
struct Scenario {
    n: usize,
    kinds: Vec<Kind>,
    cs_off: [usize; 2],
    version: u32,
    base_tables: Vec<(Tag4, Vec<u8>)>,
    font: Vec<u8>,
    base_glyphs: Vec<Vec<Vec<u8>>>,
    base_fmt: Vec<Fmt>,
    new_data: Vec<BTreeMap<u32, Vec<u8>>>,
    patches: Vec<BuiltPatch>,
    compat: [u32; 4],
    compat_x: [u32; 4],
    def_cps: Vec<u32>,
}

fn cff_prefixes() -> &'static (Vec<u8>, Vec<u8>) {
    static P: std::sync::OnceLock<(Vec<u8>, Vec<u8>)> = std::sync::OnceLock::new();
    P.get_or_init(|| {
        let fonts = corpus::repo_fonts();
        let get = |name: &str, tag: &Tag4, off: usize| -> Vec<u8> {
            let f = fonts.iter().find(|f| f.name == name).unwrap_or_else(|| panic!("corpus font {name} missing"));
            let (_, t) = sfnt::split_tables(&f.data).expect("corpus font splits");
            let tb = &t.iter().find(|x| &x.0 == tag).expect("corpus table").1;
            tb[..off].to_vec()
        };
        (get("NotoSansJP-Regular.subset.otf", b"CFF ", 0x1b9), get("NotoSansJP-VF.subset.otf", b"CFF2", 0x8f))
    })
}

fn thr_value(t: u8) -> usize {
    [SHORT_MAX, 254, 65534, 16_777_214][t as usize & 3]
}

impl Scenario {
    fn build(c: &GkCase) -> Result<Scenario, Fail> {
        let n = c.n_glyphs.max(1) as usize;
        let mut specs: Vec<TableSpec> = vec![];
        for k in KINDS {
            if let Some(s) = c.tables.iter().find(|s| s.kind == k) {
                specs.push(s.clone());
            }
        }
        if specs.is_empty() || c.patches.is_empty() {
            return Err(fail("setup", "case without tables or patches"));
        }
        let kinds: Vec<Kind> = specs.iter().map(|s| s.kind).collect();
        let nk = kinds.len();
        let np = c.patches.len().min(5);
        let salt = |a: u64, b: u64, d: u64| mix(mix(mix(c.salt as u64, a), b), d);

        // --- patched glyphs
        let mut pool: BTreeMap<u32, (u8, [u32; 4])> = BTreeMap::new();
        let pmask = ((1u16 << np) - 1) as u8;
        let mut add = |gid: usize, mask: u8, lens: [u32; 4]| {
            let mut m = mask & pmask;
            if m == 0 {
                m = 1 << (gid % np);
            }
            pool.entry(gid as u32).or_insert((m, lens));
        };
        for p in &c.pool {
            add(idx(p.gid_raw, n), p.mask, p.lens);
        }
        if let Some((start, len, mask)) = c.run {
            let s = idx(start, n);
            for i in 0..len as usize {
                if s + i < n {
                    let l = ((s + i) * 5 + len as usize) as u32 % 23;
                    add(s + i, mask, [l, l + 1, l + 2, l + 3]);
                }
            }
        }
        if c.edge & 1 != 0 {
            add(0, c.edge >> 2, [3, 4, 5, 6]);
        }
        if c.edge & 2 != 0 {
            add(n - 1, c.edge >> 3, [8, 7, 1, 0]);
        }
        // --- patches: table lists and glyph lists
        let mut ptables: Vec<Vec<usize>> = vec![];
        let mut pgids: Vec<Vec<u32>> = vec![];
        for (p, ps) in c.patches.iter().take(np).enumerate() {
            let mut m = ps.tables & (((1u16 << nk) - 1) as u8);
            if m == 0 {
                m = 1 << (ps.tables as usize % nk);
            }
            let mut t: Vec<usize> = (0..nk).filter(|i| m & (1 << i) != 0).collect();
            t.truncate(3);
            ptables.push(t);
            pgids.push(pool.iter().filter(|(_, v)| v.0 & (1 << p) != 0).map(|(g, _)| *g).collect());
        }
        let mut patched: Vec<BTreeSet<u32>> = vec![BTreeSet::new(); nk];
        for p in 0..np {
            for t in &ptables[p] {
                patched[*t].extend(pgids[p].iter().copied());
            }
        }
        // --- lengths
        let plan_table: Option<usize> = c.plan.as_ref().and_then(|pl| {
            let cands: Vec<usize> = (0..nk).filter(|t| matches!(kinds[*t], Kind::Glyf | Kind::Gvar) == (pl.thr & 3 == 0)).collect();
            if cands.is_empty() {
                None
            } else {
                Some(cands[pl.table_raw as usize % cands.len()])
            }
        });
        let mut short_intent = vec![false; nk];
        let mut base_len: Vec<Vec<usize>> = vec![];
        for (t, s) in specs.iter().enumerate() {
            let offs2 = matches!(s.kind, Kind::Glyf | Kind::Gvar);
            short_intent[t] = offs2 && (s.wide == 0 || (plan_table == Some(t) && c.plan.as_ref().map(|p| p.thr & 3 == 0).unwrap_or(false)));
            let tiny = s.tiny || (plan_table == Some(t) && c.plan.as_ref().map(|p| p.thr & 3 == 1).unwrap_or(false));
            let lens: Vec<usize> = (0..n)
                .map(|g| {
                    let mut l = if s.lens.is_empty() { 0 } else { s.lens[g % s.lens.len()] as usize };
                    if tiny {
                        l %= 8;
                    }
                    if short_intent[t] {
                        l &= !1;
                    }
                    l
                })
                .collect();
            base_len.push(lens);
        }
        let mut new_len: Vec<BTreeMap<u32, usize>> = vec![];
        for t in 0..nk {
            new_len.push(patched[t].iter().map(|g| (*g, pool[g].1[kinds[t] as usize] as usize)).collect());
        }
        if let (Some(pl), Some(t)) = (&c.plan, plan_table) {
            let thr = thr_value(pl.thr);
            let si = short_intent[t];
            let padded = |l: usize| if si { l + (l & 1) } else { l };
            let target = (thr as i64 + pl.delta as i64).max(0) as usize;
            let kept: Vec<usize> = (0..n).filter(|g| !patched[t].contains(&(*g as u32))).collect();
            let pg: Vec<u32> = patched[t].iter().copied().collect();
            if pl.in_base && !kept.is_empty() {
                let g = kept[idx(pl.filler_raw, kept.len())];
                let rest_final: usize = kept.iter().filter(|k| **k != g).map(|k| base_len[t][*k]).sum::<usize>() + new_len[t].values().map(|l| padded(*l)).sum::<usize>();
                let rest_base: usize = (0..n).filter(|k| *k != g).map(|k| base_len[t][k]).sum();
                let mut want = target.saturating_sub(rest_final);
                if si {
                    want = want.min(SHORT_MAX.saturating_sub(rest_base)) & !1;
                }
                base_len[t][g] = want;
            } else if !pg.is_empty() {
                let g = pg[idx(pl.filler_raw, pg.len())];
                let rest_final: usize = kept.iter().map(|k| base_len[t][*k]).sum::<usize>() + new_len[t].iter().filter(|(k, _)| **k != g).map(|(_, l)| padded(*l)).sum::<usize>();
                new_len[t].insert(g, target.saturating_sub(rest_final));
            }
        }
        // --- data
        let base_glyphs: Vec<Vec<Vec<u8>>> = (0..nk).map(|t| (0..n).map(|g| pat(salt(1, kinds[t] as u64, g as u64), base_len[t][g])).collect()).collect();
        let new_data: Vec<BTreeMap<u32, Vec<u8>>> = (0..nk).map(|t| new_len[t].iter().map(|(g, l)| (*g, pat(salt(2, kinds[t] as u64, *g as u64), *l))).collect()).collect();
        // --- base tables
        let mut base_fmt = vec![];
        let mut extra: Vec<(Tag4, Vec<u8>)> = vec![];
        let mut kit = fontkit::Kit { num_glyphs: n as u16, upem: 1000, ..Default::default() };
        let mut cs_off = [0usize; 2];
        let prefixes = cff_prefixes();
        for (t, s) in specs.iter().enumerate() {
            let total: usize = base_len[t].iter().sum();
            match s.kind {
                Kind::Glyf | Kind::Gvar => {
                    let short = short_intent[t] && total <= SHORT_MAX;
                    base_fmt.push(if short { Fmt::Short } else { Fmt::Long });
                    if s.kind == Kind::Glyf {
                        let mut offs = vec![0u32];
                        let mut bytes = vec![];
                        for g in &base_glyphs[t] {
                            bytes.extend_from_slice(g);
                            offs.push(bytes.len() as u32);
                        }
                        kit.glyf = Some((bytes, offs));
                        kit.force_long_loca = !short;
                    } else {
                        extra.push((*b"gvar", build_gvar(s.axes.clamp(1, 3) as u16, s.shared.min(4) as u16, s.ooo, !short, salt(3, 0, 0), &base_glyphs[t])));
                    }
                }
                Kind::Cff | Kind::Cff2 => {
                    let os = (cff_min_off_size(total) + s.wide).min(4);
                    base_fmt.push(Fmt::Off(os));
                    let which = (s.kind == Kind::Cff2) as usize;
                    let mut prefix = if which == 0 { prefixes.0.clone() } else { prefixes.1.clone() };
                    prefix.extend(pat(salt(4, which as u64, 0), s.gap as usize % 4));
                    cs_off[which] = prefix.len();
                    extra.push((s.kind.tag(), build_cff(&prefix, if which == 0 { 2 } else { 4 }, os, &base_glyphs[t])));
                }
            }
        }
        let has_cff = kinds.contains(&Kind::Cff);
        let has_cff2 = kinds.contains(&Kind::Cff2);
        let which = if (has_cff || has_cff2) && c.map.which % 3 == 2 { 1 } else { c.map.which % 3 };
        let compat = c.map.compat;
        let mut compat_x = compat;
        compat_x[c.map.x_word as usize % 4] ^= 0x8000_0001;
        // --- mapping tables
        #[derive(Clone, Copy)]
        enum Item {
            Patch(usize),
            Decoy(u8),
        }
        let mut items: [Vec<Item>; 2] = [vec![], vec![]];
        let in_x = |flag: bool| -> usize { (which == 2 || (which == 1 && flag)) as usize };
        for (p, ps) in c.patches.iter().take(np).enumerate() {
            items[in_x(ps.iftx)].push(Item::Patch(p));
        }
        for d in &c.map.decoys {
            let v = &mut items[in_x(d.iftx)];
            let at = idx((d.pos_raw as u32) << 16, v.len() + 1);
            v.insert(at, Item::Decoy(d.kind % 4));
        }
        let mut def_cps = vec![0x50u32];
        let mut where_patch: Vec<(bool, u32, usize)> = vec![(false, 0, 0); np]; // (iftx, cp, entry index)
        let mut encs: [Option<MapEnc>; 2] = [None, None];
        for x in 0..2 {
            let present = match which {
                0 => x == 0,
                1 => true,
                _ => x == 1,
            };
            if !present {
                if !items[x].is_empty() {
                    return Err(fail("setup", "entries for an absent mapping table"));
                }
                continue;
            }
            let base_cp = if x == 0 { 0x100u32 } else { 0x300 };
            let mut entries = vec![];
            for (j, it) in items[x].iter().enumerate() {
                let cp = base_cp + j as u32;
                let idd = if c.map.id_deltas.is_empty() { 0 } else { c.map.id_deltas[j % c.map.id_deltas.len()] };
                let mut e = EntryEnc { cp, format: None, ignored: false, id_delta: if idd == 0 { None } else { Some(idd - 1) }, bias_mode: (c.map.bias_mode as usize + j) as u8 % 3 };
                match it {
                    Item::Patch(p) => {
                        if (c.salt as usize + j) % 4 == 0 {
                            e.format = Some(3);
                        }
                        def_cps.push(cp);
                        where_patch[*p] = (x == 1, cp, j);
                    }
                    Item::Decoy(0) => e.ignored = true,
                    Item::Decoy(1) => {}
                    Item::Decoy(2) => e.format = Some(2),
                    Item::Decoy(_) => {
                        e.ignored = true;
                        def_cps.push(cp);
                    }
                }
                entries.push(e);
            }
            let (cid, tmpl): ([u32; 4], &[u8]) = if x == 0 { (compat, b"a/{id}") } else { (compat_x, b"b/{id}") };
            let (o1, o2) = if x == 0 { (has_cff.then_some(cs_off[0] as u32), has_cff2.then_some(cs_off[1] as u32)) } else { (None, None) };
            encs[x] = Some(encode_map(cid, 3, tmpl, o1, o2, c.map.gap as usize % 4, &entries));
        }
        for (x, tag) in [(0, IFT), (1, IFTX)] {
            if let Some(e) = &encs[x] {
                extra.push((tag, e.bytes.clone()));
            }
        }
        extra.push((*b"OS/2", pat(salt(5, 0, 0), 78)));
        extra.push((*b"name", pat(salt(5, 1, 0), 33)));
        kit.extra = extra;
        if kit.glyf.is_none() {
            kit.version = Some(u32::from_be_bytes(*b"OTTO"));
        }
        let base_tables = kit.tables();
        let version = kit.version.unwrap_or(0x00010000);
        let font = sfnt::assemble(version, &base_tables);
        // --- patches
        let mut patches = vec![];
        for (p, ps) in c.patches.iter().take(np).enumerate() {
            let tags: Vec<Tag4> = ptables[p].iter().map(|t| kinds[*t].tag()).collect();
            let data: Vec<Vec<Vec<u8>>> = ptables[p].iter().map(|t| pgids[p].iter().map(|g| new_data[*t][g].clone()).collect()).collect();
            let raw = encode_glyph_patches(ps.wide_gids, &pgids[p], &tags, &data);
            let cut = if ps.split_raw & 1 == 1 { raw.len() } else { idx((ps.split_raw as u32) << 16, raw.len() + 1) };
            let stream = if cut == raw.len() { lit_stream(b'R', &[&raw]) } else { lit_stream(b'R', &[&raw[..cut], &raw[cut..]]) };
            let (iftx, cp, j) = where_patch[p];
            let cid = if iftx { compat_x } else { compat };
            let bytes = encode_gk_patch(ps.wide_gids, cid, (raw.len() + ps.slack as usize) as u32, &stream);
            let flag_pos = encs[iftx as usize].as_ref().unwrap().flag_pos[j];
            patches.push(BuiltPatch { gids: pgids[p].clone(), tables: ptables[p].clone(), bytes, raw_len: raw.len(), iftx, cp, flag_pos, uri: String::new() });
        }
        Ok(Scenario { n, kinds, cs_off, version, base_tables, font, base_glyphs, base_fmt, new_data, patches, compat, compat_x, def_cps })
    }

    fn sibling_font(&self) -> Vec<u8> {
        let mut t = self.base_tables.clone();
        for (tag, d) in t.iter_mut() {
            if *tag == IFT || *tag == IFTX {
                d[8] ^= 0x10; // inside compat id word 0 of both tables: they stay distinct
            }
        }
        sfnt::assemble(self.version, &t)
    }
}

struct Decoded {
    tables: Tables,
    glyphs: Vec<Vec<Vec<u8>>>,
    fmt: Vec<Fmt>,
    gvar: Option<([usize; 5], Vec<u8>)>,
}
impl Scenario {
    fn decode(&self, tables: Tables, what: &str) -> Result<Decoded, Fail> {
        let mut glyphs = vec![];
        let mut fmt = vec![];
        let mut gv = None;
        for k in &self.kinds {
            let bad = |e: String| fail(&format!("gk|offsets|{}", k.name()), format!("{what}: {} does not decode: {e}", k.name()));
            let get = |t: &Tag4| tables.get(t).ok_or_else(|| fail("gk|table-set", format!("{what}: table {} is missing", tag_str(t))));
            match k {
                Kind::Glyf => {
                    let head = get(b"head")?;
                    let long = rd(head, 50, 2).ok_or_else(|| fail("gk|untouched-table", format!("{what}: head truncated")))? != 0;
                    glyphs.push(decode_glyf(get(b"glyf")?, get(b"loca")?, long, self.n).map_err(bad)?);
                    fmt.push(if long { Fmt::Long } else { Fmt::Short });
                }
                Kind::Gvar => {
                    let v = decode_gvar(get(b"gvar")?, self.n).map_err(bad)?;
                    glyphs.push(v.glyphs);
                    fmt.push(if v.long { Fmt::Long } else { Fmt::Short });
                    gv = Some((v.header, v.shared));
                }
                Kind::Cff | Kind::Cff2 => {
                    let w = (*k == Kind::Cff2) as usize;
                    let (g, os) = decode_cff(get(&k.tag())?, self.cs_off[w], if w == 0 { 2 } else { 4 }, self.n).map_err(bad)?;
                    glyphs.push(g);
                    fmt.push(Fmt::Off(os));
                }
            }
        }
        Ok(Decoded { tables, glyphs, fmt, gvar: gv })
    }

    /// tables touched by the patches `now` (indices into kinds)
    fn touched(&self, now: &[usize]) -> BTreeSet<usize> {
        now.iter().flat_map(|p| self.patches[*p].tables.iter().copied()).collect()
    }

    /// does the model say that applying `now` to `before` cannot be represented (short loca overflow)?
    fn expect_overflow(&self, before: &Decoded, now: &[usize]) -> bool {
        for t in self.touched(now) {
            if self.kinds[t] == Kind::Glyf && before.fmt[t] == Fmt::Short {
                let rep: BTreeSet<u32> = now.iter().filter(|p| self.patches[**p].tables.contains(&t)).flat_map(|p| self.patches[*p].gids.iter().copied()).collect();
                let mut total = 0usize;
                for g in 0..self.n {
                    total += if rep.contains(&(g as u32)) {
                        let l = self.new_data[t][&(g as u32)].len();
                        l + (l & 1)
                    } else {
                        before.glyphs[t][g].len()
                    };
                }
                if total > SHORT_MAX {
                    return true;
                }
            }
        }
        false
    }

    /// the oracle for one successful application of the patches `now` to the font decoded as `before`
    fn check_step(&self, before: &Decoded, out: &[u8], now: &[usize], what: &str) -> Result<Decoded, Fail> {
        let tabs = tables_of(out, what)?;
        let kb: Vec<&Tag4> = before.tables.keys().collect();
        let ka: Vec<&Tag4> = tabs.keys().collect();
        if kb != ka {
            return Err(fail("gk|table-set", format!("{what}: tables before {:?}, after {:?}", kb.iter().map(|t| tag_str(t)).collect::<Vec<_>>(), ka.iter().map(|t| tag_str(t)).collect::<Vec<_>>())));
        }
        let touched = self.touched(now);
        let mut touched_tags: BTreeSet<Tag4> = touched.iter().map(|t| self.kinds[*t].tag()).collect();
        if touched_tags.contains(b"glyf") {
            touched_tags.insert(*b"loca");
        }
        for (tag, b) in &before.tables {
            let a = &tabs[tag];
            if *tag == IFT || *tag == IFTX {
                let mut want = b.clone();
                for p in now {
                    let bp = &self.patches[*p];
                    if bp.iftx == (*tag == IFTX) {
                        want[bp.flag_pos] |= 0x40;
                    }
                }
                if *a != want {
                    let diffs: Vec<(usize, u8, u8)> = a.iter().zip(want.iter()).enumerate().filter(|(_, (x, y))| x != y).map(|(i, (x, y))| (i, *x, *y)).take(6).collect();
                    return Err(fail("gk|applied-bits", format!("{what}: {} differs from 'before + applied bits of the applied patches': (pos, got, want) {diffs:x?}, lengths {}/{}", tag_str(tag), a.len(), want.len())));
                }
            } else if !touched_tags.contains(tag) && norm(tag, a) != norm(tag, b) {
                return Err(fail("gk|untouched-table", format!("{what}: table {} is not listed in any applied patch but changed ({})", tag_str(tag), first_diff(a, b))));
            }
        }
        let after = self.decode(tabs, what)?;
        for (t, k) in self.kinds.iter().enumerate() {
            if !touched.contains(&t) {
                continue; // byte-identical, checked above
            }
            let rep: BTreeSet<u32> = now.iter().filter(|p| self.patches[**p].tables.contains(&t)).flat_map(|p| self.patches[*p].gids.iter().copied()).collect();
            for g in 0..self.n {
                let got = &after.glyphs[t][g];
                if rep.contains(&(g as u32)) {
                    let mut want = self.new_data[t][&(g as u32)].clone();
                    if after.fmt[t] == Fmt::Short && want.len() % 2 == 1 {
                        want.push(0);
                    }
                    if *got != want {
                        return Err(fail(&format!("gk|patched-glyph|{}", k.name()), format!("{what}: {} glyph {g} is listed in an applied patch; data {} (patch data {} bytes, offsets {:?})", k.name(), first_diff(got, &want), self.new_data[t][&(g as u32)].len(), after.fmt[t])));
                    }
                } else if *got != before.glyphs[t][g] {
                    return Err(fail(&format!("gk|kept-glyph|{}", k.name()), format!("{what}: {} glyph {g} is not listed in any applied patch but its data changed ({})", k.name(), first_diff(got, &before.glyphs[t][g]))));
                }
            }
            match k {
                Kind::Gvar => {
                    if after.gvar != before.gvar {
                        return Err(fail("gk|gvar-frame", format!("{what}: gvar header fields / shared tuples changed: {:?} -> {:?}", before.gvar.as_ref().map(|x| x.0), after.gvar.as_ref().map(|x| x.0))));
                    }
                }
                Kind::Cff | Kind::Cff2 => {
                    let cs = self.cs_off[(*k == Kind::Cff2) as usize];
                    let tag = k.tag();
                    if after.tables[&tag].get(..cs) != before.tables[&tag].get(..cs) {
                        return Err(fail("gk|cff-prefix", format!("{what}: {} bytes before the charstrings INDEX changed", k.name())));
                    }
                }
                Kind::Glyf => {}
            }
        }
        Ok(after)
    }
}
